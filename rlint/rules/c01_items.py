"""R7 / R8 of C01: contracts of the built-in segment-tree items and of the pair combinator."""
from .. import util
from ..absint import tstr, mk_int, subterms
from ..core import Anchor


def _impl_bodies(crate, adt_name, trait_suffix):
    out = {}
    for imp in crate.impls:
        if not imp.get("of_trait") or imp.get("derived"):
            continue
        if not (imp.get("trait") or "").endswith(trait_suffix):
            continue
        st = imp["self_ty"].split("<")[0]
        if st.endswith("::" + adt_name) or st == adt_name:
            for it in imp["items"]:
                b = crate.by_key.get(it["key"])
                if b is not None:
                    out[it["name"]] = b
            out["__impl__"] = imp
    return out


def _any_impl(crate, adt_name, trait_suffix):
    """like _impl_bodies, derived impls included"""
    out = {}
    for imp in crate.impls:
        if not imp.get("of_trait") or not (imp.get("trait") or "").endswith(trait_suffix):
            continue
        st = imp["self_ty"].split("<")[0]
        if st.endswith("::" + adt_name) or st == adt_name:
            for it in imp["items"]:
                b = crate.by_key.get(it["key"])
                if b is not None:
                    out[it["name"]] = b
            out["__impl__"] = imp
    return out


def _unref_const(x):
    while isinstance(x, tuple) and len(x) == 2 and x[0] == "ref" and isinstance(x[1], tuple) and x[1][0] == "constval":
        x = x[1][1]
    return x


def _mentions_load_of(t, place):
    return any(s[0] == "load" and s[2] == place for s in subterms(t))


def check_items(col, crate, sfx):
    fk = util.fkey
    free = [b for b in crate.bodies if not b.is_closure and b.kind == "Fn" and b.container is None and b.vis != "pub" and not util.self_recursive(b)]
    A = util.analyser(free)
    A9 = util.analyser(free, features=("comb", "fncall"))
    lazy = []
    plain = []
    for a in crate.adts:
        nm = a["path"].split("::")[-1]
        if "segtree_items" not in a["path"] and not a["path"].startswith(("Min", "Max", "Sum")):
            continue
        fields = [f["name"] for f in a["variants"][0]["fields"]]
        if nm == "Combinator":
            continue
        if "md" in fields:
            lazy.append((nm, a, fields))
        elif fields == ["v"]:
            plain.append((nm, a, fields))
    if len(lazy) < 3 or len(plain) < 3:
        raise Anchor("expected 3 lazy and 3 plain built-in items, found %d and %d" % (len(lazy), len(plain)))
    for nm, a, fields in plain:
        impl = _impl_bodies(crate, nm, "SegtreeItem")
        names = sorted(k for k in impl if k != "__impl__")
        key = "%s|no-lazy-overrides" % nm
        if "update" in impl:
            _check_update(col, sfx, nm, impl["update"], fields)
            names = [x for x in names if x != "update"]
        if names == ["merge"]:
            col.ok("R7" + sfx, "%s:%d" % (a["span"]["file"], a["span"]["line"]), key, "only merge is provided; modify/push are the no-op defaults", nontrivial=False)
        else:
            col.violation("R7" + sfx, key, "%s:%d" % (a["span"]["file"], a["span"]["line"]), "non-lazy item %s overrides %s" % (nm, names))
    for nm, a, fields in lazy:
        V, MD = fields.index("v"), fields.index("md")
        LEN = fields.index("len") if "len" in fields else None
        impl = _impl_bodies(crate, nm, "SegtreeItem")
        for m in ("merge", "modify", "push"):
            if m not in impl:
                raise Anchor("%s does not implement SegtreeItem::%s" % (nm, m))
        if "update" in impl:
            _check_update(col, sfx, nm, impl["update"], fields)
        # ---- push
        b = impl["push"]
        I = A(b)
        selfp = ("deref", ("param", 1, I.names.get(1)))
        for st in I.final_states:
            evs = st.event_list()
            mods = [(k, e) for k, e in enumerate(evs) if e.kind == "call" and e.extra.get("name") == "modify"]
            md_place = ("field", selfp, MD)
            md0 = ("load", ("m0",), md_place)
            resets = [(k, e) for k, e in enumerate(evs) if e.kind == "store" and e.place == md_place]
            first_reset = resets[0][0] if resets else len(evs)
            tgt = {}
            late_place_use = False
            for k, e in mods:
                a1 = e.args[1]
                # the modifier handed to the child is the ORIGINAL pending value: a reference to self.md while it
                # is still untouched, or a moved-out copy of it (mem::take / mem::replace / clone before the reset)
                by_place = a1 == ("ref", md_place) and k < first_reset
                av = (e.extra.get("argvals") or [None, None])[1] if len(e.extra.get("argvals") or []) > 1 else None
                by_value = (a1[0] == "ref" and a1[1][0] == "constval" and _strip_clone(a1[1][1]) == md0) or (av is not None and _strip_clone(av) == md0)
                if a1 == ("ref", md_place) and k > first_reset:
                    late_place_use = True
                if (by_place or by_value) and e.args[0][0] == "ref" and e.args[0][1][0] == "deref" and e.args[0][1][1][0] == "param":
                    tgt[e.args[0][1][1][1]] = k
            ok_children = 2 in tgt and 3 in tgt and not late_place_use
            ok_reset = bool(resets) and _is_default(resets[-1][1].val) and ok_children
            key = "%s|both-children" % fk(b)
            if ok_children:
                col.ok("R7" + sfx, b.loc(), key, "left.modify(&self.md); right.modify(&self.md)")
            else:
                col.violation("R7" + sfx, key, b.loc(), "%s::push does not apply the pending modifier to both children" % nm)
            key = "%s|reset-after" % fk(b)
            if ok_reset:
                col.ok("R7" + sfx, b.loc(), key, "self.md = default() after both children were modified")
            else:
                col.violation("R7" + sfx, key, b.loc(), "%s::push does not reset the pending modifier to default() after pushing it: it is applied again on the next push" % nm)
        # ---- modify
        b = impl["modify"]
        I = A(b)
        selfp = ("deref", ("param", 1, I.names.get(1)))
        modp = ("deref", ("param", 2, I.names.get(2)))
        for st in I.final_states:
            evs = st.event_list()
            touched = {}
            for e in evs:
                if e.kind == "store" and e.place[0] == "field" and e.place[1] == selfp:
                    touched[e.place[2]] = e.val
                if e.kind == "call" and e.extra.get("name") in ("add_assign",) and e.args[0][0] == "ref" and e.args[0][1][0] == "field" and e.args[0][1][1] == selfp:
                    touched[e.args[0][1][2]] = ("addassign", e.args[1])
            okv = V in touched and _mentions_load_of(touched[V], modp)
            okm = MD in touched and _mentions_load_of(touched[MD], modp)
            if LEN is not None and okv:
                # v + modifier * len
                okv = any(s[0] == "call" and str(s[1]).endswith("Mul::mul") and _mentions_load_of(s, modp) and _mentions_load_of(s, ("field", selfp, LEN)) for s in subterms(touched[V]))
                okv = okv and _mentions_load_of(touched[V], ("field", selfp, V))
            if okm and touched[MD][0] != "addassign":
                okm = _mentions_load_of(touched[MD], ("field", selfp, MD))
            key = "%s|updates-value" % fk(b)
            if okv:
                col.ok("R7" + sfx, b.loc(), key, "v updated with the modifier%s" % (" * len" if LEN is not None else ""))
            else:
                col.violation("R7" + sfx, key, b.loc(), "%s::modify does not update the aggregate with the modifier%s" % (nm, " times the segment length" if LEN is not None else ""))
            key = "%s|accumulates-md" % fk(b)
            if okm:
                col.ok("R7" + sfx, b.loc(), key, "md accumulates the modifier")
            else:
                col.violation("R7" + sfx, key, b.loc(), "%s::modify does not accumulate the modifier into the pending field md: children never receive it" % nm)
        # ---- merge: md of the result is default
        b = impl["merge"]
        I = A(b)
        lp, rp = ("deref", ("param", 1, I.names.get(1))), ("deref", ("param", 2, I.names.get(2)))
        for n, st in enumerate(I.final_states):
            ret = util.ret_term(st)
            agg = _resolve_ctor(crate, nm, ret, st)
            key = "%s|result-md-default|%d" % (fk(b), n)
            if agg is not None and _is_default(agg[MD]):
                col.ok("R7" + sfx, b.loc(), key, "merge result carries no pending modifier")
            else:
                col.violation("R7" + sfx, "%s|result-md-default" % fk(b), b.loc(), "%s::merge returns a value whose pending modifier is not default(): %s" % (nm, tstr(ret)))
            if LEN is not None and agg is not None:
                okl = any(str(s[1]).endswith("Add::add") for s in subterms(agg[LEN]) if s[0] == "call") and _mentions_load_of(agg[LEN], ("field", lp, LEN)) and _mentions_load_of(agg[LEN], ("field", rp, LEN))
                okv = _mentions_load_of(agg[V], ("field", lp, V)) and _mentions_load_of(agg[V], ("field", rp, V))
                key = "%s|len-and-sum" % fk(b)
                if okl and okv:
                    col.ok("R7" + sfx, b.loc(), key, "v = left.v + right.v, len = left.len + right.len")
                else:
                    col.violation("R7" + sfx, key, b.loc(), "%s::merge must add both values and both lengths" % nm)
        # ---- new / default for SumAdd
        if LEN is not None:
            nb = crate.body("%s::<T>::new" % nm)
            if nb is None:
                raise Anchor("%s::new not found" % nm)
            I = A(nb)
            for st in I.final_states:
                ret = util.ret_term(st)
                ok = ret[0] == "agg" and ret[2][LEN][0] == "assoc" and ret[2][LEN][2] == "ONE" and _is_default(ret[2][MD]) and ret[2][V] == ("param", 1, I.names.get(1))
                key = "%s|len-one" % fk(nb)
                if ok:
                    col.ok("R7" + sfx, nb.loc(), key, "new(v): len = ONE, md = default")
                else:
                    col.violation("R7" + sfx, key, nb.loc(), "%s::new must create a single-element segment: len = ONE, md = default(), v = argument" % nm)

    # ---------------- R9 what the merges compute: Min*/Max* select the operand the path's comparison of the two values
    # makes the smaller / larger one, Sum* adds left.v + right.v (the test suite's generator never exercises the order)
    col.rule("R9" + sfx, "merge of Min*/Max* returns the operand its own comparison makes the smaller/larger; Sum* adds left.v + right.v", floor=6)
    for nm, a, fields in plain + lazy:
        impl = _impl_bodies(crate, nm, "SegtreeItem")
        b = impl["merge"]
        I = A9(b)
        lp, rp = ("deref", ("param", 1, I.names.get(1))), ("deref", ("param", 2, I.names.get(2)))
        V = fields.index("v")
        lv, rv = ("load", ("m0",), ("field", lp, V)), ("load", ("m0",), ("field", rp, V))

        def side_of(t):
            """'L' / 'R' when the term is (a clone of) the left / right operand's value or the whole operand"""
            t = _strip_clone(t)
            if t in (lv, ("load", ("m0",), lp)):
                return "L"
            if t in (rv, ("load", ("m0",), rp)):
                return "R"
            return None

        ok, why = bool(I.final_states), ""
        kind = "min" if nm.startswith("Min") else "max" if nm.startswith("Max") else "sum" if nm.startswith("Sum") else None
        if kind is None:
            continue
        for st in I.final_states:
            ret = util.ret_term(st)
            agg = _resolve_ctor(crate, nm, ret, st)
            val = agg[V] if agg is not None else ret
            if kind == "sum":
                v = val
                good = isinstance(v, tuple) and v and v[0] == "call" and str(v[1]).endswith("Add::add")
                if good:
                    args = [x for x in v[2] if not (isinstance(x, tuple) and x and x[0] == "mem")]
                    good = len(args) == 2 and side_of(args[0]) == "L" and side_of(args[1]) == "R"
                if not good:
                    ok, why = False, "the value of the result is %s, not left.v + right.v" % tstr(val)[:90]
                continue
            src = side_of(val) if agg is not None else side_of(ret)
            # which operand the path's comparison makes the smaller one (ties may go either way)
            smaller = None
            for f in st.facts:
                t = f[1]
                if f[0] not in ("eq", "ne") or f[2] not in (0, 1) or not (isinstance(t, tuple) and t and t[0] == "call" and "PartialOrd" in str(t[1])):
                    continue
                op = str(t[1]).rsplit("::", 1)[-1]
                args = [x for x in t[2] if not (isinstance(x, tuple) and x and x[0] == "mem")]
                if len(args) != 2 or op not in ("lt", "le", "gt", "ge"):
                    continue
                args = [_unref_const(x) for x in args]   # `a < b` on two references compares the referents (std's impl for &A)
                sides = [("L" if x == ("ref", ("field", lp, V)) else "R" if x == ("ref", ("field", rp, V)) else None) for x in args]
                if None in sides or sides[0] == sides[1]:
                    continue
                truth = (f[0] == "eq") == bool(f[2])
                first_smaller = truth if op in ("lt", "le") else not truth   # first <(=) second, or !(first >(=) second)
                smaller = sides[0] if first_smaller else sides[1]
            if smaller is None or src is None:
                ok, why = False, "no comparison of left.v with right.v decides this path, or the result is not one of the operands (%s)" % tstr(ret)[:80]
                continue
            want = smaller if kind == "min" else ("R" if smaller == "L" else "L")
            if src != want:
                ok, why = False, "on the path where %s is the smaller value the merge returns %s" % ("left" if smaller == "L" else "right", "left" if src == "L" else "right")
        key = "%s|computes-%s" % (fk(b), kind)
        if ok:
            col.ok("R9" + sfx, b.loc(), key, {"min": "returns the operand its comparison makes the smaller one", "max": "returns the operand its comparison makes the larger one", "sum": "left.v + right.v"}[kind])
        else:
            col.violation("R9" + sfx, key, b.loc(), "%s::merge does not compute the %s of its operands: %s" % (nm, {"min": "minimum", "max": "maximum", "sum": "sum"}[kind], why))

    # ---------------- R10 the identities the searches start from: Default of Min* is T::MAX, of Max* T::MIN, of Sum* the default
    # value (and no pending modifier, no length); MinMax::MIN / MAX of the primitive types are their extreme values
    col.rule("R10" + sfx, "Default of the built-in items is the identity of merge (Min: T::MAX, Max: T::MIN, Sum: default; md and len default); MinMax::MIN/MAX of the primitives are the extreme values", floor=6)
    for nm, a, fields in plain + lazy:
        kind = "min" if nm.startswith("Min") else "max" if nm.startswith("Max") else "sum" if nm.startswith("Sum") else None
        if kind is None:
            continue
        impl = _any_impl(crate, nm, "Default")
        key = "%s|default-is-identity" % nm
        if "__impl__" not in impl:
            continue   # no Default: the item cannot seed a search
        if impl["__impl__"].get("derived"):
            if kind == "sum":
                col.ok("R10" + sfx, "%s:%d" % (a["span"]["file"], a["span"]["line"]), key, "derived Default: every field default()", nontrivial=False)
            else:
                col.violation("R10" + sfx, key, "%s:%d" % (a["span"]["file"], a["span"]["line"]), "%s derives Default: its value field is T::default(), not the identity of %s" % (nm, kind))
            continue
        if "default" not in impl:
            continue
        b = impl["default"]
        I = A(b)
        ok, why = bool(I.final_states), ""
        for st in I.final_states:
            agg = _resolve_ctor(crate, nm, util.ret_term(st), st)
            if agg is None:
                ok, why = False, "cannot resolve the value returned (%s)" % tstr(util.ret_term(st))[:80]
                break
            v = agg[fields.index("v")]
            if kind == "sum":
                good = _is_default(v)
            else:
                good = isinstance(v, tuple) and v and v[0] == "assoc" and str(v[1]).endswith("MinMax") and v[2] == ("MAX" if kind == "min" else "MIN")
            if not good:
                ok, why = False, "v = %s" % tstr(v)[:80]
            for fn_ in ("md", "len"):
                if fn_ in fields and not _is_default(agg[fields.index(fn_)]):
                    ok, why = False, "%s = %s" % (fn_, tstr(agg[fields.index(fn_)])[:60])
        if ok:
            col.ok("R10" + sfx, b.loc(), key, {"min": "v = T::MAX", "max": "v = T::MIN", "sum": "v = default()"}[kind])
        else:
            col.violation("R10" + sfx, key, b.loc(), "%s::default() is not the identity of its merge (%s): a search starts its carry from this value" % (nm, why))
    nt = crate.program.crates.get("rlib_num_traits") if hasattr(crate, "program") and crate.program is not None else None
    if nt is not None:
        _rule_minmax(col, nt, "R10" + sfx)

    # ---------------- R11 a copy of an item is the item: construction by fill / from_slice clones its input, queries clone nodes
    col.rule("R11" + sfx, "Clone of the built-in items is derived or copies every field", floor=6)
    for nm, a, fields in plain + lazy:
        impl = _any_impl(crate, nm, "Clone")
        key = "%s|clone-copies-every-field" % nm
        loc = "%s:%d" % (a["span"]["file"], a["span"]["line"])
        if "__impl__" not in impl:
            col.violation("R11" + sfx, key, loc, "%s has no Clone impl" % nm)
            continue
        if impl["__impl__"].get("derived"):
            col.ok("R11" + sfx, loc, key, "derived", nontrivial=False)
            continue
        b = impl.get("clone")
        if b is None:
            col.violation("R11" + sfx, key, loc, "hand-written Clone for %s without a clone method" % nm)
            continue
        I = A(b)
        selfp = ("deref", ("param", 1, I.names.get(1)))
        ok, why = bool(I.final_states), ""
        for st in I.final_states:
            agg = _resolve_ctor(crate, nm, util.ret_term(st), st)
            if agg is None or len(agg) != len(fields):
                ok, why = False, "returns %s" % tstr(util.ret_term(st))[:80]
                break
            for k_, fv in enumerate(agg):
                if _strip_clone(fv) != ("load", ("m0",), ("field", selfp, k_)):
                    ok, why = False, "field %s of the copy is %s" % (fields[k_], tstr(fv)[:60])
        if ok:
            col.ok("R11" + sfx, b.loc(), key, "hand-written, field by field")
        else:
            col.violation("R11" + sfx, key, b.loc(), "%s::clone does not copy every field (%s): Segtree::new / from_slice clone their input and ask clones nodes, so a copy must be the same element" % (nm, why))

    # ---------------- R8 combinator
    impl = _impl_bodies(crate, "Combinator", "SegtreeItem")
    if "__impl__" not in impl:
        raise Anchor("no SegtreeItem impl for Combinator")
    # the two component types are whatever the two fields of the pair are declared as (`Combinator<U, V>(U, V)`)
    gen = [str(f_["ty"]) for f_ in util.fields_of(util.need_adt(crate, "Combinator"))[:2]]
    if len(gen) != 2 or gen[0] == gen[1]:
        raise Anchor("Combinator is expected to be a pair of two different component types")
    def _impl_gen(b_):
        """the two component types as THIS impl block names them (`impl<A, B, Md> SegtreeItem<Md> for Combinator<A, B>` over
        a struct declared `Combinator<U, V>(U, V)`): the arguments of the impl's self type, by position"""
        ty_ = str((crate.impl_of(b_) or {}).get("self_ty") or "")
        k_ = ty_.find("<")
        if k_ > 0 and ty_.endswith(">"):
            parts_ = [x.strip() for x in ty_[k_ + 1:-1].split(",")]
            if len(parts_) == 2 and all(_re_ident(x) for x in parts_) and parts_[0] != parts_[1]:
                return parts_
        return gen

    gen0 = gen
    for m in sorted(k for k in impl if k != "__impl__"):
        b = impl[m]
        gen = _impl_gen(b) if gen0 else gen0
        I = A(b)
        for st in I.final_states:
            evs = [e for e in st.event_list() if e.kind == "call" and e.extra.get("name") == m and (e.extra.get("trait") or "").endswith("SegtreeItem")]
            ok = len(evs) == 2
            detail = ""
            if ok:
                for comp, e in enumerate(evs):
                    sty = e.fn.get("self_ty") or (e.fn.get("args") or ["?"])[0]
                    if sty != gen[comp]:
                        ok = False
                        detail = "component %d is forwarded to %s" % (comp, sty)
                    for j, a in enumerate(e.args):
                        pj = ("param", j + 1, I.names.get(j + 1))
                        pty = b.locals[j + 1]["ty"]
                        if "Combinator<" in pty:
                            want = ("ref", ("field", ("deref", pj), comp))
                        else:
                            want = pj
                        if a != want and not (want == pj and a == ("ref", ("deref", pj))):
                            ok = False
                            detail = "argument %d of the component-%d call is %s" % (j, comp, tstr(a))
                if m == "merge" and ok:
                    ret = util.ret_term(st)
                    ok = ret[0] == "agg" and ret[2] == (evs[0].res, evs[1].res)
                    if not ok:
                        detail = "result fields are %s" % tstr(ret)
            else:
                detail = "%d component calls" % len(evs)
            key = "%s|component-wise" % fk(b)
            if ok:
                col.ok("R8" + sfx, b.loc(), key + "|0", "component 0: U::%s on the .0 projections" % m)
                col.ok("R8" + sfx, b.loc(), key + "|1", "component 1: V::%s on the .1 projections" % m)
            else:
                col.violation("R8" + sfx, key, b.loc(), "Combinator::%s does not forward component-wise (.0 to U with .0 operands, .1 to V with .1 operands): %s" % (m, detail))
    inherited = [x for x in ("merge", "update", "modify", "push") if x not in impl]
    col.ok("R8" + sfx, "-", "Combinator|inherited=%s" % ",".join(inherited), "inherited defaults: %s" % inherited, nontrivial=False)
    gen = gen0
    fi = _impl_bodies(crate, "Combinator", "From")
    if "from" in fi:
        b = fi["from"]
        gen = _impl_gen(b)
        I = A(b)
        for st in I.final_states:
            evs = [e for e in st.event_list() if e.kind == "call" and e.extra.get("name") == "from"]
            ret = util.ret_term(st)
            v = ("param", 1, I.names.get(1))
            ok = len(evs) == 2 and all(e.args == (v,) for e in evs) and ret[0] == "agg" and ret[2] == (evs[0].res, evs[1].res)
            ok = ok and [(e.fn.get("self_ty") or (e.fn.get("args") or ["?"])[0]) for e in evs] == gen
            key = "%s|both-from-v" % fk(b)
            if ok:
                col.ok("R8" + sfx, b.loc(), key, "Combinator(U::from(v), V::from(v))")
            else:
                col.violation("R8" + sfx, key, b.loc(), "Combinator::from must build (U::from(v), V::from(v))")


def _re_ident(x):
    import re as _re
    return bool(_re.fullmatch(r"[A-Za-z_][A-Za-z0-9_]*", x))


def _check_update(col, sfx, nm, b, fields):
    """an overriding SegtreeItem::update(&mut self, left, right) must leave self equal to merge(left, right):
    either it stores that call's result into *self, or it rewrites every field from both children and resets
    the pending modifier (the default is `*self = Self::merge(left, right)`, which does)"""
    fk = util.fkey
    I = util.analyse(b)
    selfp = ("deref", ("param", 1, I.names.get(1)))
    lp, rp = ("param", 2, I.names.get(2)), ("param", 3, I.names.get(3))

    def under(t, p):
        return any(s[0] == "load" and any(x == ("deref", p) for x in subterms(s[2])) for s in subterms(t))

    for n, st in enumerate(I.final_states):
        evs = st.event_list()
        whole = [e for e in evs if e.kind == "store" and e.place == selfp]
        key = "%s|equals-merge" % fk(b)
        if whole and whole[-1].val[0] == "call" and str(whole[-1].val[1]).endswith("::merge") and tuple(whole[-1].val[2][:2]) == (lp, rp):
            col.ok("R7" + sfx, b.loc(), key + "|%d" % n, "*self = merge(left, right)")
            continue
        last = {}
        for e in evs:
            if e.kind == "store" and e.place[0] == "field" and e.place[1] == selfp:
                last[e.place[2]] = e.val
            if e.kind == "call" and e.extra.get("name", "").endswith("_assign") and e.args and e.args[0][0] == "ref" and e.args[0][1][0] == "field" and e.args[0][1][1] == selfp:
                last[e.args[0][1][2]] = ("stale",)
        bad = []
        facts = tuple(st.facts)
        for i, f in enumerate(fields):
            v = last.get(i)
            if v is None:
                bad.append("%s is left as it was" % f)
            elif f == "md":
                if not _is_default(v):
                    bad.append("md is not reset to default()")
            elif not ((under(v, lp) or any(under(x, lp) for x in facts)) and (under(v, rp) or any(under(x, rp) for x in facts))) or v == ("stale",):
                bad.append("%s is not recomputed from both children" % f)
        if bad:
            col.violation("R7" + sfx, key, b.loc(), "%s overrides SegtreeItem::update but does not leave self equal to merge(left, right): %s (the tree relies on update to overwrite the node, pending modifier included)" % (nm, "; ".join(bad)))
        else:
            col.ok("R7" + sfx, b.loc(), key + "|%d" % n, "update rewrites every field from both children and resets md")


def _strip_clone(t):
    while isinstance(t, tuple) and t and t[0] == "call" and str(t[1]).endswith("Clone::clone") and t[2] and isinstance(t[2][0], tuple) and t[2][0][0] == "ref":
        inner = t[2][0][1]
        t = inner[1] if inner[0] == "constval" else ("load", ("m0",), inner) if inner[0] in ("field",) else t
        if inner[0] not in ("constval", "field"):
            break
    return t


_EXTREME = {}
for _w in (8, 16, 32, 64, 128):
    _EXTREME["i%d" % _w] = (-(1 << (_w - 1)), (1 << (_w - 1)) - 1)
    _EXTREME["u%d" % _w] = (0, (1 << _w) - 1)
_EXTREME["isize"], _EXTREME["usize"] = _EXTREME["i64"], _EXTREME["u64"]
# floats as bit patterns: the most negative / positive finite value, or the infinities
_EXTREME_F = {"f32": ({0xFF7FFFFF, 0xFF800000}, {0x7F7FFFFF, 0x7F800000}), "f64": ({0xFFEFFFFFFFFFFFFF, 0xFFF0000000000000}, {0x7FEFFFFFFFFFFFFF, 0x7FF0000000000000})}


def _rule_minmax(col, nt, rid):
    imps = {i["key"]: i for i in nt.impls}
    n = 0
    for k in nt.consts:
        imp = imps.get(k.get("parent"))
        if imp is None or k["name"] not in ("MIN", "MAX") or not str(imp.get("trait") or "").endswith("MinMax"):
            continue
        ty = imp["self_ty"]
        if ty not in _EXTREME and ty not in _EXTREME_F:
            continue
        n += 1
        try:
            val = int(k.get("val"))
        except (TypeError, ValueError):
            val = None
        i = 0 if k["name"] == "MIN" else 1
        good = (val == _EXTREME[ty][i]) if ty in _EXTREME else (val in _EXTREME_F[ty][i])
        key = "<%s as MinMax>::%s" % (ty, k["name"])
        loc = "%s:%d" % (k["span"]["file"], k["span"]["line"])
        if good:
            col.ok(rid, loc, key, "the type's extreme value", nontrivial=False)
        else:
            col.violation(rid, key, loc, "%s evaluates to %s, which is not the %s value of %s: Default of Min/Max items built on it is not the identity of merge (a search over values beyond it starts from a wrong carry)" % (key, k.get("val"), "smallest" if i == 0 else "largest", ty))
    if n < 28:
        col.violation(rid, "num_traits|minmax-coverage", "rlib/num_traits/src/lib.rs", "expected MinMax::MIN and MAX for the 12 primitive integer types and the two float types, found %d constants" % n)


def _is_default(t):
    return isinstance(t, tuple) and t and t[0] == "call" and str(t[1]).endswith("Default::default") and (not t[2] or all(isinstance(a, tuple) and a and a[0] == "mem" for a in t[2]))


def _resolve_ctor(crate, nm, ret, st):
    """fields of the value returned by merge: an aggregate, or X::new(v) looked up in X::new"""
    if ret[0] == "agg" and isinstance(ret[1], tuple) and ret[1][0] == "adt":
        return list(ret[2])
    import re as _re
    if ret[0] == "call" and _re.search(r"%s::<\w+>::new$" % _re.escape(nm), str(ret[1])):   # (the type parameter may be called anything)
        nb = crate.body("%s::<T>::new" % nm)
        if nb is None:
            return None
        I = util.analyse(nb)
        for s in I.final_states:
            r = util.ret_term(s)
            if r[0] == "agg":
                out = list(r[2])
                # substitute the parameter
                p = ("param", 1, I.names.get(1))
                arg = ret[2][0]
                return [arg if x == p else x for x in out]
    return None
