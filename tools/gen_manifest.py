#!/usr/bin/env python3
"""Regenerate /verif/MANIFEST.json from the armed rule packs (rlint/rules/cXX.py with ARMED=True)
and the not-applicable table below.  Run after arming or disarming a pack."""
import importlib
import json
import os
import sys

VERIF = os.path.dirname(os.path.dirname(os.path.abspath(__file__)))
sys.path.insert(0, VERIF)

NOT_APPLICABLE = {
    "C13": "content of three arithmetic tables for every limit N: nothing in the shape of Sieve::new is a necessary condition a realistic change would break (such changes alter table values, not structure); static analysis in this family cannot decide it (DESIGN.md §6)",
}
NOT_ARMED_REASON = "rule pack not armed yet in this commit (build in progress, DESIGN.md §9); nothing is claimed"


def main():
    props = [json.loads(l) for l in open(os.path.join(VERIF, "properties.jsonl"))]
    checks = []
    na = []
    engines = {}
    for p in props:
        pid = p["id"]
        modname = "rlint.rules.%s" % pid.lower()
        pack = None
        if os.path.exists(os.path.join(VERIF, "rlint", "rules", pid.lower() + ".py")):
            pack = importlib.import_module(modname)
        if pid in NOT_APPLICABLE:
            na.append({"property_id": pid, "reason": NOT_APPLICABLE[pid]})
            continue
        if pack is None or not getattr(pack, "ARMED", False):
            na.append({"property_id": pid, "reason": NOT_ARMED_REASON})
            continue
        checks.append(
            {
                "property_id": pid,
                "quick_cmd": "bin/vcheck %s --tier quick" % pid,
                "thorough_cmd": "bin/vcheck %s --tier thorough" % pid,
                "evidence_file": "/verif/evidence/%s.json" % pid,
                "replay_cmd_template": "bin/vcheck %s --replay {path}" % pid,
                "engine": "rlint",
                "level_claimed": {"category": pack.LEVEL, "text": pack.LEVEL_TEXT, "design_ref": "DESIGN.md §4 %s" % pid},
                "level_note": pack.LEVEL_NOTE,
                "technique": pack.TECHNIQUE,
            }
        )
        for e in getattr(pack, "ENGINES", []):
            engines.setdefault(e, []).append(pid)
    m = {
        "version": 1,
        "setup_cmd": "cd /verif/tools/mirdump && CARGO_NET_OFFLINE=true cargo build --offline",
        "hooks": {
            "guard": "rlib_verif",
            "enable": "none needed: the analysis reads /repo's sources as the real build sees them (rustc MIR via tools/mirdump); no instrumentation exists",
            "baseline_off_cmd": "cd /repo && cargo test --workspace --no-fail-fast --offline",
            "source_commits": [],
            "add_only": True,
        },
        "engines": [
            {"name": "mirdump", "path": "tools/mirdump", "serves_properties": [c["property_id"] for c in checks], "kind_free_text": "rustc_private driver exporting MIR/HIR facts of /repo's current tree as JSON (E0)"},
            {"name": "rlint", "path": "rlint", "serves_properties": [c["property_id"] for c in checks], "kind_free_text": "Python static-analysis engines: CFG/dominators, term-flow abstract interpretation with trace partitioning, difference-bound entailment, call graph/effects, typestate, x87 stack machine, constant tables, compile-pass/compile-fail witnesses; rule packs per property under rlint/rules"},
        ],
        "checks": checks,
        "notes": "static analysis only: every check re-exports /repo's working tree with a fresh cargo target dir and decides from MIR; no test is run, no input sampled, no solver called. The only /repo commits are `fix:` repairs recorded in known-findings.txt.",
        "not_applicable": na,
    }
    with open(os.path.join(VERIF, "MANIFEST.json"), "w") as fh:
        json.dump(m, fh, indent=1)
    print("MANIFEST: %d checks, %d not applicable/not armed" % (len(checks), len(na)))


if __name__ == "__main__":
    main()
