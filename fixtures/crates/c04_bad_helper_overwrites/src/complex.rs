use std::ops::{Add, AddAssign, Div, DivAssign, Mul, MulAssign, Neg, Sub, SubAssign};

use rlib_num_traits::{Float, ZeroOne};

#[derive(Copy, Clone, Default, Debug, PartialEq)]
pub struct Complex<F: Float> {
    pub x: F,
    pub y: F,
}

impl<F: Float> Complex<F> {
    pub const I: Self = Complex::new(F::ZERO, F::ONE);

    pub const fn new(x: F, y: F) -> Self {
        Self { x, y }
    }

    pub const fn new_real(x: F) -> Self {
        Self { x, y: F::ZERO }
    }

    pub fn abs2(&self) -> F {
        self.x * self.x + self.y * self.y
    }

    pub fn abs(&self) -> F {
        self.abs2().sqrt()
    }

    pub fn conj(&self) -> Self {
        Self::new(self.x, -self.y)
    }
}

impl<F: Float> Add for Complex<F> {
    type Output = Self;
    fn add(self, rhs: Self) -> Self {
        Self::new(self.x + rhs.x, self.y + rhs.y)
    }
}
impl<F: Float> AddAssign for Complex<F> {
    fn add_assign(&mut self, rhs: Self) {
        self.x += rhs.x;
        self.y += rhs.y;
    }
}

impl<F: Float> Sub for Complex<F> {
    type Output = Self;
    fn sub(self, rhs: Self) -> Self {
        Self::new(self.x - rhs.x, self.y - rhs.y)
    }
}
impl<F: Float> SubAssign for Complex<F> {
    fn sub_assign(&mut self, rhs: Self) {
        self.x -= rhs.x;
        self.y -= rhs.y;
    }
}

impl<F: Float> Mul<F> for Complex<F> {
    type Output = Self;
    fn mul(self, rhs: F) -> Self {
        Self::new(self.x * rhs, self.y * rhs)
    }
}
impl<F: Float> MulAssign<F> for Complex<F> {
    fn mul_assign(&mut self, rhs: F) {
        self.x *= rhs;
        self.y *= rhs;
    }
}

impl<F: Float> Mul for Complex<F> {
    type Output = Self;
    fn mul(self, rhs: Self) -> Self {
        Self::new(self.x * rhs.x - self.y * rhs.y, self.x * rhs.y + self.y * rhs.x)
    }
}
impl<F: Float> MulAssign for Complex<F> {
    fn mul_assign(&mut self, rhs: Self) {
        let x = self.x * rhs.x - self.y * rhs.y;
        let y = self.x * rhs.y + self.y * rhs.x;
        self.x = x;
        self.y = y;
    }
}

impl<F: Float> Div<F> for Complex<F> {
    type Output = Self;
    fn div(self, rhs: F) -> Self {
        Self::new(self.x / rhs, self.y / rhs)
    }
}
impl<F: Float> DivAssign<F> for Complex<F> {
    fn div_assign(&mut self, rhs: F) {
        self.x /= rhs;
        self.y /= rhs;
    }
}

impl<F: Float> Div for Complex<F> {
    type Output = Self;
    fn div(self, rhs: Self) -> Self {
        self * rhs.conj() / rhs.abs2()
    }
}
impl<F: Float> DivAssign for Complex<F> {
    fn div_assign(&mut self, rhs: Self) {
        let res = *self / rhs;
        self.x = res.x;
        self.y = res.y;
    }
}

impl<F: Float> Neg for Complex<F> {
    type Output = Self;
    fn neg(self) -> Self {
        Self { x: -self.x, y: -self.y }
    }
}

impl<F: Float> ZeroOne for Complex<F> {
    const ZERO: Self = Self::new_real(F::ZERO);
    const ONE: Self = Self::new_real(F::ONE);
}
