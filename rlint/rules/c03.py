"""C03 — treap as a sequence: push/update discipline on every restructuring path, positional-split
arithmetic, assembly of results, in-order traversal, compositions.  See DESIGN.md §4 C03."""
from .. import util, zones
from ..absint import tstr, mk_int, subterms, strip_mem
from ..core import Anchor

PID = "C03"
LEVEL = "other"
CRATES = ["rlib_treap"]
RELEASE = True
ARMED = True
ENGINES = ["E1", "E3", "E4a"]
TECHNIQUE = "path-sensitive term-flow abstract interpretation of the treap MIR: event-order rules (push before relink, update after), term equality of recursion arguments and result assembly, difference-bound entailment for the positional split"
LEVEL_TEXT = (
    "Structural necessary conditions decided on every path of merge/split_by/split_at/first/last/collect_into and the Treap "
    "wrappers in both profiles: lazy modifications are pushed before a node's children are detached or descended into, aggregates "
    "are recomputed after relinking, the positional split compares with and subtracts the same left-subtree size without underflow, "
    "results are assembled in sequence order, traversal is in-order, insert/remove are the stated compositions, a walk that tests a "
    "child link before pushing the node does so only while the node-level push stores no child link. Agreement with a "
    "vector over all histories (the value identity) is not decided."
)
LEVEL_NOTE = "trusted: rustc MIR, exporter, std axioms (Option take/as_mut/unwrap/map, Box deref), ownership axiom for disjoint child fields; user TreapItem impls assumed lawful and free of interior mutability"
EXPLANATION = (
    "T1 push-before-relink and T2 update-after-relink are event-order rules over each path's call/store events keyed by the node "
    "place; T3 checks the reading walks (first/last push before moving to the child; collect_into is push, left, item, right); T4 "
    "derives L from the recursion argument (arg = pos - L - 1), requires the right-going path's facts to entail pos > L (no "
    "underflow) and the left-going path's facts to entail pos <= L for the same term L, which must be the size of the left child, "
    "and checks the assembly of both branches (also for split_by); T5 checks merge argument order; T6 the compositions of the public "
    "operations. NOT decided: agreement with a vector over all histories."
)
UNDECIDED = ["agreement with a vector over all operation histories (value identity)", "aggregate == fold of the subsequence for arbitrary items (depends on the user's TreapItem::update)"]
ASSUMPTIONS = ["TreapItem/TreapItemSized implementations are lawful and have no interior mutability", "no usize overflow (checked in dev profile)"]
FIXTURES = [
    ("c03_bad_split_no_push", "bad", ["T1"]),
    ("c03_bad_merge_no_update", "bad", ["T2"]),
    ("c03_bad_split_ge", "bad", ["T4"]),
    ("c03_bad_merge_order", "bad", ["T5"]),
    ("c03_bad_insert_order", "bad", ["T6"]),
    ("c03_good_match_form", "good", []),
    ("c03_bad_push_skips_leaf", "bad", ["T7"]),
]


class Roles:
    pass


def roles(crate):
    R = Roles()
    adt = util.need_adt(crate, "TreapNode")
    fs = util.fields_of(adt)
    names = [f["name"] for f in fs]
    for n in ("item", "priority", "left", "right"):
        if n not in names:
            raise Anchor("TreapNode has no field `%s` (public field names are API anchors)" % n)
    R.ITEM, R.PRIO, R.LEFT, R.RIGHT = (names.index(n) for n in ("item", "priority", "left", "right"))
    R.crate = crate
    R.wrappers = {}
    R.wrapper_pairs = []
    R.pub = {nm: util.need_body(crate, "TreapNode::<T>::%s" % nm) for nm in ("merge", "split_by", "split_at")}
    R.work = {nm: _worker(crate, R, R.pub[nm]) for nm in ("merge", "split_by", "split_at")}
    R.merge, R.split_by, R.split_at = R.work["merge"], R.work["split_by"], R.work["split_at"]
    # parameter / result shape of the split workers: which parameter is the tree, which the position or predicate, and
    # which component of the result is the FIRST part (read off the public entry, whose contract is (left, right))
    R.shape = {}
    for nm_ in ("split_by", "split_at"):
        R.shape[R.work[nm_].key] = _split_shape(R.work[nm_])
    # one private recursive skeleton shared by both splits, each handing it its own decision closure
    R.shared_split = R.split_by.key == R.split_at.key and R.pub["split_by"].key != R.split_by.key
    R.push = util.need_body(crate, "TreapNode::<T>::push")
    R.update = util.need_body(crate, "TreapNode::<T>::update")
    R.collect_into = util.need_body(crate, "TreapNode::<T>::collect_into")
    R.new = util.need_body(crate, "TreapNode::<T>::new")
    role_fns = [R.merge, R.split_by, R.split_at, R.push, R.update, R.collect_into, R.new] + [w_ for _k, w_ in R.wrapper_pairs]
    R.helpers = util.private_helpers(crate, "TreapNode", exclude=role_fns) + util.private_helpers(crate, "Treap", exclude=role_fns) + util.private_type_helpers(crate, exclude=role_fns)
    # closures handed to private helpers (`node.replace_right(|mid| Self::merge(mid, r))`) are applied where called
    R.A = util.analyser(R.helpers, features=("fncall",))
    # for the Treap-level compositions, public convenience constructors of the node (new_boxed, ...) are inlined too
    rk = {x.key for x in role_fns if x is not None}
    pubh = [m for m in util.methods_of(crate, "TreapNode") + util.methods_of(crate, "Treap") if m.key not in rk and not util.self_recursive(m) and m not in R.helpers and m.name not in ("first", "last", "collect")]
    R.A2 = util.analyser(R.helpers + pubh)
    # which component of a split worker's own result type is the first part: what the public entry returns first
    for worker, w in R.wrapper_pairs:
        sh = R.shape.get(worker.key)
        if sh is None:
            continue
        Iw = R.A(w)
        for st in Iw.final_states:
            calls = [e for e in st.event_list() if is_call_to(e, worker)]
            ret = util.ret_term(st)
            if len(calls) == 1 and ret[0] == "agg" and ret[1] == "tuple" and len(ret[2]) == 2:
                ks = [p_[1] for p_ in ret[2] if p_[0] == "proj" and p_[2] == calls[0].res and isinstance(p_[1], int)]
                if len(ks) == 2 and ks[0] != ks[1]:
                    sh["k0"], sh["k1"] = ks
    return R


def _is_link(ty):
    ty = str(ty)
    return "Option<" in ty and "Box<" in ty


def _split_shape(w):
    """{'root': i, 'other': j, 'k0': a, 'k1': b} for a split worker: argument indices of the tree and of the position /
    predicate, and the indices of the first / second part in its result (refined from the public entry by the
    forwards-to-worker rule; (0, 1) for a pair)"""
    links = [i for i in range(w.arg_count) if _is_link(w.locals[i + 1]["ty"])]
    others = [i for i in range(w.arg_count) if i not in links]
    if len(links) != 1 or len(others) != 1:
        return {"root": 0, "other": 1, "k0": 0, "k1": 1}
    return {"root": links[0], "other": others[0], "k0": 0, "k1": 1}


def _worker(crate, R, b):
    """the public function itself when it is self-recursive; otherwise the private self-recursive worker it
    forwards to (`pub fn split_by(root, mut pred) { Self::split_by_ref(root, &mut pred) }`)"""
    if util.self_recursive(b):
        return b
    # recursion through private one-level helpers (merge -> merge_into_right_spine -> merge): with the helpers
    # inlined the function calls itself directly, it is its own worker
    for bb, t in b.calls():
        tgt = crate.by_key.get(util.callee_key(t))
        if tgt is not None and not tgt.is_closure and tgt.vis != "pub" and not util.self_recursive(tgt) and any(util.callee_key(t2) == b.key for _bb2, t2 in tgt.calls()):
            return b
    # recursion through a closure handed to a private helper (`node.replace_right(|mid| Self::merge(mid, r))`):
    # with the helper inlined and the closure applied the function calls itself directly
    for cb in crate.closures_of(b):
        if any(util.callee_key(t2) == b.key for _bb2, t2 in cb.calls()):
            return b
    cands = []
    for bb, t in b.calls():
        tgt = crate.by_key.get(util.callee_key(t))
        if tgt is not None and not tgt.is_closure and tgt.vis != "pub" and util.self_recursive(tgt):
            cands.append(tgt)
    if len(cands) != 1:
        raise Anchor("%s is neither self-recursive nor a wrapper of exactly one private recursive worker" % b.path)
    R.wrappers[cands[0].key] = b
    R.wrapper_pairs.append((cands[0], b))
    return cands[0]


def is_call_to(ev, body):
    return ev.kind == "call" and (ev.fn.get("resolved") or ev.fn).get("def") == body.key


def child_field_of(pl, R):
    """pl == X.left / X.right -> (X, field idx) else None"""
    if pl[0] == "field" and pl[2] in (R.LEFT, R.RIGHT):
        return pl[1], pl[2]
    return None


def node_touches(evs, R):
    """per node place X: indices of events that detach/reassign/descend into X's children"""
    touch = {}
    for i, ev in enumerate(evs):
        if ev.kind == "store":
            cf = child_field_of(ev.place, R)
            if cf:
                touch.setdefault(cf[0], []).append((i, "store", cf[1], ev))
        elif ev.kind == "call" and ev.extra.get("name") in ("take", "as_mut", "replace"):
            a = ev.args[0]
            if a[0] == "ref":
                cf = child_field_of(a[1], R)
                if cf:
                    touch.setdefault(cf[0], []).append((i, ev.extra["name"], cf[1], ev))
    return touch


def check(col, prog, tier, profile, fixture=None):
    crate = prog.crate(fixture or "rlib_treap")
    R = roles(crate)
    sfx = "" if profile == "dev" else "@" + profile
    fk = util.fkey
    col.rule("T1" + sfx, "push(X) precedes detaching/reassigning/descending into X's children (merge, split_by, split_at)", floor=6)
    col.rule("T2" + sfx, "update(X) follows the last reassignment of a child of X before X is returned", floor=6)
    col.rule("T3" + sfx, "first/last push before moving to the child; collect_into = push, left, item, right", floor=6)
    col.rule("T4" + sfx, "positional split: same L compared and subtracted, no underflow, assembly in order", floor=6)
    col.rule("T5" + sfx, "merge keeps sequence order in both winner branches", floor=2)
    col.rule("T6" + sfx, "insert_at/remove_at/merge/split wrappers are the stated compositions", floor=5)

    # ---------------- T1 / T2 on the three restructuring functions
    for nm_, b in (("merge", R.merge), ("split_by", R.split_by), ("split_at", R.split_at)):
        I = R.A(b)
        nbranch = 0
        # a skeleton shared by both splits is judged once per public entry, under that entry's name
        kb_ = fk(R.pub[nm_]) if (R.shared_split and nm_ != "merge") else fk(b)
        for n, st in enumerate(I.final_states):
            evs = st.event_list()
            touch = node_touches(evs, R)
            for X, lst in touch.items():
                stores = [t for t in lst if t[1] == "store"]
                if not stores:
                    continue
                nbranch += 1
                first = min(t[0] for t in lst)
                last_store = max(t[0] for t in stores)
                pushes = [i for i, ev in enumerate(evs) if is_call_to(ev, R.push) and ev.args[0] == ("ref", X)]
                updates = [i for i, ev in enumerate(evs) if is_call_to(ev, R.update) and ev.args[0] == ("ref", X)]
                which = "left" if stores[-1][2] == R.LEFT else "right"
                key = "%s|relink-%s" % (kb_, which)
                loc = b.loc(stores[-1][3].bb, stores[-1][3].idx)
                if pushes and min(pushes) < first:
                    col.ok("T1" + sfx, loc, key, "push at event %d precedes first touch at %d" % (min(pushes), first))
                else:
                    col.violation("T1" + sfx, key, loc, "%s detaches/reassigns the %s child of a node without pushing the node's pending modification first: the modification is lost or applied to the wrong elements" % (b.path, which), {"events": [repr(e) for e in evs if e.kind != "assert"]})
                if updates and max(updates) > last_store:
                    col.ok("T2" + sfx, loc, key, "update at event %d follows last child store at %d" % (max(updates), last_store))
                else:
                    col.violation("T2" + sfx, key, loc, "%s reassigns the %s child of a node and returns it without recomputing the node's aggregate (update) afterwards" % (b.path, which), {"events": [repr(e) for e in evs if e.kind != "assert"]})
        if nbranch < 2:
            col.violation("T1" + sfx, "%s|relink-branches" % kb_, b.loc(), "expected two relinking branches in %s, found %d" % (b.path, nbranch))

    # ---------------- T8 (with T3): can the node-level push rewire the node's own child links?
    # (a lazy reversal resolved in push swaps them: then a link tested BEFORE the push - `while node.left.is_some()
    # { node.push(); .. }` - is the link of the unreversed shape)
    push_rewires = None
    Ip_ = R.A(R.push)
    selfp_ = ("deref", ("param", 1, Ip_.names.get(1)))
    for st in Ip_.all_end_states():
        for e in st.event_list():
            if e.kind == "store":
                cf = child_field_of(strip_mem(e.place), R)
                if cf and strip_mem(cf[0]) == selfp_:
                    push_rewires = push_rewires or e
            elif e.kind == "call" and e.extra.get("name") in ("swap", "replace", "take", "insert", "get_or_insert_with"):
                for a in e.args:
                    a = strip_mem(a)
                    if isinstance(a, tuple) and a and a[0] == "ref":
                        cf = child_field_of(a[1], R)
                        if cf and strip_mem(cf[0]) == selfp_:
                            push_rewires = push_rewires or e
    col.rule("T8" + sfx, "a walk that tests a child link before pushing the node relies on push leaving the links alone: TreapNode::push stores no child link of its node", floor=2)

    # ---------------- T3 reading walks
    for nm, fld in (("first", R.LEFT), ("last", R.RIGHT)):
        b = util.need_body(crate, "Treap::<T>::%s" % nm)
        # a walk shared by first/last through a private helper taking the child selector as a closure
        I = util.analyser(R.helpers, features=("fncall", "comb"))(b)
        backs = [s for l in I.backedge_states.values() for s in l] + list(I.inl_back)
        if not backs:
            col.violation("T3" + sfx, "%s|loop" % fk(b), b.loc(), "%s: no descent loop found" % b.path)
        for st in backs:
            evs = st.event_list()
            li = max(i for i, e in enumerate(evs) if e.kind == "loop")
            # the node variable after the iteration: a reference into the child field of X
            moved = None
            for l, v in st.env.items():
                if isinstance(v, tuple) and v and v[0] == "ref":
                    pl = v[1]
                    # &((X.fld as Some).0)
                    if pl[0] == "field" and pl[1][0] == "down" and child_field_of(pl[1][1], R):
                        X, f = child_field_of(pl[1][1], R)
                        if any(s[0] == "phi" for s in subterms(X)):
                            moved = (X, f)
                    # &*(X.fld.as_deref_mut() as Some).0 : the same move spelled with the dereferencing accessor
                    for c_ in subterms(pl):
                        if c_[0] == "call" and str(c_[1]).rsplit("::", 1)[-1] in ("as_deref_mut", "as_mut") and c_[2] and c_[2][0][0] == "ref" and child_field_of(c_[2][0][1], R):
                            X, f = child_field_of(c_[2][0][1], R)
                            if any(s[0] == "phi" for s in subterms(X)):
                                moved = (X, f)
            key = "%s|descent" % fk(b)
            if moved is None:
                col.violation("T3" + sfx, key, b.loc(), "%s: cannot identify the move to a child in the descent loop" % b.path)
                continue
            X, f = moved
            SX = strip_mem(X)
            pushes = [i for i, e in enumerate(evs) if i > li and is_call_to(e, R.push) and strip_mem(e.args[0]) == ("ref", SX)]
            moves = [i for i, e in enumerate(evs) if i > li and e.kind == "call" and e.extra.get("name") in ("as_mut", "as_deref_mut") and strip_mem(e.args[0]) == ("ref", ("field", SX, f))]
            ok = f == fld and pushes and moves and min(pushes) < min(moves)
            # T8: links of X read before push(X)
            early = [i for i, e in enumerate(evs) if i > li and e.kind == "call" and e.args and (not pushes or i < min(pushes)) and isinstance(strip_mem(e.args[0]), tuple)
                     and strip_mem(e.args[0])[0] == "ref" and child_field_of(strip_mem(e.args[0])[1], R) and strip_mem(child_field_of(strip_mem(e.args[0])[1], R)[0]) == SX]
            k8 = "%s|link-tested-before-push" % fk(b)
            if early and push_rewires is not None:
                col.violation("T8" + sfx, k8, b.loc(evs[early[0]].bb), "%s tests a child link of the node before pushing it, and %s can rewire the links (%s at %s): the walk follows the shape from before the pending change, so the element it returns is not the %s one" % (b.path, R.push.path, push_rewires.extra.get("name") if push_rewires.kind == "call" else "store", R.push.loc(push_rewires.bb), nm))
            else:
                col.ok("T8" + sfx, b.loc(), k8, "push stores no child link" if push_rewires is None else "no link is read before the push", nontrivial=False)
            if ok:
                col.ok("T3" + sfx, b.loc(evs[pushes[0]].bb), key, "node.push() precedes the move to node.%s" % ("left" if f == R.LEFT else "right"))
            else:
                col.violation("T3" + sfx, key, b.loc(), "%s walks to the %s child without pushing the node first (or walks to the wrong child): a pending modification is not visible in the returned element" % (b.path, "left" if f == R.LEFT else "right"))
        # the returned element is the item of the last node
        for st in I.final_states:
            r = util.ret_term(st)
            if r[0] == "agg" and r[1][0] == "adt" and r[1][3] == "Some":
                v = r[2][0]
                ok = v[0] == "ref" and v[1][0] == "field" and v[1][2] == R.ITEM
                if ok:
                    col.ok("T3" + sfx, b.loc(), "%s|returns-item" % fk(b), tstr(v))
                else:
                    col.violation("T3" + sfx, "%s|returns-item" % fk(b), b.loc(), "%s does not return a reference to the reached node's item: %s" % (b.path, tstr(v)))
    b = R.collect_into
    I = R.A(b)
    selfpl = ("deref", ("param", 1, I.names.get(1)))
    npaths = 0
    for st in I.final_states:
        evs = [e for e in st.event_list() if e.kind == "call"]
        seq = []
        for e in evs:
            if is_call_to(e, R.push) and e.args[0] == ("ref", selfpl):
                seq.append("push")
            elif is_call_to(e, b):
                a = e.args[0]
                side = None
                if a[0] == "ref":
                    for s in subterms(a):
                        if s[0] == "field" and s[1] == selfpl and s[2] in (R.LEFT, R.RIGHT):
                            side = "L" if s[2] == R.LEFT else "R"
                seq.append(side or "?")
            elif e.extra.get("name") == "push" and e.callee.startswith("std::vec::Vec"):
                v = e.args[1]
                seq.append("item" if v == ("ref", ("field", selfpl, R.ITEM)) else "other")
        npaths += 1
        want_ok = seq and seq[0] == "push" and [x for x in seq if x in ("L", "item", "R", "?", "other")] in (["L", "item", "R"], ["L", "item"], ["item", "R"], ["item"])
        key = "%s|order|%s" % (fk(b), "-".join(seq))
        if want_ok:
            col.ok("T3" + sfx, b.loc(), key, "in-order: %s" % " ".join(seq))
        else:
            col.violation("T3" + sfx, "%s|order" % fk(b), b.loc(), "collect_into visits %s; expected push, then left subtree, item, right subtree" % " ".join(seq))

    # ---------------- T4 positional split + assembly (split_at and split_by)
    _split_rules(col, R, sfx)

    # ---------------- T5 merge order
    b = R.merge
    I = R.A(b)
    L, Rt = ("param", 1, I.names.get(1)), ("param", 2, I.names.get(2))
    seen = set()
    for st in I.final_states:
        evs = st.event_list()
        rec = [e for e in evs if is_call_to(e, b)]
        if not rec:
            # trivial branches: one side empty -> the other is returned unchanged
            ret = util.ret_term(st)
            if ret == Rt and _known_none(st.facts, L):
                col.ok("T5" + sfx, b.loc(), "%s|left-empty" % fk(b), "returns right")
            elif ret == L:
                col.ok("T5" + sfx, b.loc(), "%s|right-empty" % fk(b), "returns left")
            else:
                col.violation("T5" + sfx, "%s|empty-side" % fk(b), b.loc(), "merge with an empty side must return the other side unchanged, returns %s" % tstr(ret))
            continue
        e = rec[0]
        ret = util.ret_term(st)
        stores = [x for x in evs if x.kind == "store" and child_field_of(x.place, R) and x.val == e.res]
        ok = False
        desc = "?"
        if ret == L and stores:
            X, f = child_field_of(stores[0].place, R)
            # left wins: left.right = merge(old left.right, right)
            a0 = e.args[0]
            ok = f == R.RIGHT and e.args[1] == Rt and a0[0] == "load" and a0[2] == ("field", X, R.RIGHT)
            desc = "left root: left.right = merge(left.right, right)"
            seen.add("L")
        elif ret == Rt and stores:
            X, f = child_field_of(stores[0].place, R)
            a1 = e.args[1]
            ok = f == R.LEFT and e.args[0] == L and a1[0] == "load" and a1[2] == ("field", X, R.LEFT)
            desc = "right root: right.left = merge(left, right.left)"
            seen.add("R")
        key = "%s|winner-%s" % (fk(b), "left" if ret == L else "right" if ret == Rt else "unknown")
        if ok:
            col.ok("T5" + sfx, b.loc(e.bb), key, desc)
        else:
            col.violation("T5" + sfx, key, b.loc(e.bb), "merge does not keep sequence order: recursive call merge(%s, %s) stored to %s, returning %s" % (tstr(e.args[0]), tstr(e.args[1]), tstr(stores[0].place) if stores else "nothing", tstr(ret)))

    # ---------------- T7 the node-level push/update hand the item BOTH children on every path
    col.rule("T7" + sfx, "TreapNode::push / update call the item's push / update with (left child's item, right child's item) on every path", floor=2)
    for nb, meth in ((R.push, "push"), (R.update, "update")):
        I = R.A(nb)
        selfp = ("deref", ("param", 1, I.names.get(1)))
        ok = bool(I.final_states)
        why = "no returning path"
        for st in I.final_states:
            calls = [e for e in st.event_list() if e.kind == "call" and e.extra.get("name") == meth and "TreapItem" in (e.extra.get("trait") or "")]
            if len(calls) != 1:
                ok, why = False, "a path makes %d calls of TreapItem::%s (a node without children must still let its item %s)" % (len(calls), meth, "clear its pending modification" if meth == "push" else "recompute its aggregate")
                continue
            e = calls[0]
            a0 = e.args[0]
            okself = a0 == ("ref", ("field", selfp, R.ITEM))
            def side(t, f):
                vals = [t] + list(subterms(t))
                av = None
                return any(x[0] == "field" and x[1] == selfp and x[2] == f for x in vals)
            avs = e.extra.get("argvals") or [None] * len(e.args)
            l_ok = side(e.args[1], R.LEFT) or (avs[1] is not None and side(avs[1], R.LEFT))
            r_ok = side(e.args[2], R.RIGHT) or (avs[2] is not None and side(avs[2], R.RIGHT))
            if not (okself and l_ok and r_ok):
                ok, why = False, "TreapItem::%s is not called as self.item.%s(left child's item, right child's item): %s" % (meth, meth, ", ".join(tstr(x)[:60] for x in e.args))
        key = "%s|item-%s" % (fk(nb), meth)
        if ok:
            col.ok("T7" + sfx, nb.loc(), key, "self.item.%s(left.item, right.item) on every path" % meth)
        else:
            col.violation("T7" + sfx, key, nb.loc(), "%s: %s" % (nb.path, why))

    # ---------------- T6 compositions
    _compositions(col, R, crate, sfx)
    # public wrappers of private recursive workers forward their parameters in order and return the result
    for worker, w in R.wrapper_pairs:
        if R.shared_split and worker.key == R.split_by.key:
            continue   # the two entries of a shared skeleton hand over closures: judged by the T4 closure rules
        I = R.A(w)
        sh = R.shape.get(worker.key)
        for st in I.final_states:
            calls = [e for e in st.event_list() if is_call_to(e, worker)]
            ok = len(calls) == 1 and len(calls[0].args) == w.arg_count
            ret = util.ret_term(st)
            if ok and sh is not None:
                # a split worker may take (position, tree) and return its own two-field result: the entry hands each of
                # its parameters to the worker's parameter of the same kind and returns (first part, second part)
                perm = {sh["root"]: [i for i in range(w.arg_count) if _is_link(w.locals[i + 1]["ty"])], sh["other"]: [i for i in range(w.arg_count) if not _is_link(w.locals[i + 1]["ty"])]}
                for wi, src in perm.items():
                    a = calls[0].args[wi]
                    av = (calls[0].extra.get("argvals") or [None] * (wi + 1))[wi]
                    if len(src) != 1:
                        ok = False
                        continue
                    p_ = ("param", src[0] + 1, I.names.get(src[0] + 1))
                    if not (a == p_ or a == ("ref", ("local", src[0] + 1)) or (a[0] == "ref" and av == p_)):
                        ok = False
                if ok and ret != calls[0].res:
                    parts = ret[2] if ret[0] == "agg" and ret[1] == "tuple" and len(ret[2]) == 2 else None
                    ks = [p_[1] for p_ in parts if p_[0] == "proj" and p_[2] == calls[0].res and isinstance(p_[1], int)] if parts else []
                    ok = len(ks) == 2 and (ks[0], ks[1]) == (sh["k0"], sh["k1"])
            elif ok:
                ok = ret == calls[0].res
                for i, a in enumerate(calls[0].args):
                    p_ = ("param", i + 1, I.names.get(i + 1))
                    av = (calls[0].extra.get("argvals") or [None] * (i + 1))[i]
                    if not (a == p_ or a == ("ref", ("local", i + 1)) or (a[0] == "ref" and av == p_)):
                        ok = False
            key = "%s|forwards-to-worker" % fk(w)
            if ok:
                col.ok("T6" + sfx, w.loc(), key, "%s(args in order) -> %s, result returned unchanged" % (w.name, worker.name))
            else:
                col.violation("T6" + sfx, key, w.loc(), "%s must forward its parameters in order to %s and return its result unchanged" % (w.path, worker.path))


def _known_none(facts, X):
    """the path facts say the Option X is None (is_none() true, discriminant 0, matched against None)"""
    d = ("discr", X)
    for f in facts:
        if f[0] == "eq" and ((f[1] == d and f[2] == 0) or (f[1] == ("bin", "Eq", d, mk_int(0)) and f[2] == 1) or (f[1] == ("bin", "Ne", d, mk_int(0)) and f[2] == 0) or (f[1] == ("bin", "Eq", d, mk_int(1)) and f[2] == 0)):
            return True
        if f[0] == "ne" and f[1] == d and f[2] == 1:
            return True
    return False


def _split_rules(col, R, sfx):
    fk = util.fkey
    for nm_, b, positional in (("split_at", R.split_at, True), ("split_by", R.split_by, False)):
        I = R.A(b)
        kb = fk(R.pub[nm_]) if R.shared_split else fk(b)
        sh = R.shape[b.key]
        RP, OP, K0, K1 = sh["root"], sh["other"], sh["k0"], sh["k1"]
        root = ("param", RP + 1, I.names.get(RP + 1))
        pos = ("param", OP + 1, I.names.get(OP + 1))

        def pair_of(ret):
            """(first part, second part) of a returned result: a pair, or the worker's own result struct"""
            if ret[0] == "agg" and len(ret[2]) == 2:
                return (ret[2][K0], ret[2][K1])
            return None
        Lterm = None
        right_going = left_going = None
        rg_all, lg_all = [], []
        for st in I.final_states:
            evs = st.event_list()
            rec = [e for e in evs if is_call_to(e, b)]
            if not rec:
                ret = util.ret_term(st)
                ok = ret[0] == "agg" and len(ret[2]) == 2 and all(x[0] == "agg" and x[1][3] == "None" for x in ret[2])
                if ok:
                    col.ok("T4" + sfx, b.loc(), "%s|empty" % kb, "empty tree splits into (None, None)", nontrivial=False)
                else:
                    col.violation("T4" + sfx, "%s|empty" % kb, b.loc(), "split of an empty tree must return (None, None), returns %s" % tstr(ret))
                continue
            e = rec[0]
            a0 = e.args[RP]
            side = None
            X = None
            if a0[0] == "load" and child_field_of(a0[2], R):
                X, side = child_field_of(a0[2], R)
            ret = util.ret_term(st)
            stores = [x for x in evs if x.kind == "store" and child_field_of(x.place, R) and x.val[0] == "proj" and x.val[2] == e.res]
            res0, res1 = ("proj", K0, e.res), ("proj", K1, e.res)
            if side == R.RIGHT:
                right_going = (st, e)
                rg_all.append((st, e))
                ok = pair_of(ret) == (root, res1) and stores and stores[0].place == ("field", X, R.RIGHT) and stores[0].val == res0
                key = "%s|right-going-assembly" % kb
                if ok:
                    col.ok("T4" + sfx, b.loc(e.bb), key, "root.right = a; return (root, b)")
                else:
                    col.violation("T4" + sfx, key, b.loc(e.bb), "right-going split must set root.right to the first part of the recursive result and return (root, second part); got return %s" % tstr(ret))
            elif side == R.LEFT:
                left_going = (st, e)
                lg_all.append((st, e))
                ok = pair_of(ret) == (res0, root) and stores and stores[0].place == ("field", X, R.LEFT) and stores[0].val == res1
                key = "%s|left-going-assembly" % kb
                if ok:
                    col.ok("T4" + sfx, b.loc(e.bb), key, "root.left = b; return (a, root)")
                else:
                    col.violation("T4" + sfx, key, b.loc(e.bb), "left-going split must set root.left to the second part of the recursive result and return (first part, root); got return %s" % tstr(ret))
            else:
                col.violation("T4" + sfx, "%s|recursion-target" % kb, b.loc(e.bb), "split recurses on %s which is not a child of the root" % tstr(a0))
        if right_going is None or left_going is None:
            col.violation("T4" + sfx, "%s|branches" % kb, b.loc(), "split must have a right-going and a left-going recursive branch")
            continue
        if R.shared_split:
            _shared_decision(col, R, sfx, nm_, positional, I, right_going, left_going, kb)
            continue
        if not positional:
            # split_by: the branch is decided by the predicate applied to root.item; right-going iff true
            st, e = right_going
            ok = False
            for f in st.facts:
                t = f[1]
                if isinstance(t, tuple) and t and t[0] == "call" and ("call_mut" in str(t[1]) or "ops::Fn" in str(t[1])):
                    if (f[0] == "eq" and f[2] == 1) or (f[0] == "ne" and f[2] == 0):
                        ok = any(s[0] == "field" and s[2] == R.ITEM for s in subterms(t))
            key = "%s|predicate-true-goes-right" % kb
            if ok:
                col.ok("T4" + sfx, b.loc(e.bb), key, "pred(root.item) true => root belongs to the left part, recurse right")
            else:
                col.violation("T4" + sfx, key, b.loc(e.bb), "split_by must recurse into the right child exactly when the predicate holds for root.item")
            continue
        # positional arithmetic, on every right-going and every left-going path (the size of the left child may be read by
        # a `match` that splits the paths: Some(left) => left.item.size(), None => 0)
        def left_none(st_):
            return any(_known_none(st_.facts, x) for f_ in st_.facts for x in ([f_[1]] + list(subterms(f_[1])) if isinstance(f_[1], tuple) else []) if isinstance(x, tuple) and x and x[0] == "load" and isinstance(x[2], tuple) and x[2][0] == "field" and x[2][2] == R.LEFT) or any(isinstance(f_[1], tuple) and f_[1] and f_[1][0] == "discr" and isinstance(f_[1][1], tuple) and f_[1][1][0] == "load" and f_[1][1][2][0] == "field" and f_[1][1][2][2] == R.LEFT and _known_none(st_.facts, f_[1][1]) for f_ in st_.facts)

        def good_L(Lt, st_):
            """Lt is the size of the left child on this path: the size call (with its 0 default), the bare size call on a path
            where the child exists, or 0 on a path where it does not"""
            if Lt == mk_int(0):
                return left_none(st_)
            mentions_left = any(s_[0] == "field" and s_[2] == R.LEFT for s_ in subterms(Lt))
            bare = isinstance(Lt, tuple) and Lt and Lt[0] == "call" and str(Lt[1]).endswith("::size")
            return mentions_left and (_is_left_size(Lt, R) or bare)

        Ls = []
        ok_r, why_r = True, ""
        for st, e in rg_all:
            arg = e.args[OP]
            d = zones.lin_sub(zones.lin_sub(zones.linearize(pos), zones.linearize(arg)), ({}, 1))
            atoms = [(a_, c_) for a_, c_ in d[0].items()]
            if d[1] != 0 or len(atoms) > 1 or (atoms and atoms[0][1] != 1):
                ok_r, why_r = False, "right-going recursion position %s is not pos - L - 1 for a single term L" % tstr(arg)
                continue
            Lterm = atoms[0][0] if atoms else mk_int(0)
            Ls.append(Lterm)
            z = zones.zone_of(st.facts, I.tys)
            if not z.entails("Ge", arg, mk_int(0)):
                ok_r, why_r = False, "facts do not entail pos > L so pos - L - 1 can underflow / mis-split at pos == L"
            elif not good_L(Lterm, st):
                ok_r, why_r = False, "L = %s is not the size of the left child" % tstr(Lterm)
        key = "%s|right-going-arith" % kb
        e = rg_all[-1][1]
        if ok_r and rg_all:
            col.ok("T4" + sfx, b.loc(e.bb), key, "pos > L entailed, recursion with pos - L - 1, L = size of left child or 0")
        else:
            col.violation("T4" + sfx, key, b.loc(e.bb), "right-going branch: %s" % why_r)
            continue
        ok_l = True
        for st2, e2 in lg_all:
            z2 = zones.zone_of(st2.facts, I.tys)
            if not (e2.args[OP] == pos and any(z2.entails("Le", pos, Lt) and good_L(Lt, st2) for Lt in Ls)):
                ok_l = False
        key = "%s|left-going-arith" % kb
        e2 = lg_all[-1][1]
        if ok_l:
            col.ok("T4" + sfx, b.loc(e2.bb), key, "pos <= L entailed for the same L; recursion with pos")
        else:
            col.violation("T4" + sfx, key, b.loc(e2.bb), "left-going branch must be taken exactly when pos <= L (same L as subtracted on the other branch) and recurse with pos unchanged; got position %s" % tstr(e2.args[OP]))


def _truth(f):
    if f[0] == "eq" and f[2] in (0, 1):
        return bool(f[2])
    if f[0] == "ne" and f[2] in (0, 1):
        return not bool(f[2])
    return None


def _shared_decision(col, R, sfx, nm, positional, I, right_going, left_going, kb):
    """both splits run one private skeleton that asks a decision closure at every node (after the push) and goes
    right when it says true.  Skeleton: the same closure is asked once on the node and handed on unchanged.
    split_by's closure is pred(&node.item).  split_at's closure keeps the remaining position r (starting at pos)
    behind a captured &mut: true exactly when r > L with r := r - L - 1, false exactly when r <= L with r unchanged,
    L the size of the node's left child."""
    fk = util.fkey
    crate = R.crate
    W = R.work[nm]
    clo = ("param", 2, I.names.get(2))

    def is_clo(a):
        return a in (clo, ("ref", ("deref", clo)), ("ref", ("local", 2))) or (isinstance(a, tuple) and a and a[0] == "ref" and a[1] in (("deref", clo),))

    ok = True
    why = ""
    for (st, e), want in ((right_going, True), (left_going, False)):
        evs = st.event_list()
        asks = [x for x in evs if x.kind == "call" and x.extra.get("name") in ("call_mut", "call", "call_once") and x.args and is_clo(x.args[0])]
        a0 = e.args[0]
        X = child_field_of(a0[2], R)[0] if a0[0] == "load" and child_field_of(a0[2], R) else None
        if len(asks) != 1:
            ok, why = False, "the decision closure is asked %d times for one node" % len(asks)
            continue
        q = asks[0]
        on_node = X is not None and any(x == ("ref", X) or x == X for x in subterms(q.args[1]))
        verdicts = [_truth(f) for f in st.facts if f[1] == q.res]
        if not on_node or want not in verdicts or (not want) in verdicts:
            ok, why = False, "the %s-going branch is not taken exactly when the closure answers %s for the node" % ("right" if want else "left", "true" if want else "false")
        # handed on by reference, or by value (then it is the closure as the one question left it)
        if not (len(e.args) >= 2 and (is_clo(e.args[1]) or e.args[1] == ("out", q.extra.get("uid"), 2))):
            ok, why = False, "the recursive call does not hand on the same decision closure"
    key = "%s|%s" % (kb, "predicate-true-goes-right" if not positional else "skeleton-decision")
    if ok:
        col.ok("T4" + sfx, W.loc(), key, "%s: closure asked once on the node; true => recurse right, false => recurse left; closure handed on" % W.name)
    else:
        col.violation("T4" + sfx, key, W.loc(), "%s: %s" % (W.path, why))
    # ---- the closure this entry hands over
    pb = R.pub[nm]
    Iw = R.A(pb)
    cv = None
    fwd = bool(Iw.final_states)
    for st in Iw.final_states:
        calls = [x for x in st.event_list() if is_call_to(x, W)]
        if len(calls) != 1 or util.ret_term(st) != calls[0].res or calls[0].args[0] != ("param", 1, Iw.names.get(1)):
            fwd = False
            continue
        a1 = calls[0].args[1]
        v = a1
        if a1[0] == "ref" and a1[1][0] == "constval":
            v = a1[1][1]
        elif a1[0] == "ref":
            v = (calls[0].extra.get("argvals") or [None, None])[1]
        if isinstance(v, tuple) and v and v[0] == "agg" and isinstance(v[1], tuple) and v[1] and v[1][0] == "closure":
            cv = v
    cb = crate.by_key.get(cv[1][1]) if cv is not None else None
    key = "%s|%s" % (kb, "decision-closure" if positional else "predicate-on-item")
    if not fwd or cb is None:
        col.violation("T4" + sfx, key, pb.loc(), "%s must hand the tree and a decision closure to %s and return its result unchanged" % (pb.path, W.path))
        return
    Ic = R.A(cb)
    node = ("deref", ("param", 2, Ic.names.get(2)))
    if not positional:
        okp = bool(Ic.final_states) and len(cv[2]) == 1 and cv[2][0] in (("ref", ("local", 2)), ("param", 2, Iw.names.get(2)), ("ref", ("deref", ("param", 2, Iw.names.get(2)))))
        for st in Ic.final_states:
            r = util.ret_term(st)
            asks = [x for x in st.event_list() if x.kind == "call" and x.extra.get("name") in ("call_mut", "call", "call_once")]
            okp = okp and len(asks) == 1 and r == asks[0].res and any(x == ("ref", ("field", node, R.ITEM)) for x in subterms(asks[0].args[1])) and any(x[0] == "upvar" for x in [asks[0].args[0]] + list(subterms(asks[0].args[0])))
        if okp:
            col.ok("T4" + sfx, cb.loc(), key, "the closure is pred(&node.item): true => the node belongs to the left part")
        else:
            col.violation("T4" + sfx, key, cb.loc(), "split_by must decide each node by the caller's predicate applied to the node's item")
        return
    # positional: the counter behind the captured &mut starts at pos ...
    caps = [c for c in cv[2] if isinstance(c, tuple) and c and c[0] == "ref" and c[1][0] == "local"]
    start_ok = False
    if len(cv[2]) == 1 and len(caps) == 1:
        k = caps[0][1][1]
        assigns = [sx for _bb, _i, sx in pb.statements() if sx["k"] == "assign" and sx["place"]["l"] == k and not sx["place"]["p"]]
        start_ok = len(assigns) == 1 and assigns[0]["rv"]["k"] == "use" and assigns[0]["rv"].get("op", {}).get("k") in ("copy", "move") and assigns[0]["rv"]["op"]["place"]["l"] == 2 and not assigns[0]["rv"]["op"]["place"]["p"]
        if k == 2 and not assigns:
            start_ok = True   # `mut pos` itself is the counter the closure borrows
    cell = ("deref", ("upvar", 0))
    rem = ("load", ("m0",), cell)
    Lterm = None
    arith = bool(Ic.final_states) and start_ok
    why = "the remaining-position counter does not start at pos" if not start_ok else ""
    seen = set()
    for st in Ic.final_states:
        r = util.ret_term(st)
        stores = [x for x in st.event_list() if x.kind == "store"]
        z = zones.zone_of(st.facts, Ic.tys)
        if r == mk_int(1):
            seen.add(True)
            if len(stores) != 1 or stores[0].place != cell:
                arith, why = False, "going right must update the remaining position exactly once"
                continue
            d = zones.lin_sub(zones.lin_sub(zones.linearize(rem), zones.linearize(stores[0].val)), ({}, 1))
            atoms = list(d[0].items())
            if len(atoms) != 1 or atoms[0][1] != 1 or d[1] != 0:
                arith, why = False, "going right must continue with r - L - 1 for a single term L, got %s" % tstr(stores[0].val)
                continue
            Lterm = atoms[0][0]
            if not z.entails("Ge", stores[0].val, mk_int(0)):
                arith, why = False, "facts do not entail r > L on the right-going answer: r - L - 1 can underflow / mis-split at r == L"
        elif r == mk_int(0):
            seen.add(False)
            if stores:
                arith, why = False, "going left must leave the remaining position unchanged"
        else:
            arith, why = False, "the decision is not a constant per path: %s" % tstr(r)
    if arith and Lterm is not None:
        for st in Ic.final_states:
            if util.ret_term(st) == mk_int(0) and not zones.zone_of(st.facts, Ic.tys).entails("Le", rem, Lterm):
                arith, why = False, "the left-going answer must be given exactly when r <= L (same L as subtracted on the other answer)"
        if not (any(s_[0] == "field" and s_[1] == node and s_[2] == R.LEFT for s_ in subterms(Lterm)) and _is_left_size(Lterm, R)):
            arith, why = False, "L = %s is not the size of the node's left child" % tstr(Lterm)
    if arith and seen == {True, False} and Lterm is not None:
        col.ok("T4" + sfx, cb.loc(), "%s|right-going-arith" % kb, "r starts at pos; true iff r > L with r := r - L - 1, L = size of left child or 0")
        col.ok("T4" + sfx, cb.loc(), "%s|left-going-arith" % kb, "false iff r <= L for the same L; r unchanged")
    else:
        col.violation("T4" + sfx, "%s|right-going-arith" % kb, cb.loc(), "split_at's decision closure: %s" % (why or "both answers are needed"))


def _is_left_size(L, R):
    """L is (some Option combinator of) TreapItemSized::size of the left child's item, defaulting to 0"""
    crate = R.crate
    has_zero = False
    has_size = False
    for s in subterms(L):
        if s == ("int", 0):
            has_zero = True
        if s[0] == "call" and str(s[1]).endswith("::size"):
            has_size = True
        if s[0] == "agg" and isinstance(s[1], tuple) and s[1] and s[1][0] == "closure":
            # closure by canonical signature: find a body with that signature and look for the size call
            for b in crate.bodies:
                if b.is_closure:
                    from .. import effects

                    if effects.canon(b) == s[1][2]:
                        for bb, t in b.calls():
                            if t["fn"].get("name") == "size":
                                has_size = True
    return has_zero and has_size


def _calls_role(e, R, role):
    """a call of the recursive worker or of its public forwarding wrapper"""
    if e.kind != "call":
        return False
    d = (e.fn.get("resolved") or e.fn).get("def")
    if d == R.pub[role].key:
        return True
    # the worker itself, unless it is the skeleton both splits share (then only the public entry tells which split)
    return d == R.work[role].key and not (R.shared_split and role in ("split_by", "split_at"))


def _compositions(col, R, crate, sfx):
    fk = util.fkey
    # insert_at
    b = util.need_body(crate, "Treap::<T>::insert_at")
    I = R.A2(b)
    for st in I.final_states:
        evs = st.event_list()
        sp = [e for e in evs if _calls_role(e, R, "split_at")]
        mg = [e for e in evs if _calls_role(e, R, "merge")]
        nw = [e for e in evs if is_call_to(e, R.new)]
        stores = [e for e in evs if e.kind == "store" and e.place[0] == "field" and e.place[2] == 0]
        ok = len(sp) == 1 and len(mg) == 2 and len(nw) == 1
        if not ok and not sp and not mg and len(nw) == 1 and stores:
            # empty-tree fast path: split_at(None, _) = (None, None) and merge(None, x) = x, so the new node is the tree
            rootpl = stores[-1].place
            was_none = any(_known_none(st.facts, x) for x in (("load", ("m0",), rootpl),) + tuple(f_[1][1] for f_ in st.facts if isinstance(f_[1], tuple) and f_[1] and f_[1][0] == "discr" and isinstance(f_[1][1], tuple) and f_[1][1][0] == "load" and strip_mem(f_[1][1][2]) == strip_mem(rootpl)))
            v = stores[-1].val
            only_new = v[0] == "agg" and isinstance(v[1], tuple) and len(v[1]) > 3 and v[1][3] == "Some" and any(x == nw[0].res for x in subterms(v)) and nw[0].args[0] == ("param", 3, I.names.get(3))
            key = "%s|composition" % fk(b)
            if was_none and only_new:
                col.ok("T6" + sfx, b.loc(), key + "|empty", "empty tree: the new node becomes the root (what split_at/merge of empty halves give)")
                continue
        if ok:
            s = sp[0]
            left, right = ("proj", 0, s.res), ("proj", 1, s.res)
            pos, item = ("param", 2, I.names.get(2)), ("param", 3, I.names.get(3))
            ok = s.args[1] == pos and nw[0].args[0] == item
            inner, outer = mg
            newnode_in = any(x == nw[0].res for x in subterms(inner.args[1]))
            ok = ok and inner.args[0] == left and newnode_in and outer.args[0] == inner.res and outer.args[1] == right
            ok = ok and stores and stores[-1].val == outer.res
        key = "%s|composition" % fk(b)
        if ok:
            col.ok("T6" + sfx, b.loc(), key, "root = merge(merge(left, new), right) with (left, right) = split_at(root, pos)")
        else:
            col.violation("T6" + sfx, key, b.loc(), "insert_at is not split_at(pos) followed by merge(merge(left, new node), right)", {"events": [repr(e) for e in evs]})
    # remove_at
    b = util.need_body(crate, "Treap::<T>::remove_at")
    I = R.A2(b)
    for st in I.final_states:
        evs = st.event_list()
        sp = [e for e in evs if _calls_role(e, R, "split_at")]
        mg = [e for e in evs if _calls_role(e, R, "merge")]
        stores = [e for e in evs if e.kind == "store" and e.place[0] == "field" and e.place[2] == 0]
        ok = len(sp) == 2 and len(mg) == 1
        if ok:
            s1, s2 = sp
            pos = ("param", 2, I.names.get(2))
            ok = s1.args[1] == pos and s2.args[0] == ("proj", 1, s1.res) and s2.args[1] == mk_int(1)
            ok = ok and mg[0].args == (("proj", 0, s1.res), ("proj", 1, s2.res))
            ok = ok and stores and stores[-1].val == mg[0].res
            ret = util.ret_term(st)
            mid = ("proj", 0, s2.res)
            ok = ok and any(x == mid for x in subterms(ret)) and any(x[0] == "field" and x[2] == R.ITEM for x in subterms(ret))
        key = "%s|composition" % fk(b)
        if ok:
            col.ok("T6" + sfx, b.loc(), key, "split_at(pos); split_at(rest, 1); root = merge(first, last); returns the middle item")
        else:
            col.violation("T6" + sfx, key, b.loc(), "remove_at is not split_at(pos), split_at(rest, 1), merge(first, last) returning the middle node's item", {"events": [repr(e) for e in evs]})
    # Treap::merge / split_at / split_by wrappers
    b = util.need_body(crate, "Treap::<T>::merge")
    I = R.A2(b)
    for st in I.final_states:
        mg = [e for e in st.event_list() if _calls_role(e, R, "merge")]
        l, r = ("param", 1, I.names.get(1)), ("param", 2, I.names.get(2))
        ok = len(mg) == 1 and mg[0].args == (("proj", 0, l), ("proj", 0, r)) and util.ret_term(st) == ("agg", util.ret_term(st)[1], (mg[0].res,))
        key = "%s|forwards-in-order" % fk(b)
        if ok:
            col.ok("T6" + sfx, b.loc(), key, "TreapNode::merge(left.root, right.root)")
        else:
            col.violation("T6" + sfx, key, b.loc(), "Treap::merge must forward (left.root, right.root) in this order")
    for nm, tgt in (("split_at", R.split_at), ("split_by", R.split_by)):
        b = util.need_body(crate, "Treap::<T>::%s" % nm)
        I = R.A2(b)
        for st in I.final_states:
            sp = [e for e in st.event_list() if _calls_role(e, R, nm)]
            ret = util.ret_term(st)
            ok = len(sp) == 1 and sp[0].args[0] == ("proj", 0, ("param", 1, I.names.get(1))) and sp[0].args[1] == ("param", 2, I.names.get(2))
            if ok:
                parts = ret[2] if ret[0] == "agg" else ()
                ok = len(parts) == 2 and all(p[0] == "agg" for p in parts) and parts[0][2] == (("proj", 0, sp[0].res),) and parts[1][2] == (("proj", 1, sp[0].res),)
            key = "%s|forwards-in-order" % fk(b)
            if ok:
                col.ok("T6" + sfx, b.loc(), key, "returns (Treap{left}, Treap{right}) of TreapNode::%s(self.root, arg)" % nm)
            else:
                col.violation("T6" + sfx, key, b.loc(), "Treap::%s must return the two parts of TreapNode::%s(self.root, arg) in order" % (nm, nm))
