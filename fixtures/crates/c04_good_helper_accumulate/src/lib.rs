mod complex;
mod fft;
pub mod precision;

pub use complex::Complex;
pub use fft::{multiply_verify, FFT};
