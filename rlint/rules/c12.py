"""C12 — Bitset: word/bit decomposition agreement, point-operation table, operator agreement over
all words, count/format/equality coverage.  DESIGN.md §4 C12."""
from .. import util, zones
from ..absint import tstr, mk_int, subterms
from ..core import Anchor

PID = "C12"
LEVEL = "other"
CRATES = ["rlib_bitset"]
RELEASE = True
NO_HIDDEN_STATE = ['rlib_bitset']   # driver rule STATE: these crates are plain data structures / functions
ARMED = True
ENGINES = ["E3", "E10"]
TECHNIQUE = "term shapes of the point operations (word = x div W, bit = x mod W for the element width W, accepted shift/mask equivalents), loop-body transfer terms of the word-wise operators with the resolved word-level callee compared to the impl's trait, iterator-chain shape (full zip, no take/skip), coverage ranges of count/format, derive table"
LEVEL_TEXT = (
    "Structural necessary conditions decided for every capacity N (the code is generic in N): set/remove/flip/test and the iterator "
    "all split an index as (x div 64, x mod 64) for the 64-bit element type and use that offset in the mask/shift; set is |= mask, "
    "remove is &= !mask, flip is ^= mask, test extracts that bit; each binary operator and its assigning form applies to words i of "
    "both operands the word-level operator OF THE SAME TRAIT over the full zip of both arrays, Not complements every word; count sums "
    "count_ones over all words; Display/Debug map test(i) over 0..N*64; from_u64 puts the word in position 0 of a zeroed array; "
    "equality is derived on the word array. The set-algebra identities as values are not decided."
)
LEVEL_NOTE = "trusted: rustc MIR, exporter, std iterator adaptors (iter/iter_mut/zip/enumerate visit all elements in order)"
EXPLANATION = (
    "K1 decomposition: in set, remove, flip, test and BitsIter::next the indexed word is x/64 (or x>>6) and the shift amount x%64 (or "
    "x&63) of the same x. K2 table: set stores word | (1<<b); remove word & !(1<<b); flip word ^ (1<<b); test returns ((word>>b)&1) "
    "> 0. K3 operators: for &Bitset op &Bitset the loop iterates enumerate(zip(self.data.iter(), rhs.data.iter())), stores result.data[i] "
    "= x.op(y) with op's trait equal to the impl's trait; assigning forms iterate zip(self.data.iter_mut(), rhs.data.iter()) and call "
    "the matching *Assign on (x, y); Not stores !*x for every x of iter_mut(). K4: count = sum of count_ones over data.iter(); "
    "Display/Debug range 0..N*64 through test; from_u64: [0; N] with data[0] = x; PartialEq/Eq derived. Iterator: skips to the next "
    "word boundary (idx+64)&!63 only when the shifted word is zero, otherwise advances by trailing_zeros+1 and yields idx-1. "
    "NOT decided: set-algebra identities as values."
)
UNDECIDED = ["set-theoretic results of operation histories as values"]
ASSUMPTIONS = ["indices are below 64*N (the code bounds-checks the word index)"]
FIXTURES = [
    ("c12_bad_test_mod32", "bad", ["K1"]),
    ("c12_bad_remove_or", "bad", ["K2"]),
    ("c12_bad_xor_calls_or", "bad", ["K3"]),
    ("c12_bad_not_skips_last", "bad", ["K3"]),
    ("c12_bad_display_32", "bad", ["K4"]),
    ("c12_good_shift_mask", "good", []),
]

W = 64
LOGW = 6


def word_of(t, x):
    return t in (("bin", "Div", x, mk_int(W)), ("bin", "Shr", x, mk_int(LOGW)))


def bit_of(t, x):
    return t in (("bin", "Rem", x, mk_int(W)), ("bin", "BitAnd", x, mk_int(W - 1)))


def split_index(word_t, bit_t):
    """the common x such that word_t = x div W and bit_t = x mod W, or None"""
    for cand in (word_t[2] if word_t[0] == "bin" else None,):
        if cand is not None and word_of(word_t, cand) and bit_of(bit_t, cand):
            return cand
    return None


def _strip_cast(t):
    while isinstance(t, tuple) and t and t[0] == "cast":
        t = t[3]
    return t


def _deep_mentions(t, p):
    if t == p:
        return True
    return isinstance(t, tuple) and any(_deep_mentions(x, p) for x in t)


def _bypass_sound(st, I, tr):
    """a return in front of the word loop: a & a == a and a | a == a, so `if self.data == rhs.data` may hand back self for
    and / or (and leave self alone for &= / |=); nothing of the kind holds for xor or not"""
    if tr not in ("BitAnd", "BitOr", "BitAndAssign", "BitOrAssign"):
        return False
    p1, p2 = ("param", 1, I.names.get(1)), ("param", 2, I.names.get(2))
    same = False
    for f in st.facts:
        t = f[1]
        if f[0] in ("eq", "ne") and isinstance(t, tuple) and t and t[0] == "call" and "PartialEq" in str(t[1]) and str(t[1]).endswith(("::eq", "::ne")):
            truth = (f[0] == "eq") == bool(f[2])
            if str(t[1]).endswith("::ne"):
                truth = not truth
            ments = [_deep_mentions(t, p) for p in (p1, p2)]
            if truth and all(ments):
                same = True
    if not same:
        return False
    if any(e.kind == "store" and _deep_mentions(e.place, p1) for e in st.event_list()):
        return False
    if tr.endswith("Assign"):
        return True
    r = util.ret_term(st)
    # the value handed back is self (a clone or a copy of *self)
    while isinstance(r, tuple) and r and r[0] == "call" and str(r[1]).endswith("Clone::clone"):
        r = [x for x in r[2] if not (isinstance(x, tuple) and x and x[0] == "mem")][0]
    from ..absint import strip_mem
    r = strip_mem(r)
    return r in (("ref", ("deref", p1)), p1, ("load", None, ("deref", p1)))


def _skips_a_round(backs, tr=None):
    """some path through the loop body neither applies a word operator nor stores anything: position k is skipped.
    One skip is the operator itself: for AND into a zero-initialised result, a round whose facts say that one of the
    two words is 0 (0 & y == x & 0 == 0 is what the untouched result word already holds)."""
    for st in backs:
        evs = st.event_list()
        li = max(k for k, e in enumerate(evs) if e.kind == "loop")
        body = evs[li:]
        wops = [e for e in body if e.kind == "call" and (e.extra.get("trait") or "").split("::")[-1] in ("BitAnd", "BitOr", "BitXor", "Not", "BitAndAssign", "BitOrAssign", "BitXorAssign")]
        stores = [e for e in body if e.kind == "store"]
        if not wops and not stores:
            if tr == "BitAnd":
                zero_word = any(f[0] == "eq" and isinstance(f[1], tuple) and f[1] and f[1][0] == "bin" and f[1][3] == mk_int(0) and ((f[1][1] == "Eq" and f[2] == 1) or (f[1][1] == "Ne" and f[2] == 0)) and isinstance(f[1][2], tuple) and f[1][2] and f[1][2][0] == "load" for f in st.facts)
                zero_init = any(isinstance(x, tuple) and x and ((x[0] == "repeat" and x[1] == mk_int(0)) or (x[0] == "call" and str(x[1]).endswith("Bitset::<N>::new"))) for v in st.env.values() if isinstance(v, tuple) for x in [v] + list(subterms(v)))
                if zero_word and zero_init:
                    continue
            return True
    return False


def _is_zip_chain(backs):
    evs = backs[0].event_list()
    chain = [e.extra.get("name") for e in evs if e.kind == "call" and e.extra.get("name") in ("iter", "iter_mut", "zip", "enumerate")]
    return chain in (["iter", "iter", "zip", "enumerate"], ["iter_mut", "iter", "zip"], ["iter_mut"])


def _iter_tree(t):
    """structure of an iterator value: ('src', place) for a full walk over an array/slice place,
    ('zip', A, B), ('enum', A), ('range', lo, hi); None when something else (take/skip/filter/...) is involved"""
    if not isinstance(t, tuple) or not t:
        return None
    if t[0] == "ref":
        return ("src", t[1])          # &array / &mut array used as IntoIterator
    if t[0] == "rangeiter":
        return ("range", t[1], t[2]) if t[3] == "fwd" else None
    if t[0] == "agg" and isinstance(t[1], tuple) and str(t[1][1]).endswith("ops::Range"):
        return ("range", t[2][0], t[2][1])
    if t[0] != "call":
        return None
    nm = str(t[1]).split("::")[-1]
    args = [x for x in t[2] if not (isinstance(x, tuple) and x and x[0] == "mem")]
    if nm in ("iter", "iter_mut") and args and args[0][0] == "ref":
        return ("src", args[0][1])
    if nm == "into_iter" and args:
        return _iter_tree(args[0])
    if nm == "zip" and len(args) >= 2:
        a_, b_ = _iter_tree(args[0]), _iter_tree(args[1])
        return ("zip", a_, b_) if a_ and b_ else None
    if nm == "enumerate" and args:
        a_ = _iter_tree(args[0])
        return ("enum", a_) if a_ else None
    return None


def _positions(tree, payload, out, idxs):
    """map item components to (array place) walked at the common position; idxs collects index terms"""
    if tree[0] == "src":
        out[payload] = tree[1]
    elif tree[0] == "zip":
        _positions(tree[1], ("proj", 0, payload), out, idxs)
        _positions(tree[2], ("proj", 1, payload), out, idxs)
    elif tree[0] == "enum":
        idxs.add(("proj", 0, payload))
        _positions(tree[1], ("proj", 1, payload), out, idxs)
    elif tree[0] == "range":
        idxs.add(payload)


def _copy_of_self_walked(I, pre, n, p1):
    """local n is a Bitset whose word array held a copy of self's words when a borrowing iterator constructor
    (iter_mut and friends: they do not write) took it, and nothing else has touched it before the loop"""
    for e in pre:
        if e.kind != "call" or e.extra.get("name") not in ("iter_mut", "as_mut_slice", "as_mut", "deref_mut"):
            continue
        a0 = e.args[0] if e.args else None
        if not (isinstance(a0, tuple) and a0 and a0[0] == "ref" and a0[1] in (("field", ("local", n), 0), ("local", n))):
            continue   # (the local is the Bitset, or just its word array: `let mut data = self.data`)
        v = (e.extra.get("argvals") or [None])[0]
        src = isinstance(v, tuple) and v and v[0] == "load" and v[1] == ("m0",) and v[2] in (("field", ("deref", p1), 0), ("field", p1, 0))
        src = src or v == ("proj", 0, p1)
        ent = [en.get(n) for ens in I.loop_entry.values() for en in ens]
        return bool(src) and bool(ent) and all(x == ("out", e.extra.get("uid"), n) for x in ent)
    return False


def _wordwise_semantic(crate, I, b, tr, backs):
    """every loop round touches ONE position k of the word arrays: dest[k] = self.data[k] OP rhs.data[k]
    (or dest[k] OP= rhs.data[k], or dest[k] = !dest[k]); the walk covers all N words (full iterators over the
    arrays / 0..N, no take/skip/filter).  Returns (ok, description) or None when the structure is different."""
    if not backs:
        return None
    N_ = ("gparam", GN[0])
    p1, p2 = ("param", 1, I.names.get(1)), ("param", 2, I.names.get(2))

    def arr(pl):
        """'self' / 'rhs' / ('local', n) for a place that is one operand's word array"""
        if not isinstance(pl, tuple):
            return None
        if pl[0] == "field" and pl[2] == 0:
            base = pl[1]
            if base in (("deref", p1), p1, ("local", 1)):
                return "self"
            if base in (("deref", p2), p2, ("local", 2)):
                return "rhs"
            if base[0] == "local":
                return ("local", base[1])
            if base[0] == "cell":
                # a caller's local handed to an inlined helper by &mut (`result.zip_assign(rhs, op)`)
                return ("cell", base)
        if pl[0] == "local":
            return ("local", pl[1])
        return None

    def cell_is_copy_of_self(mem, cell):
        """the value copied into the cell when the helper was entered is a copy of self (self.clone(), *self)"""
        vals = []

        def walk(m):
            if not isinstance(m, tuple) or not m:
                return
            if m[0] == "store" and m[2] == cell:
                vals.append(m[3])
            for x in m[1:3] if m[0] in ("store", "after", "mphi") else ():
                if isinstance(x, tuple) and x and x[0] in ("store", "after", "mphi", "m0"):
                    walk(x)

        walk(mem)
        if not vals:
            return False
        v = vals[-1]   # the earliest store: the copy-in
        if isinstance(v, tuple) and v and v[0] == "call" and str(v[1]).endswith("clone"):
            a_ = [x for x in v[2] if not (isinstance(x, tuple) and x and x[0] == "mem")]
            v = ("load", ("m0",), a_[0][1]) if a_ and a_[0][0] == "ref" else v
        return v in (("load", ("m0",), ("deref", p1)), p1)

    verdict = True
    desc = ""
    for st in backs:
        evs = st.event_list()
        li = max(k for k, e in enumerate(evs) if e.kind == "loop")
        nx = [e for e in evs[li:] if e.kind == "call" and e.extra.get("name") == "next"]
        if len(nx) != 1:
            return None
        itv = (nx[0].extra.get("argvals") or [None])[0]
        if isinstance(itv, tuple) and itv and itv[0] == "phi":
            # the iterator is loop-carried state: its structure is the value it entered the loop with
            ents, work = [], [I]
            while work:
                x_ = work.pop()
                ents.extend(en.get(itv[2]) for hd, ens in x_.loop_entry.items() for en in ens if x_.uid(hd) == itv[1])
                work.extend(getattr(x_, "inlined_subs", []))
            itv = ents[0] if ents else None
        elem_idx = None
        comp, idxs = {}, set()
        if itv is not None and itv[0] == "rangeiter":
            if not (itv[1] == mk_int(0) and itv[2] == N_ and itv[3] == "fwd"):
                return False, "the index range is %s..%s, not 0..N" % (tstr(itv[1]), tstr(itv[2]))
            elem_idx = [x for x in (t_ for f in st.facts for t_ in subterms(f[1])) if x[0] == "elem"]
        else:
            tree = _iter_tree(itv) if itv is not None else None
            if tree is None:
                return None
            payload = ("proj", 0, ("down", nx[0].res, 1))
            _positions(tree, payload, comp, idxs)
            srcs = [arr(pl) for pl in comp.values()]
            if any(x is None for x in srcs):
                return None

        def pos_of(pl):
            """(array, 'k') when the place is the current position's word of an array"""
            if not isinstance(pl, tuple):
                return None
            if pl[0] == "deref" and pl[1] in comp:
                return arr(comp[pl[1]])
            if pl[0] == "index":
                ix = pl[2]
                if (ix[0] == "elem" and ix[2] == mk_int(0) and ix[3] == N_) or ix in idxs:
                    return arr(pl[1])
            return None

        def val_pos(v):
            if isinstance(v, tuple) and v and v[0] == "load":
                return pos_of(v[2])
            if isinstance(v, tuple) and v and v[0] == "ref":
                return pos_of(v[1])
            if v in comp:
                return arr(comp[v])  # the item component itself: a reference to the current position's word
            return None

        body = evs[li:]
        wops = [e for e in body if e.kind == "call" and (e.extra.get("trait") or "").split("::")[-1] in ("BitAnd", "BitOr", "BitXor", "BitAndAssign", "BitOrAssign", "BitXorAssign")]
        stores = [e for e in body if e.kind == "store"]
        base_op = tr[: -len("Assign")] if tr.endswith("Assign") else tr
        prim = [e for e in stores if isinstance(e.val, tuple) and e.val and e.val[0] == "bin" and e.val[1] == base_op] if not wops and tr != "Not" else []
        upd_prim = []
        if not wops and not prim and not stores and tr in ("BitAnd", "BitOr", "BitXor"):
            # the same with the result array a local of an inlined helper: result[k] := self.data[k] OP rhs.data[k] as an update
            # of that local (`zip_words(rhs, u64::bitand)`)
            for l, v in st.env.items():
                for x in ([v] + list(subterms(v))) if isinstance(v, tuple) else []:
                    if x[0] == "upd" and isinstance(x[3], tuple) and x[3] and x[3][0] == "bin" and x[3][1] == base_op and ((x[2][0] == "elem" and x[2][2] == mk_int(0) and x[2][3] == N_) or x[2] in idxs):
                        upd_prim.append(x)
        if upd_prim:
            ok = len(upd_prim) == 1 and val_pos(upd_prim[0][3][2]) == "self" and val_pos(upd_prim[0][3][3]) == "rhs"
            desc = "result[k] = self.data[k] %s rhs.data[k] at every position k (primitive word operator)" % base_op
        elif prim:
            # the word operator applied as the primitive `a & b` (a closure |a, b| a & b handed to a helper):
            # dest[k] = self.data[k] OP rhs.data[k]
            ok = len(prim) == 1 and len(stores) == 1
            if ok:
                e_ = prim[0]
                d, l_, r_ = pos_of(e_.place), val_pos(e_.val[2]), val_pos(e_.val[3])
                if tr.endswith("Assign"):
                    ok = d == "self" and l_ == "self" and r_ == "rhs"
                else:
                    same_dest = d is not None and d == l_
                    copy = isinstance(d, tuple) and ((d[0] == "cell" and cell_is_copy_of_self(e_.state[1], d[1])) or (d[0] == "local" and _copy_of_self_walked(I, evs[:li], d[1], p1)))
                    ok = r_ == "rhs" and ((same_dest and copy) or (l_ == "self" and d is not None))
            desc = "dest[k] = self.data[k] %s rhs.data[k] at every position k (primitive word operator)" % base_op
        elif tr.endswith("Assign"):
            ok = len(wops) == 1 and (wops[0].extra.get("trait") or "").split("::")[-1] == tr and not stores
            if ok:
                d, r_ = val_pos(wops[0].args[0]), val_pos(wops[0].args[1])
                ok = d == "self" and r_ == "rhs"
            desc = "self.data[k] %s rhs.data[k] at every position k" % tr
        elif tr in ("BitAnd", "BitOr", "BitXor"):
            ok = len(wops) == 1 and (wops[0].extra.get("trait") or "").split("::")[-1] == tr
            if ok:
                l_, r_ = val_pos(wops[0].args[0]), val_pos(wops[0].args[1])
                if isinstance(l_, tuple) and l_[0] == "local" and _copy_of_self_walked(I, evs[:li], l_[1], p1):
                    # the result array starts as a copy of self's words and is combined in place: position k still
                    # holds self.data[k] when round k reads it (every round writes its own position only)
                    l_ = "self" if [pos_of(e.place) for e in stores] == [("local", l_[1])] else None
                ok = l_ == "self" and r_ == "rhs"
                # the result goes to position k of the result array
                tgt = [e for e in stores if e.val == wops[0].res]
                upd_ok = False
                for l, v in st.env.items():
                    for x in ([v] + list(subterms(v))) if isinstance(v, tuple) else []:
                        if x[0] == "upd" and x[3] == wops[0].res and ((x[2][0] == "elem" and x[2][2] == mk_int(0) and x[2][3] == N_) or x[2] in idxs):
                            upd_ok = True
                ok = ok and (upd_ok or any(pos_of(e.place) is not None for e in tgt))
            desc = "result[k] = self.data[k] %s rhs.data[k] at every position k" % tr
        else:
            ok = len(stores) == 1 and stores[0].val[0] == "un" and stores[0].val[1] == "Not" and stores[0].val[2][0] == "load" and stores[0].val[2][2] == stores[0].place and pos_of(stores[0].place) is not None
            desc = "word[k] = !word[k] at every position k"
        verdict = verdict and ok
    return verdict, desc


def _wordwise_alt(crate, I, b, tr, backs):
    """forms of the word-wise operators other than the zip chain; None when none applies"""
    p1, p2 = ("param", 1, I.names.get(1)), ("param", 2, I.names.get(2))
    N_ = ("gparam", GN[0])
    # --- forwarding impl: the same operator of another receiver form (by value -> by reference, &x -> x.clone()),
    #     applied to the same operands in order, result returned; the impl forwarded to is judged on its own
    if not backs and I.final_states:
        okf = True
        tgt_name = None
        for st in I.final_states:
            evs = [e for e in st.event_list() if e.kind == "call" and e.extra.get("name") not in ("clone", "deref")]
            ret = util.ret_term(st)
            if len(evs) != 1:
                okf = False
                break
            e = evs[0]
            tdef = (e.fn.get("resolved") or e.fn).get("def")
            tb = crate.by_key.get(tdef)
            timp = crate.impl_of(tb) if tb is not None else None
            same_trait = timp is not None and (timp.get("trait") or "").split("::")[-1] == tr and tb.key != b.key and "Bitset<" in str(timp.get("self_ty"))

            def operand(a, p):
                # p, &p, &*p, p.clone(), &p.clone() ... all denote the operand p
                for _ in range(4):
                    if a == p:
                        return True
                    if isinstance(a, tuple) and a and a[0] == "ref":
                        a = a[1]
                        continue
                    if isinstance(a, tuple) and a and a[0] in ("deref", "constval"):
                        a = a[1]
                        continue
                    if isinstance(a, tuple) and a and a[0] == "load":
                        a = a[2]
                        continue
                    break
                return a == p

            nargs = 1 if tr == "Not" else 2
            av = list(e.extra.get("argvals") or []) + [None, None]
            okf = okf and same_trait and len([x for x in e.args]) >= nargs and (operand(e.args[0], p1) or av[0] == p1) and (nargs == 1 or operand(e.args[1], p2) or av[1] == p2) and ret == e.res
            tgt_name = tb.path if tb is not None else None
        if okf:
            return True, "forwards to %s on the same operands" % tgt_name
    # --- binary operator as { let mut r = self.clone(); r op= rhs; r }
    if tr in ("BitAnd", "BitOr", "BitXor") and not backs:
        for st in I.final_states:
            evs = [e for e in st.event_list() if e.kind == "call"]
            cl = [e for e in evs if e.extra.get("name") == "clone"]
            asg = [e for e in evs if (e.extra.get("trait") or "").split("::")[-1] == tr + "Assign"]
            ret = util.ret_term(st)
            ok = len(cl) == 1 and len(asg) == 1 and cl[0].args[0] in (("ref", ("deref", p1)), p1) and asg[0].args[1] in (p2, ("ref", ("deref", p2)))
            ok = ok and asg[0].args[0][0] == "ref" and asg[0].args[0][1][0] == "local" and ret[0] == "out" and ret[2] == asg[0].args[0][1][1] and ret[1] == asg[0].extra.get("uid")
            ok = ok and (asg[0].extra.get("argvals") or [None])[0] == cl[0].res
            if not ok and not cl and len(asg) == 1:
                # the left operand is taken by value (`impl BitAnd<&Bitset> for Bitset`): it is its own copy
                ok = asg[0].args[1] in (p2, ("ref", ("deref", p2))) and asg[0].args[0][0] == "ref" and asg[0].args[0][1][0] == "local" and ret[0] == "out" \
                    and ret[2] == asg[0].args[0][1][1] and ret[1] == asg[0].extra.get("uid") and (asg[0].extra.get("argvals") or [None])[0] == p1
            return ok, "copy of the left operand, then %sAssign with the right operand, returned" % tr
    # --- index loop: for i in 0..N { self.data[i] op= rhs.data[i] }
    if tr.endswith("Assign") and backs:
        ok = True
        seen = False
        for st in backs:
            evs = st.event_list()
            li = max(k for k, e in enumerate(evs) if e.kind == "loop")
            wc = [e for e in evs[li:] if e.kind == "call" and (e.extra.get("trait") or "").split("::")[-1] == tr]
            if not wc:
                return None
            seen = True
            if len(wc) != 1:
                ok = False
                continue
            a0, a1 = wc[0].args[0], wc[0].args[1]
            i0 = a0[1][2] if a0[0] == "ref" and a0[1][0] == "index" else None
            if i0 is None or i0[0] != "elem":
                return None
            full = i0[2] == mk_int(0) and i0[3] == N_
            dst_ok = a0[1][1] == ("field", ("deref", p1), 0)
            src_ok = a1[0] == "load" and a1[2] == ("index", ("field", ("deref", p2), 0), i0)
            ok = ok and full and dst_ok and src_ok
        if seen:
            return ok, "for i in 0..N: self.data[i] %s rhs.data[i]" % tr
    # --- Not as data.iter_mut().for_each(|w| *w = !*w)
    if tr == "Not" and not backs:
        for st in I.final_states:
            fe = [e for e in st.event_list() if e.kind == "call" and e.extra.get("name") == "for_each"]
            if len(fe) != 1 or len(fe[0].args) < 2:
                continue
            src, clo = fe[0].args[0], fe[0].args[1]
            evs_ = st.event_list()
            whole = isinstance(src, tuple) and src and src[0] == "call" and str(src[1]).endswith("iter_mut") and any(x[0] == "field" and x[2] == 0 and (x[1] in (p1, ("deref", p1), ("local", 1)) or util.cell_origin(evs_, x[1]) == ("local", 1)) for x in subterms(src))
            ok = False
            if whole and clo[0] == "agg" and isinstance(clo[1], tuple) and clo[1][0] == "closure":
                cb = crate.by_key.get(clo[1][1])
                if cb is not None:
                    Ic = util.analyse(cb)
                    w = ("deref", ("param", 2, Ic.names.get(2)))
                    ok = bool(Ic.final_states)
                    for fs in Ic.final_states:
                        stores = [e for e in fs.event_list() if e.kind == "store"]
                        ok = ok and len(stores) == 1 and stores[0].place == w and stores[0].val[0] == "un" and stores[0].val[1] == "Not" and stores[0].val[2][0] == "load" and stores[0].val[2][2] == w
            ret = util.ret_term(st)
            uids_ = {e.extra.get("uid") for e in evs_ if e.kind == "call" and e.extra.get("name") in ("iter_mut", "for_each")}
            ok = ok and isinstance(ret, tuple) and ret and ((ret[0] == "load" and util.cell_origin(evs_, ret[2]) == ("local", 1)) or ret == p1 or (ret[0] == "out" and ret[1] in uids_ and ret[2] == 1))
            return ok, "every word complemented in place (iter_mut().for_each)"
    # --- Not as data.map(|w| !w)
    if tr == "Not" and not backs:
        for st in I.final_states:
            ret = util.ret_term(st)
            ok = False
            if ret[0] == "agg" and ret[2] and ret[2][0][0] == "call" and str(ret[2][0][1]).endswith("::map"):
                m = ret[2][0]
                src, clo = m[2][0], m[2][1]
                if src == ("proj", 0, p1) and clo[0] == "agg" and isinstance(clo[1], tuple) and clo[1][0] == "closure":
                    cb = crate.by_key.get(clo[1][1])
                    if cb is not None:
                        Ic = util.analyse(cb)
                        ok = bool(Ic.final_states) and all(util.ret_term(fs) == ("un", "Not", ("param", 2, Ic.names.get(2))) for fs in Ic.final_states)
            return ok, "every word mapped through `!`"
    return None


def _wordwise_for_each(crate, I, b, tr):
    """internal iteration over the words: `self.data.iter_mut().zip(rhs.data.iter()).for_each(|(a, b)| *a op= *b)` for
    the assigning operators, `self.data.iter_mut().for_each(|x| *x = !*x)` for Not.  The receiver pairs word i of self
    with word i of rhs (both whole arrays), the closure applies the operator of the trait to exactly that pair"""
    if not (tr.endswith("Assign") or tr == "Not"):
        return None
    selfd = ("field", ("deref", ("param", 1, I.names.get(1))), 0) if tr != "Not" else None
    desc = None
    for st in I.final_states:
        fes = [e for e in st.event_list() if e.kind == "call" and e.extra.get("name") == "for_each"]
        if len(fes) != 1 or len(fes[0].args) < 2:
            return None
        rcv, clo = fes[0].args[0], fes[0].args[1]
        cb = crate.by_key.get(clo[1][1]) if clo[0] == "agg" and isinstance(clo[1], tuple) and clo[1][0] == "closure" else None
        if cb is None:
            return None

        def src(t, mut):
            """the array a (mutable / shared) whole-array iterator or reference walks"""
            if isinstance(t, tuple) and t and t[0] == "call" and str(t[1]).rsplit("::", 1)[-1] in (("iter_mut",) if mut else ("iter", "into_iter")):
                t = [x for x in t[2] if not (isinstance(x, tuple) and x and x[0] == "mem")][0]
            if isinstance(t, tuple) and t and t[0] == "ref" and t[1][0] == "field" and t[1][2] == 0:
                return t[1][1]
            return None

        Ic = util.analyse(cb)
        item = ("param", 2, Ic.names.get(2))
        if tr == "Not":
            base = src(rcv, True)
            if base is None or base[0] not in ("deref", "local"):
                return None
            for cst in Ic.final_states:
                stores = [e for e in cst.event_list() if e.kind == "store"]
                if not (len(stores) == 1 and stores[0].place == ("deref", item) and stores[0].val == ("un", "Not", ("load", ("m0",), ("deref", item)))):
                    return None
            desc = "Not applied to every word through iter_mut().for_each"
            continue
        if not (isinstance(rcv, tuple) and rcv and rcv[0] == "call" and str(rcv[1]).endswith("Iterator::zip")):
            return None
        za = [x for x in rcv[2] if not (isinstance(x, tuple) and x and x[0] == "mem")]
        if len(za) != 2 or src(za[0], True) != ("deref", ("param", 1, I.names.get(1))) or src(za[1], False) != ("deref", ("param", 2, I.names.get(2))):
            return None
        for cst in Ic.final_states:
            cev = [e for e in cst.event_list() if e.kind in ("call", "store")]
            ops = [e for e in cev if e.kind == "call" and (e.extra.get("trait") or "").split("::")[-1] == tr]
            if len(cev) != 1 or len(ops) != 1:
                return None
            a0, a1 = ops[0].args[0], ops[0].args[1]
            lhs_ok = a0 in (("proj", 0, item), ("ref", ("deref", ("proj", 0, item))))
            rhs_ok = a1 in (("proj", 1, item), ("load", ("m0",), ("deref", ("proj", 1, item))), ("ref", ("deref", ("proj", 1, item))))
            if not (lhs_ok and rhs_ok):
                return None
        desc = "%s over iter_mut(self.data).zip(rhs.data).for_each" % tr
    return desc


GN = ["N"]   # the name of Bitset's const parameter (the number of words), read from the crate in check()


def check(col, prog, tier, profile, fixture=None):
    crate = prog.crate(fixture or "rlib_bitset")
    sfx = "" if profile == "dev" else "@" + profile
    fk = util.fkey
    adt = util.need_adt(crate, "Bitset")
    gn_ = util.generic_names(crate, "Bitset")
    GN[0] = gn_[0] if len(gn_) == 1 else "N"
    f0 = util.fields_of(adt)[0]
    if not f0["ty"].startswith("[u64;"):
        raise Anchor("Bitset is expected to hold [u64; N]")
    helpers = util.private_helpers(crate, "Bitset") + [f for f in crate.bodies if not f.is_closure and f.kind == "Fn" and f.container is None and f.vis != "pub" and not util.self_recursive(f)] + util.private_type_helpers(crate)
    newb = util.opt_body(crate, "Bitset::<N>::new")
    An = util.analyser(helpers + ([newb] if newb is not None else []))
    An3 = util.analyser(helpers + ([newb] if newb is not None else []), features=("fncall", "mutlocal"))
    col.rule("K1" + sfx, "word = x div 64 and bit = x mod 64 of the same x in all point operations and the iterator", floor=5)
    col.rule("K2" + sfx, "set |= mask, remove &= !mask, flip ^= mask, test extracts the bit", floor=4)
    col.rule("K3" + sfx, "operators apply the same trait's word operator over the full zip; Not complements every word", floor=7)
    col.rule("K4" + sfx, "count over all words; Display/Debug over 0..N*64 via test; from_u64; derived equality", floor=6)

    # ---------------- K1 / K2 point operations
    table = {"set": "BitOr", "remove": "BitAnd", "flip": "BitXor"}
    for nm, op in table.items():
        b = util.need_body(crate, "Bitset::<N>::%s" % nm)
        I = An(b)
        x = ("param", 2, I.names.get(2))
        for st in I.final_states:
            stores = [e for e in st.event_list() if e.kind == "store"]
            ok1 = ok2 = False
            why = "no store"
            if len(stores) == 1:
                e = stores[0]
                widx = e.place[2] if e.place[0] == "index" else None
                v = e.val
                if widx is not None and v[0] == "bin":
                    old, mask = v[2], v[3]
                    if not (old[0] == "load" and old[2] == e.place):
                        old, mask = mask, old
                    inv = False
                    if mask[0] == "un" and mask[1] == "Not":
                        mask = mask[2]
                        inv = True
                    shl = mask[0] == "bin" and mask[1] == "Shl" and mask[2] == mk_int(1)
                    if shl:
                        ok1 = word_of(widx, x) and bit_of(_strip_cast(mask[3]), x)
                        ok2 = old[0] == "load" and old[2] == e.place and v[1] == op and inv == (nm == "remove")
                        why = "word %s, stores %s" % (tstr(widx), tstr(v))
                    else:
                        why = "mask is %s" % tstr(mask)
            key = "%s|decomposition" % fk(b)
            if ok1:
                col.ok("K1" + sfx, b.loc(), key, "data[x/64], 1 << (x%64)")
            else:
                col.violation("K1" + sfx, key, b.loc(), "%s does not address word x/64 with bit x%%64 of the same x (%s)" % (b.path, why))
            key = "%s|operation" % fk(b)
            if ok2:
                col.ok("K2" + sfx, b.loc(), key, "word %s= %smask" % ({"BitOr": "|", "BitAnd": "&", "BitXor": "^"}[op], "!" if nm == "remove" else ""))
            else:
                col.violation("K2" + sfx, key, b.loc(), "%s must be `word %s= %smask` (%s)" % (b.path, {"BitOr": "|", "BitAnd": "&", "BitXor": "^"}[op], "!" if nm == "remove" else "", why))
    b = util.need_body(crate, "Bitset::<N>::test")
    I = An(b)
    x = ("param", 2, I.names.get(2))
    for st in I.final_states:
        r = util.ret_term(st)
        ok1 = ok2 = False
        if r[0] == "bin" and r[1] in ("Gt", "Ne") and r[3] == mk_int(0) and r[2][0] == "bin" and r[2][1] == "BitAnd" and r[2][3] == mk_int(1):
            sh = r[2][2]
            if sh[0] == "bin" and sh[1] == "Shr" and sh[2][0] == "load" and sh[2][2][0] == "index":
                ok1 = word_of(sh[2][2][2], x) and bit_of(_strip_cast(sh[3]), x)
                ok2 = True
        elif r[0] == "bin" and r[1] in ("Gt", "Ne") and r[3] == mk_int(0) and r[2][0] == "bin" and r[2][1] == "BitAnd":
            # word & (1 << b) != 0
            w_, m_ = r[2][2], r[2][3]
            if m_[0] == "bin" and m_[1] == "Shl" and m_[2] == mk_int(1) and w_[0] == "load" and w_[2][0] == "index":
                ok1 = word_of(w_[2][2], x) and bit_of(_strip_cast(m_[3]), x)
                ok2 = True
        if ok1:
            col.ok("K1" + sfx, b.loc(), "%s|decomposition" % fk(b), "data[x/64] >> (x%64)")
        else:
            col.violation("K1" + sfx, "%s|decomposition" % fk(b), b.loc(), "test does not read bit x%%64 of word x/64 of the same x: %s" % tstr(r))
        if ok2:
            col.ok("K2" + sfx, b.loc(), "%s|operation" % fk(b), "extracts one bit")
        else:
            col.violation("K2" + sfx, "%s|operation" % fk(b), b.loc(), "test must extract exactly the addressed bit: %s" % tstr(r))
    # iterator
    nb = None
    for b_ in crate.bodies:
        imp = crate.impl_of(b_)
        if imp is not None and (imp.get("trait") or "").endswith("iter::Iterator") and "BitsIter" in imp["self_ty"] and b_.name == "next":
            nb = b_
    if nb is None:
        raise Anchor("BitsIter::next not found")
    # (a read-only checker of the iterator - `check_yield(&self, bit)`, loops included - stays an opaque call: it returns
    # nothing, takes nothing by &mut and cannot move the cursor)
    I = util.analyser([h_ for h_ in util.private_helpers(crate, "BitsIter", exclude=[nb]) + [f for f in crate.bodies if not f.is_closure and f.kind == "Fn" and f.container is None and f.vis != "pub" and not util.self_recursive(f)] + util.private_type_helpers(crate, exclude=[nb]) if not util.is_readonly_check(crate, h_)], features=("comb",))(nb)
    okdec = True
    nsh = 0
    for st in I.all_end_states():
        terms = [f[1] for f in st.facts if f[0] in ("eq", "ne")] + [e.val for e in st.event_list() if e.kind == "store"]
        for t in terms:
            for s in [t] + list(subterms(t)):
                if s[0] == "bin" and s[1] == "Shr" and s[2][0] == "load" and s[2][2][0] == "index":
                    nsh += 1
                    widx, bit = s[2][2][2], _strip_cast(s[3])
                    base = widx[2] if widx[0] == "bin" else None
                    if not (base is not None and word_of(widx, base) and bit_of(bit, base)):
                        okdec = False
    if okdec and nsh:
        col.ok("K1" + sfx, nb.loc(), "%s|decomposition" % fk(nb), "word idx/64 shifted by idx%%64 (%d uses)" % nsh)
    else:
        col.violation("K1" + sfx, "%s|decomposition" % fk(nb), nb.loc(), "the bit iterator does not split its cursor as (idx/64, idx%64)")
    # iterator stepping
    okstep = okskip = False
    from .. import zones as _z
    selfp_i = ("deref", ("param", 1, I.names.get(1)))
    idx_fields = set()
    for st in I.all_end_states():
        for e in st.event_list():
            if e.kind == "store" and e.place[0] == "field" and e.place[1] == selfp_i:
                idx_fields.add(e.place[2])
    def cval(t):
        """value of a constant usize expression (`!(WORD_BITS - 1)`), modulo 2^64"""
        if not isinstance(t, tuple) or not t:
            return None
        if t[0] == "int":
            return t[1] % (1 << 64)
        if t[0] == "un" and t[1] == "Not":
            x = cval(t[2])
            return None if x is None else (~x) % (1 << 64)
        if t[0] == "bin" and t[1] in ("Sub", "Add", "Mul", "Shl"):
            x, y = cval(t[2]), cval(t[3])
            if x is None or y is None:
                return None
            return {"Sub": x - y, "Add": x + y, "Mul": x * y, "Shl": x << (y % 64)}[t[1]] % (1 << 64)
        return None

    for hd_, sts_ in I.backedge_states.items():
      for st in sts_:
        # the cursor may live in the field throughout, or in a local for the duration of the loop
        steps = [(e.val, I.load(e.state[1], e.place)) for e in st.event_list() if e.kind == "store" and e.place[0] == "field" and e.place[1] == selfp_i]
        for ent in I.loop_entry.get(hd_, []):
            for l_, v0 in ent.items():
                if isinstance(v0, tuple) and v0 and v0[0] == "load" and v0[2][0] == "field" and v0[2][1] == selfp_i and st.env.get(l_) not in (None, ("phi", I.uid(hd_), l_)):
                    steps.append((st.env.get(l_), ("phi", I.uid(hd_), l_)))
        for v, old in steps:
            if not isinstance(v, tuple):
                continue
            # next word boundary: (idx + 64) & !63   or   (idx / 64 + 1) * 64
            form1 = v[0] == "bin" and v[1] == "BitAnd" and (v[3] in (("un", "Not", mk_int(63)), mk_int(~63), mk_int((1 << 64) - 64)) or cval(v[3]) == (1 << 64) - 64) and v[2] == ("bin", "Add", old, mk_int(64))
            form2 = v[0] == "bin" and v[1] == "Mul" and mk_int(64) in (v[2], v[3]) and any(x == ("bin", "Add", ("bin", "Div", old, mk_int(64)), mk_int(1)) or x == ("bin", "Add", ("bin", "Shr", old, mk_int(6)), mk_int(1)) for x in (v[2], v[3]))
            if form1 or form2:
                zero = any(f[0] == "eq" and isinstance(f[1], tuple) and f[1][0] == "bin" and ((f[1][1] == "Eq" and f[2] == 1) or (f[1][1] == "Ne" and f[2] == 0)) and f[1][3] == mk_int(0) and f[1][2][0] == "bin" and f[1][2][1] == "Shr" for f in st.facts)
                # `match self.pending() { 0 => .. }`: the switch is on the shifted word itself
                zero = zero or any(f[0] == "eq" and f[2] == 0 and not isinstance(f[2], bool) and isinstance(f[1], tuple) and f[1] and f[1][0] == "bin" and f[1][1] == "Shr" for f in st.facts)
                okskip = okskip or zero
    for st in I.final_states:
        r = util.ret_term(st)
        if r[0] == "agg" and r[1][3] == "Some":
            v = r[2][0]
            stores = [e for e in st.event_list() if e.kind == "store" and e.place[0] == "field" and e.place[1] == selfp_i]
            if not stores:
                continue
            last = stores[-1]
            # the value yielded is (cursor at entry of this round) + trailing_zeros(rest); the cursor ends one past it
            has_tz = any(x[0] == "call" and str(x[1]).endswith("trailing_zeros") for x in subterms(v))
            okstep = has_tz and util.lin_equal(last.val, ("bin", "Add", v, mk_int(1)))
    if okstep and okskip:
        col.ok("K4" + sfx, nb.loc(), "%s|stepping" % fk(nb), "skip a zero tail to the next word boundary; else advance by trailing_zeros + 1 and yield idx-1")
    else:
        col.violation("K4" + sfx, "%s|stepping" % fk(nb), nb.loc(), "the bit iterator must jump to (idx+64)&!63 only when the remaining word is zero and otherwise yield idx + trailing_zeros")

    # ---------------- K3 operators
    for imp in crate.impls:
        if imp.get("derived") or not imp.get("of_trait"):
            continue
        tr = (imp.get("trait") or "").split("::")[-1]
        if tr not in ("BitAnd", "BitOr", "BitXor", "BitAndAssign", "BitOrAssign", "BitXorAssign", "Not"):
            continue
        if "Bitset" not in imp["self_ty"]:
            continue
        b = crate.by_key[imp["items"][-1]["key"]] if imp["items"][-1]["kind"].startswith("Fn") else None
        for it in imp["items"]:
            if it["key"] in crate.by_key:
                b = crate.by_key[it["key"]]
        I = An3(b)
        backs = [s for l in I.backedge_states.values() for s in l]
        if not backs:
            # the loop over the words may sit in a private helper (possibly taking the word operation as a closure)
            backs = [s for _uid, l in I.inl_back_groups for s in l]
        key = "%s|wordwise" % fk(b)
        # return paths that never enter the word loop (a fast path in front of it)
        fin_loop = [st_ for st_ in I.final_states if any(e.kind == "loop" for e in st_.event_list())]
        bypass = [st_ for st_ in I.final_states if not any(e.kind == "loop" for e in st_.event_list())] if fin_loop else []
        bad_bypass = None
        for st_ in bypass:
            if not _bypass_sound(st_, I, tr):
                bad_bypass = st_
                break
        if bad_bypass is not None:
            col.violation("K3" + sfx, "%s|fast-path" % fk(b), b.loc(), "%s returns on a path that never runs the word loop (%s): for %s that is only right when both operands are the same set and the operator is idempotent (and / or), never for xor" % (b.path, "; ".join("%s %s %s" % (f[0], tstr(f[1])[:60], f[2]) for f in bad_bypass.facts if f[0] != "imp")[:160], tr))
            continue
        alt = _wordwise_semantic(crate, I, b, tr, backs)
        if alt is None or not alt[0]:
            alt2 = _wordwise_alt(crate, I, b, tr, backs)
            alt = alt2 if alt2 is not None else alt
        if alt is not None and not alt[0] and backs and not _skips_a_round(backs, tr):
            # a form the position analysis does not understand may still be the original zip chain (judged below);
            # a round of the loop that applies no word operator at all (a `continue` fast path) is never that
            alt = None if _is_zip_chain(backs) else alt
        if alt is not None:
            okalt, desc = alt
            if okalt:
                col.ok("K3" + sfx, b.loc(), key, desc)
            else:
                col.violation("K3" + sfx, key, b.loc(), "%s does not apply the %s word operator to words i of both operands over all N words: %s" % (b.path, tr, desc))
            continue
        if not backs:
            fe_ok = _wordwise_for_each(crate, I, b, tr)
            if fe_ok:
                col.ok("K3" + sfx, b.loc(), key, fe_ok)
                continue
            col.violation("K3" + sfx, key, b.loc(), "%s has no loop over the words" % b.path)
            continue
        st = backs[0]
        evs = st.event_list()
        chain = [e.extra.get("name") for e in evs if e.kind == "call" and e.extra.get("name") in ("iter", "iter_mut", "zip", "enumerate", "take", "skip", "step_by", "rev", "chain", "filter", "take_while", "skip_while")]
        li = max(k for k, e in enumerate(evs) if e.kind == "loop")
        body_calls = [e for k, e in enumerate(evs) if k > li and e.kind == "call" and e.extra.get("name") not in ("next",)]
        ok = False
        why = ""
        selfd, rhsd = None, None
        srcs = [e for e in evs if e.kind == "call" and e.extra.get("name") in ("iter", "iter_mut")]
        if tr in ("BitAnd", "BitOr", "BitXor"):
            want_chain = ["iter", "iter", "zip", "enumerate"]
            fn = tr.lower()
            wc = [e for e in body_calls if (e.extra.get("trait") or "").split("::")[-1] in ("BitAnd", "BitOr", "BitXor")]
            ok = chain == want_chain and len(wc) == 1 and (wc[0].extra.get("trait") or "").split("::")[-1] == tr
            if ok:
                item = [e for e in evs if e.kind == "call" and e.extra.get("name") == "next"][-1].res
                it0 = ("proj", 0, ("down", item, 1))
                pair = ("proj", 1, ("proj", 0, ("down", item, 1)))
                # operands: (pair.0, pair.1) in order; stored at index item.0
                a0, a1 = wc[0].args
                ok = any(s == ("proj", 0, pair) for s in [a0] + list(subterms(a0))) and any(s == ("proj", 1, pair) for s in [a1] + list(subterms(a1)))
                # the sources: first iter over self.data, second over rhs.data
                ok = ok and len(srcs) == 2 and srcs[0].args[0] == ("ref", ("field", ("deref", ("param", 1, I.names.get(1))), 0)) and srcs[1].args[0] == ("ref", ("field", ("deref", ("param", 2, I.names.get(2))), 0))
                # the result word index
                res_l = b.local_by_name("result")
                rv = st.env.get(res_l)
                okst = False
                for s in [rv] + list(subterms(rv)) if rv else []:
                    if s[0] == "upd" and s[3] == wc[0].res:
                        okst = s[2] == ("proj", 0, ("proj", 0, ("down", item, 1)))
                ok = ok and okst
                why = "chain %s, word op %s" % (chain, wc[0].callee)
            else:
                why = "iterator chain %s, word-level calls %s" % (chain, [e.callee for e in wc])
        elif tr.endswith("Assign"):
            want_chain = ["iter_mut", "iter", "zip"]
            wc = [e for e in body_calls if (e.extra.get("trait") or "").split("::")[-1].endswith("Assign")]
            ok = chain == want_chain and len(wc) == 1 and (wc[0].extra.get("trait") or "").split("::")[-1] == tr
            if ok:
                item = [e for e in evs if e.kind == "call" and e.extra.get("name") == "next"][-1].res
                pair = ("proj", 0, ("down", item, 1))
                a0, a1 = wc[0].args
                ok = any(s == ("proj", 0, pair) for s in [a0] + list(subterms(a0))) and any(s == ("proj", 1, pair) for s in [a1] + list(subterms(a1)))
                ok = ok and len(srcs) == 2 and srcs[0].args[0] == ("ref", ("field", ("deref", ("param", 1, I.names.get(1))), 0)) and srcs[1].args[0] == ("ref", ("field", ("deref", ("param", 2, I.names.get(2))), 0))
            why = "chain %s, word-level calls %s" % (chain, [e.callee for e in wc])
        else:
            want_chain = ["iter_mut"]
            stores = [e for k, e in enumerate(evs) if k > li and e.kind == "store"]
            ok = chain == want_chain and len(stores) == 1 and stores[0].val[0] == "un" and stores[0].val[1] == "Not" and stores[0].val[2][0] == "load" and stores[0].val[2][2] == stores[0].place
            why = "chain %s, stores %s" % (chain, [tstr(s.val) for s in stores])
        if ok:
            col.ok("K3" + sfx, b.loc(), key, "%s over %s" % (tr, " -> ".join(chain)))
        else:
            col.violation("K3" + sfx, key, b.loc(), "%s does not apply the %s word operator to words i of both operands over all N words: %s" % (b.path, tr, why))

    # ---------------- K4
    b = util.need_body(crate, "Bitset::<N>::count")
    I = An(b)
    ok = False
    for st in I.final_states:
        names = [e.extra.get("name") for e in st.event_list() if e.kind == "call"]
        ok = names[:3] == ["iter", "map", "sum"] or [n for n in names if n in ("iter", "map", "sum", "take", "skip", "filter")] == ["iter", "map", "sum"]
        cl = [c for c in crate.closures_of(b)]
        ok = ok and len(cl) == 1 and any(t["fn"].get("name") == "count_ones" for bb, t in cl[0].calls())
        # ... in a type that holds N*64: the per-word counts are widened BEFORE they are added (a `sum::<u8>()` of 64s wraps at
        # the fourth full word)
        WIDE = ("usize", "u64", "u128", "u32", "i64", "i128", "isize")
        sums = [e for e in st.event_list() if e.kind == "call" and e.extra.get("name") == "sum"]
        ok = ok and all(str((e.fn.get("args") or ["?"])[-1]) in WIDE for e in sums) and (not cl or str(cl[0].locals[0]["ty"]) in WIDE)
    if not ok:
        # explicit accumulation loop over every word: total += word.count_ones()
        for h, sts in I.backedge_states.items():
            its = [e for st in I.final_states for e in st.event_list() if e.kind == "call" and e.extra.get("name") in ("into_iter", "iter") and e.args and e.args[0] == ("ref", ("field", ("deref", ("param", 1, I.names.get(1))), 0))]
            acc_ok = bool(sts) and bool(its)
            for st in sts:
                co = [e for e in st.event_list() if e.kind == "call" and e.extra.get("name") == "count_ones"]
                if len(co) != 1:
                    acc_ok = False
                    continue
                rets = [util.ret_term(fs) for fs in I.final_states]
                accs = [r[2] for r in rets if r[0] == "phi"]
                if not accs:
                    acc_ok = False
                    continue
                nv = st.env.get(accs[0])
                want_add = nv is not None and nv[0] == "bin" and nv[1] == "Add" and ("phi", h, accs[0]) in (nv[2], nv[3]) and any(x == co[0].res for x in list(subterms(nv)))
                item_ok = any(x[0] == "call" and str(x[1]).endswith("::next") for x in subterms(co[0].args[0]))
                acc_ok = acc_ok and want_add and item_ok
            ent = [en.get(accs[0]) for en in I.loop_entry.get(h, [])] if sts and 'accs' in dir() and accs else []
            ok = ok or (acc_ok and ent and all(x == mk_int(0) for x in ent))
    if ok:
        col.ok("K4" + sfx, b.loc(), "%s|sum-of-count-ones" % fk(b), "count_ones summed over every word")
    else:
        col.violation("K4" + sfx, "%s|sum-of-count-ones" % fk(b), b.loc(), "count must sum count_ones over all words")
    fmt_bodies = {}
    for tr_ in ("Display", "Debug"):
        for b_ in crate.bodies:
            imp = crate.impl_of(b_)
            if imp is not None and (imp.get("trait") or "").endswith("fmt::" + tr_) and "Bitset" in imp["self_ty"] and not imp.get("derived"):
                fmt_bodies[tr_] = b_
    for tr in ("Display", "Debug"):
        fb = None
        for b_ in crate.bodies:
            imp = crate.impl_of(b_)
            if imp is not None and (imp.get("trait") or "").endswith("fmt::" + tr) and "Bitset" in imp["self_ty"] and not imp.get("derived"):
                fb = b_
        if fb is None:
            continue
        I = An(fb)
        okr = False
        for st in I.final_states + I.diverged:
            for e in st.event_list():
                if e.kind == "call" and e.extra.get("name") == "map":
                    r = e.args[0]
                    okr = r[0] == "agg" and r[1][1].endswith("ops::Range") and r[2][0] == mk_int(0) and r[2][1] in (("bin", "Mul", ("gparam", GN[0]), mk_int(W)), ("bin", "Mul", mk_int(W), ("gparam", GN[0])), ("bin", "Shl", ("gparam", GN[0]), mk_int(LOGW)))
        cl = util.closures_with_helpers(crate, fb, helpers)
        tests = any(any((t["fn"].get("name") == "test") for bb, t in c.calls()) for c in cl)
        key = "%s|all-bits" % fk(fb)
        if not (okr and tests) and fmt_bodies:
            # one of Display/Debug forwards to the other (which is judged on its own)
            for st in I.final_states:
                cs = [e for e in st.event_list() if e.kind == "call" and (e.fn.get("resolved") or e.fn).get("def") in {x.key for x in fmt_bodies.values() if x.key != fb.key}]
                if len(cs) == 1 and util.ret_term(st) == cs[0].res and cs[0].args[0] in (("param", 1, I.names.get(1)), ("ref", ("deref", ("param", 1, I.names.get(1))))):
                    okr = tests = True
        if not (okr and tests):
            # loop form: for i in 0..N*64 { write_char(if self.test(i) { '1' } else { '0' }) }
            sts = [s_ for l in I.backedge_states.values() for s_ in l] + I.inl_back
            seen_t = seen_f = False
            okl = bool(sts)
            for st in sts:
                evs = st.event_list()
                li = max(k for k, e in enumerate(evs) if e.kind == "loop")
                ts = [e for e in evs[li:] if e.kind == "call" and e.extra.get("name") == "test"]
                ws = [e for e in evs[li:] if e.kind == "call" and e.extra.get("name") in ("write_char", "push", "write_str", "push_str")]
                if len(ts) != 1 or len(ws) != 1:
                    okl = False
                    continue
                i_ = ts[0].args[1]
                rng = i_[0] == "elem" and i_[2] == mk_int(0) and i_[3] in (("bin", "Mul", ("gparam", GN[0]), mk_int(W)), ("bin", "Mul", mk_int(W), ("gparam", GN[0])), ("bin", "Shl", ("gparam", GN[0]), mk_int(LOGW)))
                truth = None
                for f in st.facts:
                    if f[1] == ts[0].res and f[0] in ("eq", "ne"):
                        truth = (f[0] == "eq") == bool(f[2])
                ch = ws[0].args[1]
                chv = ch[1] if ch[0] == "int" else None
                for s_ in subterms(ch):
                    if s_[0] == "cst" and str(s_[1]).strip('"') in ("0", "1") and len(str(s_[1]).strip('"')) == 1:
                        chv = 48 + int(str(s_[1]).strip('"'))
                if not rng or truth is None or chv != (49 if truth else 48):
                    okl = False
                seen_t = seen_t or truth is True
                seen_f = seen_f or truth is False
            if okl and seen_t and seen_f:
                okr = tests = True
        if not (okr and tests):
            # internal iteration: (0..N*64).try_for_each(|i| f.write_str(if self.test(i) { "1" } else { "0" }))
            full = (("bin", "Mul", ("gparam", GN[0]), mk_int(W)), ("bin", "Mul", mk_int(W), ("gparam", GN[0])), ("bin", "Shl", ("gparam", GN[0]), mk_int(LOGW)))
            for st in I.final_states:
                fes = [e for e in st.event_list() if e.kind == "call" and e.extra.get("name") in ("try_for_each", "for_each") and len(e.args) >= 2]
                if len(fes) != 1:
                    continue
                r, clo = fes[0].args[0], fes[0].args[1]
                rng_ok = r[0] == "agg" and isinstance(r[1], tuple) and str(r[1][1]).endswith("ops::Range") and r[2][0] == mk_int(0) and r[2][1] in full
                if not rng_ok:
                    # `(0..N*64)` behind `&mut` (try_for_each takes the iterator by reference)
                    av = (fes[0].extra.get("argvals") or [None])[0]
                    rng_ok = isinstance(av, tuple) and av and av[0] == "agg" and isinstance(av[1], tuple) and str(av[1][1]).endswith("ops::Range") and av[2][0] == mk_int(0) and av[2][1] in full
                cb_ = crate.by_key.get(clo[1][1]) if clo[0] == "agg" and isinstance(clo[1], tuple) and clo[1][0] == "closure" else None
                if not rng_ok or cb_ is None:
                    continue
                Ic = util.analyse(cb_)
                item = ("param", 2, Ic.names.get(2))
                seen_t = seen_f = False
                okc = bool(Ic.final_states)
                for cst in Ic.final_states:
                    cev = cst.event_list()
                    ts = [e for e in cev if e.kind == "call" and e.extra.get("name") == "test"]
                    ws = [e for e in cev if e.kind == "call" and e.extra.get("name") in ("write_char", "push", "write_str", "push_str")]
                    if len(ts) != 1 or len(ws) != 1 or ts[0].args[1] != item:
                        okc = False
                        continue
                    truth = None
                    for f in cst.facts:
                        if f[1] == ts[0].res and f[0] in ("eq", "ne"):
                            truth = (f[0] == "eq") == bool(f[2])
                    ch = ws[0].args[1]
                    chv = ch[1] if ch[0] == "int" else None
                    for s_ in [ch] + list(subterms(ch)):
                        if s_[0] == "cst" and str(s_[1]).strip('"') in ("0", "1"):
                            chv = 48 + int(str(s_[1]).strip('"'))
                    if truth is None or chv != (49 if truth else 48) or util.ret_term(cst) != ws[0].res and fes[0].extra.get("name") == "try_for_each":
                        okc = False
                    seen_t = seen_t or truth is True
                    seen_f = seen_f or truth is False
                if okc and seen_t and seen_f and util.ret_term(st) == fes[0].res:
                    okr = tests = True
        if okr and tests:
            col.ok("K4" + sfx, fb.loc(), key, "(0..N*64).map(|i| test(i))")
        else:
            col.violation("K4" + sfx, key, fb.loc(), "%s must render test(i) for every i in 0..N*64" % fb.path)
    b = util.need_body(crate, "Bitset::<N>::from_u64")
    I = An(b)
    for st in I.final_states:
        r = util.ret_term(st)
        x = ("param", 1, I.names.get(1))
        ok = r[0] == "agg" and r[2][0][0] == "upd" and r[2][0][1][0] == "repeat" and r[2][0][1][1] == mk_int(0) and r[2][0][2] == mk_int(0) and r[2][0][3] == x
        if not ok and r[0] == "agg" and r[2][0][0] == "repeat" and r[2][0][1] == mk_int(0):
            # the untouched zero array on a path whose facts say the capacity is zero words (`if N > 0 { data[0] = x }`)
            gn = [s_ for f_ in st.facts for s_ in subterms(f_[1]) if isinstance(s_, tuple) and s_ and s_[0] == "gparam"]
            z_ = zones.zone_of(st.facts, I.tys)
            if gn and any(z_.entails("Lt", g_, mk_int(1)) or z_.entails("Lt", ("bin", "Mul", g_, mk_int(64)), mk_int(64)) or z_.entails("Lt", ("bin", "Mul", g_, mk_int(64)), mk_int(1)) for g_ in gn):
                col.ok("K4" + sfx, b.loc(), "%s|word0|no-words" % fk(b), "N == 0: there is no word to hold x", nontrivial=False)
                continue
        if ok:
            col.ok("K4" + sfx, b.loc(), "%s|word0" % fk(b), "[0; N] with data[0] = x")
        else:
            col.violation("K4" + sfx, "%s|word0" % fk(b), b.loc(), "from_u64 must place x in word 0 of a zeroed array: %s" % tstr(r))
    eq_ok, eq_why = util.structural_eq(crate, adt)
    has_eq = any(i.get("self_adt") == adt["key"] and str(i.get("trait") or "").endswith("cmp::Eq") for i in crate.impls)
    loc = "%s:%d" % (adt["span"]["file"], adt["span"]["line"])
    if eq_ok and has_eq:
        col.ok("K4" + sfx, loc, "Bitset|derived-eq", "PartialEq/Eq compare the word arrays (%s)" % eq_why, nontrivial=False)
    else:
        col.violation("K4" + sfx, "Bitset|derived-eq", loc, "equality of Bitset must be the comparison of all words (derived, or field by field): %s" % (eq_why if not eq_ok else "no Eq impl"))
