"""E7 — multivariate integer polynomial normal form over absint terms.

Generic integer code calls its operators as trait methods (`<T as Mul<&T>>::mul(a, &b)`); the
translator turns such call terms into polynomials whose variables are the opaque sub-terms
(parameters, field loads, results of other calls).  Truncating division contributes the single
axiom  X = Y * div(X, Y) + rem(X, Y),  applied as a substitution for the dividend when it is a
variable.  Equality of two polynomials is equality of normal forms — no search, no solver."""
from .absint import strip_mem, tstr

OPS = {"add": "+", "sub": "-", "mul": "*", "neg": "neg", "div": "/", "rem": "%"}


class Poly:
    __slots__ = ("t",)

    def __init__(self, t=None):
        self.t = {k: v for k, v in (t or {}).items() if v != 0}

    @staticmethod
    def const(c):
        return Poly({(): c})

    @staticmethod
    def var(v):
        return Poly({((v, 1),): 1})

    def __add__(self, o):
        d = dict(self.t)
        for k, v in o.t.items():
            d[k] = d.get(k, 0) + v
        return Poly(d)

    def __neg__(self):
        return Poly({k: -v for k, v in self.t.items()})

    def __sub__(self, o):
        return self + (-o)

    def __mul__(self, o):
        d = {}
        for k1, v1 in self.t.items():
            for k2, v2 in o.t.items():
                m = dict(k1)
                for var, e in k2:
                    m[var] = m.get(var, 0) + e
                key = tuple(sorted(m.items(), key=lambda x: repr(x[0])))
                d[key] = d.get(key, 0) + v1 * v2
        return Poly(d)

    def is_zero(self):
        return not self.t

    def __eq__(self, o):
        return (self - o).is_zero()

    def vars(self):
        return {v for k in self.t for v, _ in k}

    def subst(self, var, p):
        out = Poly()
        for k, c in self.t.items():
            term = Poly.const(c)
            for v, e in k:
                base = p if v == var else Poly.var(v)
                for _ in range(e):
                    term = term * base
            out = out + term
        return out

    def single_var(self):
        if len(self.t) == 1:
            (k, c), = self.t.items()
            if c == 1 and len(k) == 1 and k[0][1] == 1:
                return k[0][0]
        return None

    def __repr__(self):
        if not self.t:
            return "0"
        parts = []
        for k, c in sorted(self.t.items(), key=lambda x: repr(x[0])):
            mon = "*".join(("%s" % _vs(v)) + ("^%d" % e if e > 1 else "") for v, e in k)
            parts.append(("%d" % c if not mon else ("" if c == 1 else "-" if c == -1 else "%d*" % c) + mon))
        return " + ".join(parts)


def _vs(v):
    return tstr(v) if isinstance(v, tuple) else str(v)


class Translator:
    def __init__(self):
        self.divs = {}  # (X repr, Y repr) -> dict(q=var, r=var, X=Poly, Y=Poly)

    def value_of(self, a):
        """operand of an operator call: by value, or a reference to a value / place"""
        if isinstance(a, tuple) and a and a[0] == "ref":
            pl = a[1]
            if pl[0] == "constval":
                return self.poly(pl[1])
            return Poly.var(("load", None, strip_mem(pl)))
        return self.poly(a)

    def poly(self, t):
        if not isinstance(t, tuple) or not t:
            return Poly.var(("opaque", repr(t)))
        h = t[0]
        if h == "int":
            return Poly.const(t[1])
        if h == "assoc" and t[2] in ("ZERO", "ONE"):
            return Poly.const(0 if t[2] == "ZERO" else 1)
        if h == "bin" and t[1] in ("Add", "Sub", "Mul"):
            a, b = self.poly(t[2]), self.poly(t[3])
            return a + b if t[1] == "Add" else a - b if t[1] == "Sub" else a * b
        if h == "un" and t[1] == "Neg":
            return -self.poly(t[2])
        if h == "load":
            return Poly.var(("load", None, strip_mem(t[2])))
        if h == "call":
            name = str(t[1])
            args = [a for a in t[2] if not (isinstance(a, tuple) and a and a[0] == "mem")]
            op = None
            for k in OPS:
                if name.endswith("::" + k) and ("ops::" in name or name.startswith("<")):
                    op = k
            if op in ("add", "sub", "mul") and len(args) == 2:
                a, b = self.value_of(args[0]), self.value_of(args[1])
                return a + b if op == "add" else a - b if op == "sub" else a * b
            if op == "neg" and len(args) == 1:
                return -self.value_of(args[0])
            if op in ("div", "rem") and len(args) == 2:
                X, Y = self.value_of(args[0]), self.value_of(args[1])
                key = (repr(X), repr(Y))
                d = self.divs.setdefault(key, {"X": X, "Y": Y, "q": ("div", key), "r": ("rem", key)})
                return Poly.var(d["q"] if op == "div" else d["r"])
            if name.endswith("Clone::clone") and len(args) == 1:
                return self.value_of(args[0])
        return Poly.var(strip_mem(t))

    def apply_division_axioms(self, polys):
        """substitute every dividend that is a plain variable by Y*q + r (the only division axiom)"""
        polys = list(polys)
        for d in self.divs.values():
            v = d["X"].single_var()
            if v is None:
                continue
            rep = d["Y"] * Poly.var(d["q"]) + Poly.var(d["r"])
            if v in rep.vars():
                continue
            polys = [p.subst(v, rep) for p in polys]
        return polys
