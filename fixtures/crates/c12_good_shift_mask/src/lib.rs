pub mod bits_iter;
pub mod bitset;

pub use bitset::Bitset;
