use rlib_rand::Rng;

pub trait TreapItem {
    fn update(&mut self, _left: Option<&Self>, _right: Option<&Self>) {}
    fn push(&mut self, _left: Option<&mut Self>, _right: Option<&mut Self>) {}
}

pub trait TreapItemSized {
    fn size(&self) -> usize;
}

static RNG: std::sync::Mutex<Rng> = std::sync::Mutex::new(Rng::from_seed(42));

type Priority = u32;

fn gen_priority() -> Priority {
    RNG.lock().unwrap().next_raw() as Priority
}

pub struct TreapNode<T> {
    pub item: T,
    pub priority: Priority,
    pub left: Option<Box<TreapNode<T>>>,
    pub right: Option<Box<TreapNode<T>>>,
}

impl<T> TreapNode<T> {
    pub fn new(item: T) -> Self {
        Self {
            item,
            priority: gen_priority(),
            left: None,
            right: None,
        }
    }
}

impl<T> TreapNode<T>
where
    T: TreapItem,
{
    pub fn update(&mut self) {
        self.item.update(
            self.left.as_ref().map(|x| &x.item),
            self.right.as_ref().map(|x| &x.item),
        );
    }

    pub fn merge(mut left: Option<Box<Self>>, mut right: Option<Box<Self>>) -> Option<Box<Self>> {
        if left.is_none() {
            right
        } else if right.is_none() {
            left
        } else if left.as_ref().unwrap().priority < right.as_ref().unwrap().priority {
            left.as_mut().unwrap().push();
            let m = left.as_mut().unwrap().right.take();
            left.as_mut().unwrap().right = Self::merge(m, right);
            left.as_mut().unwrap().update();
            left
        } else {
            right.as_mut().unwrap().push();
            let m = right.as_mut().unwrap().left.take();
            right.as_mut().unwrap().left = Self::merge(left, m);
            right.as_mut().unwrap().update();
            right
        }
    }

    pub fn split_by<P>(mut root: Option<Box<Self>>, mut pred: P) -> (Option<Box<Self>>, Option<Box<Self>>)
    where
        P: FnMut(&T) -> bool,
    {
        if root.is_none() {
            return (None, None);
        }
        root.as_mut().unwrap().push();
        if pred(&root.as_ref().unwrap().item) {
            let (a, b) = Self::split_by(root.as_mut().unwrap().right.take(), pred);
            root.as_mut().unwrap().right = a;
            root.as_mut().unwrap().update();
            (root, b)
        } else {
            let (a, b) = Self::split_by(root.as_mut().unwrap().left.take(), pred);
            root.as_mut().unwrap().left = b;
            root.as_mut().unwrap().update();
            (a, root)
        }
    }

    pub fn push(&mut self) {
        self.item.push(
            self.left.as_mut().map(|i| &mut i.item),
            self.right.as_mut().map(|i| &mut i.item),
        );
    }

    pub fn collect_into<'a>(&'a mut self, res: &mut Vec<&'a T>) {
        self.push();

        if let Some(left) = &mut self.left {
            left.collect_into(res);
        }
        res.push(&self.item);
        if let Some(right) = &mut self.right {
            right.collect_into(res);
        }
    }
}

impl<T> TreapNode<T>
where
    T: TreapItem + TreapItemSized,
{
    pub fn split_at(mut root: Option<Box<Self>>, pos: usize) -> (Option<Box<Self>>, Option<Box<Self>>) {
        if root.is_none() {
            return (None, None);
        }
        root.as_mut().unwrap().push();
        if pos > root.as_ref().unwrap().left.as_ref().map(|i| i.item.size()).unwrap_or(0) {
            let (a, b) = Self::split_at(
                root.as_mut().unwrap().right.take(),
                pos - root.as_ref().unwrap().left.as_ref().map(|i| i.item.size()).unwrap_or(0) - 1,
            );
            root.as_mut().unwrap().right = a;
            root.as_mut().unwrap().update();
            (root, b)
        } else {
            let (a, b) = Self::split_at(root.as_mut().unwrap().left.take(), pos);
            root.as_mut().unwrap().left = b;
            root.as_mut().unwrap().update();
            (a, root)
        }
    }
}
