"""C11 — gcd / lcm / linear Diophantine solver / CRT: solver soundness as an inductive polynomial
identity, signs of gcd and lcm, canonical CRT step.  DESIGN.md §4 C11."""
from .. import util
from ..absint import tstr, mk_int, subterms, strip_mem
from ..core import Anchor
from ..polyid import Poly, Translator

PID = "C11"
LEVEL = "other"
CRATES = ["rlib_gcd"]
RELEASE = True
NO_HIDDEN_STATE = ['rlib_gcd']   # driver rule STATE: these crates are plain data structures / functions
ARMED = True
ENGINES = ["E3", "E7", "E4c"]
TECHNIQUE = "verification conditions over the generic MIR of egcd/crt discharged by polynomial normal forms with the division axiom b = a*(b/a) + b%a and the recursion's post-condition as hypothesis; structural sign rules for gcd/lcm; shape of the CRT reduction"
LEVEL_TEXT = (
    "Proves, for all inputs (as an algebraic identity, assuming no overflow as the property does), that whenever the linear solver "
    "returns Some((x, y)) then a*x + b*y = c: base case by the division axiom and the path fact c % b == 0, step by substituting "
    "the recursive call's post-condition; shows None arises only from the base divisibility test or by propagation; shows gcd works "
    "on absolute values with a remainder loop (result >= 0), lcm divides before multiplying absolute values, and the CRT multiplier "
    "is reduced as ((x % k) + k) % k with k = m2/g before forming m1*x + a1, whose residue-2 congruence is the solver identity. "
    "That gcd is the GREATEST common divisor, completeness of the solver and CRT uniqueness are not decided."
)
LEVEL_NOTE = "trusted: rustc MIR, exporter, Integer trait operator impls of rlib_num_traits behave as the corresponding integer operations; truncating division identity X = Y*(X/Y) + X%Y; no overflow (property's domain)"
EXPLANATION = (
    "Q1: two verification conditions from egcd's Some-returning paths — base (a == 0, c % b == 0): 0*0 + b*(c/b) - c reduces to -(c%b) "
    "= 0; step: goal a*e0 + b*e1 - c equals the hypothesis (b%a)*y0 + a*x0 - c after substituting b = a*(b/a) + b%a; None-paths are "
    "the failed divisibility test or `?` propagation. Q2: gcd = into_abs on both operands, loop body only `a %= b; swap(a, b)`, "
    "returns the loop variable; lcm = (|a| / gcd(a,b)) * |b|. Q3: crt calls egcd(m1, -m2, a2 - a1), reduces x by k = m2/gcd(m1,m2) as "
    "((x % k) + k) % k and returns m1*x + a1; the unreduced identity m1*x0 + a1 = a2 + m2*y0 is the Q1 post-condition. NOT decided: "
    "maximality of gcd, 'None only when no solution exists', uniqueness in [0, lcm)."
)
UNDECIDED = ["gcd is the greatest common divisor (number theory)", "the solver returns None only when no solution exists (completeness)", "CRT result is the unique solution in [0, lcm)"]
ASSUMPTIONS = ["no overflow of intermediate products (property's magnitude bound)", "operators of the Integer trait are the integer operations"]
FIXTURES = [
    ("c11_bad_egcd_quotient_swapped", "bad", ["Q1"]),
    ("c11_bad_egcd_pair_swapped", "bad", ["Q1"]),
    ("c11_bad_gcd_no_abs", "bad", ["Q2"]),
    ("c11_bad_lcm_mul_first", "bad", ["Q2"]),
    ("c11_bad_crt_single_mod", "bad", ["Q3"]),
]


def _is(ev, body):
    return ev.kind == "call" and (ev.fn.get("resolved") or ev.fn).get("def") == body.key


def _none_of(st, calls):
    """the path's facts say that the result of one of the solver calls is None: `?` (Try::branch's Break),
    a match / if-let on the result, or an Option combinator (all leave a fact on the discriminant)"""
    for e in calls:
        for f in st.facts:
            t = f[1]
            if not (isinstance(t, tuple) and t and t[0] == "discr"):
                continue
            x = t[1]
            if x == e.res and ((f[0] == "eq" and f[2] == 0) or (f[0] == "ne" and f[2] == 1)):
                return True
            if isinstance(x, tuple) and x and x[0] == "call" and str(x[1]).endswith("Try>::branch") and x[2] and x[2][0] == e.res and f[0] == "eq" and f[2] == 1:
                return True
    return False


def _zero_fact(f, T):
    """fact says  <term> == 0 : returns the polynomial that is zero"""
    kind, t, v = f
    if not (isinstance(t, tuple) and t and t[0] == "call"):
        return None
    name = str(t[1])
    args = [a for a in t[2] if not (isinstance(a, tuple) and a and a[0] == "mem")]
    if len(args) != 2:
        return None
    is_eq = name.endswith("PartialEq::eq")
    is_ne = name.endswith("PartialEq::ne")
    if not (is_eq or is_ne):
        return None
    truth = (kind == "eq") == bool(v)
    equal = truth if is_eq else not truth
    if not equal:
        return None
    return T.value_of(args[0]) - T.value_of(args[1])


def _euclid_loop(I, pa, pb):
    """the state transformer of gcd, whatever else the function does (assertions, fast paths): two loop-carried
    values (x, y) that enter as |a| and |b|, become (y, x % y) in every round, the loop is left exactly when
    y == 0 and x is returned; a return that bypasses the loop gives one of |a|, |b| when the other one is 0"""
    from ..absint import strip_mem

    def unref(v):
        return v[1][1] if isinstance(v, tuple) and v and v[0] == "ref" and v[1][0] == "constval" else v

    def is_abs_of(v, p):
        if not (isinstance(v, tuple) and v and v[0] == "call" and str(v[1]).split("::")[-1] in ("abs", "into_abs")):
            return False
        a = [unref(y) for y in v[2] if not (isinstance(y, tuple) and y and y[0] == "mem")]
        while a and isinstance(a[0], tuple) and a[0] and a[0][0] == "call" and str(a[0][1]).endswith("clone"):
            a = [unref(y) for y in a[0][2] if not (isinstance(y, tuple) and y and y[0] == "mem")]
        return bool(a) and a[0] == p

    def zero_test(facts, v, want_zero):
        """the facts decide v == ZERO (want_zero) or v != ZERO"""
        for f in facts:
            t = f[1]
            if not (f[0] in ("eq", "ne") and isinstance(t, tuple) and t and t[0] == "call" and str(t[1]).endswith(("PartialEq::ne", "PartialEq::eq"))):
                continue
            a = [unref(y) for y in t[2] if not (isinstance(y, tuple) and y and y[0] == "mem")]
            if len(a) != 2:
                continue
            z = [y for y in a if isinstance(y, tuple) and y and y[0] == "assoc" and y[2] == "ZERO"]
            o = [y for y in a if y not in z]
            if len(z) != 1 or len(o) != 1 or strip_mem(o[0]) != strip_mem(v):
                continue
            truth = (f[0] == "eq") == bool(f[2])
            equal = truth if str(t[1]).endswith("::eq") else not truth
            if equal == want_zero:
                return True
        return False

    # the loop may sit in a private helper that was inlined
    owners, work = [], [I]
    while work:
        x_ = work.pop()
        owners.extend((x_, h_) for h_ in x_.loops)
        work.extend(getattr(x_, "inlined_subs", []))
    if len(owners) != 1:
        return False
    L, head = owners[0]
    entries = L.loop_entry.get(head, [])
    backs = L.backedge_states.get(head, [])
    if len(entries) != 1 or not backs:
        return False
    ent = entries[0]
    xs = [l for l, v in ent.items() if is_abs_of(v, pa)]
    ys = [l for l, v in ent.items() if is_abs_of(v, pb)]
    uid = L.uid(head)

    def is_rem(v, u, w):
        return isinstance(v, tuple) and v and v[0] == "call" and str(v[1]).endswith("Rem::rem") and [unref(q) for q in v[2] if not (isinstance(q, tuple) and q and q[0] == "mem")] == [u, w]

    def same_operands(facts):
        """the facts say the two operands are equal (`if a == b { return |a| }`)"""
        for f in facts:
            t = f[1]
            if f[0] in ("eq", "ne") and isinstance(t, tuple) and t and t[0] == "call" and str(t[1]).endswith(("PartialEq::eq", "PartialEq::ne")):
                a = [strip_mem(unref(y)) for y in t[2] if not (isinstance(y, tuple) and y and y[0] == "mem")]
                truth = (f[0] == "eq") == bool(f[2])
                equal = truth if str(t[1]).endswith("::eq") else not truth
                if equal and len(a) == 2 and {a[0], a[1]} == {pa, pb}:
                    return True
        return False

    found = None
    for x in xs:
        for y in ys:
            px, py = ("phi", uid, x), ("phi", uid, y)
            # one step per round: (x, y) := (y, x % y) under y != 0 ...
            good = True
            for bs in backs:
                nx, ny = bs.env.get(x), bs.env.get(y)
                good = good and nx == py and is_rem(ny, px, py) and zero_test(bs.facts, py, False)
            if good:
                found = (x, y, px, py, None)
                continue
            # ... or two steps per round without the swap: x := x % y under y != 0, then y := y % x under x != 0
            good = True
            mid = None
            for bs in backs:
                nx, ny = bs.env.get(x), bs.env.get(y)
                good = good and is_rem(nx, px, py) and is_rem(ny, py, nx) and zero_test(bs.facts, py, False) and zero_test(bs.facts, nx, False)
                mid = nx
            if good and mid is not None:
                found = (x, y, px, py, mid)
    if found is None:
        return False
    x, y, px, py, mid = found
    ax, ay = ent[x], ent[y]
    for st in I.final_states:
        r = util.ret_term(st)
        through = any(e.kind == "loop" for e in st.event_list())
        if through:
            if r == px and zero_test(st.facts, py, True):
                continue
            # between the two steps of a round the pair is (y, x % y): left with y when x % y == 0
            if mid is not None and r == py and zero_test(st.facts, mid, True):
                continue
            return False
        elif same_operands(st.facts) and (is_abs_of(r, pa) or is_abs_of(r, pb)):
            continue   # gcd(a, a) = |a|
        elif not ((is_abs_of(r, pa) and (zero_test(st.facts, ay, True) or zero_test(st.facts, pb, True))) or (is_abs_of(r, pb) and (zero_test(st.facts, ax, True) or zero_test(st.facts, pa, True)))):
            # (b == 0 exactly when |b| == 0: the fast path may test the raw operand)
            return False
    return bool(I.final_states)


INT_TYPES = ("i8", "i16", "i32", "i64", "i128", "isize", "u8", "u16", "u32", "u64", "u128", "usize")


def rule_integer_prims(col, prog, rid="Q4"):
    """what the generic code stands on for the primitive integers (rlib_num_traits is among the property's files):
    ZeroOne::ZERO / ONE evaluate to 0 / 1, Integer::abs / into_abs are the core absolute value for the signed types and
    the identity for the unsigned ones"""
    nt = prog.crates.get("rlib_num_traits")
    if nt is None:
        raise Anchor("rlib_num_traits is not part of the export")
    col.rule(rid, "num_traits for the primitive integers: ZERO = 0, ONE = 1; abs / into_abs = core abs (signed) / identity (unsigned)", floor=36)
    imps = {i["key"]: i for i in nt.impls}
    seen = set()
    for k in nt.consts:
        imp = imps.get(k.get("parent"))
        if imp is None or k["name"] not in ("ZERO", "ONE") or not str(imp.get("trait") or "").endswith("ZeroOne") or imp["self_ty"] not in INT_TYPES:
            continue
        want = 0 if k["name"] == "ZERO" else 1
        key = "<%s as ZeroOne>::%s" % (imp["self_ty"], k["name"])
        seen.add(key)
        loc = "%s:%d" % (k["span"]["file"], k["span"]["line"])
        if k.get("val") == want:
            col.ok(rid, loc, key, "= %d" % want, nontrivial=False)
        else:
            col.violation(rid, key, loc, "%s evaluates to %s, not %d: every generic loop test and identity element built on it is wrong" % (key, k.get("val"), want))
    for b in nt.bodies:
        imp = nt.impl_of(b)
        if imp is None or not str(imp.get("trait") or "").endswith("Integer") or b.name not in ("abs", "into_abs") or imp["self_ty"] not in INT_TYPES:
            continue
        I = util.analyse(b)
        p1 = ("param", 1, I.names.get(1))
        selfv = p1 if b.name == "into_abs" else ("load", ("m0",), ("deref", p1))
        signed = imp["self_ty"].startswith("i")
        ok = bool(I.final_states)
        for st in I.final_states:
            r = util.ret_term(st)
            if signed:
                args = [x for x in r[2] if not (isinstance(x, tuple) and x and x[0] == "mem")] if isinstance(r, tuple) and r and r[0] == "call" else []
                ok = ok and isinstance(r, tuple) and r[0] == "call" and str(r[1]).startswith(("core::num::", "std::num::")) and str(r[1]).rsplit("::", 1)[-1] in ("abs", "wrapping_abs") and args == [selfv]
            else:
                ok = ok and r == selfv
        key = "%s|absolute-value" % util.fkey(b)
        seen.add(key)
        if ok:
            col.ok(rid, b.loc(), key, "core abs of the value" if signed else "identity", nontrivial=False)
        else:
            col.violation(rid, key, b.loc(), "%s is not the absolute value of its operand (%s)" % (b.path, "; ".join(tstr(util.ret_term(st))[:60] for st in I.final_states)))
    # a method missing from the impls may be provided by the trait itself as a forwarder to its sibling
    # (`fn into_abs(self) -> Self { self.abs() }`): then the sibling, checked above, is what runs
    provided = {}
    for b in nt.bodies:
        if b.is_closure or nt.impl_of(b) is not None or b.name not in ("abs", "into_abs") or not b.path.endswith("Integer::%s" % b.name):
            continue
        I = util.analyse(b)
        other = "into_abs" if b.name == "abs" else "abs"
        fwd = bool(I.final_states)
        for st in I.final_states:
            r = util.ret_term(st)
            calls = [e for e in st.event_list() if e.kind == "call" and e.extra.get("name") == other and str(e.extra.get("trait") or "").endswith("Integer")]
            fwd = fwd and len(calls) == 1 and r == calls[0].res
        provided[b.name] = fwd
    for ty in INT_TYPES:
        for nm in ("abs", "into_abs"):
            k_ = [x for x in seen if x.startswith("<%s as " % ty) and x.endswith("::%s|absolute-value" % nm)]
            other = "into_abs" if nm == "abs" else "abs"
            k_other = [x for x in seen if x.startswith("<%s as " % ty) and x.endswith("::%s|absolute-value" % other)]
            if not k_ and provided.get(nm) and k_other:
                col.ok(rid, "rlib/num_traits/src/lib.rs", "<%s as Integer>::%s|provided" % (ty, nm), "provided by the trait as a forwarder to %s" % other, nontrivial=False)
                seen.add("<%s as Integer>::%s|provided" % (ty, nm))
    if len(seen) < 48:
        col.violation(rid, "num_traits|coverage", "rlib/num_traits/src/lib.rs", "expected ZERO, ONE, abs and into_abs for the 12 primitive integer types, found %d items" % len(seen))


def rule_gcd(col, gcd, Af, rid="Q2"):
    """gcd takes both absolute values and runs Euclid's remainder loop on them (also used by C07, whose normaliser
    divides by this gcd)"""
    fk = util.fkey
    I = Af(gcd)
    pa, pb = ("param", 1, I.names.get(1)), ("param", 2, I.names.get(2))
    absd = {}
    loop_ok = True
    for st in I.all_end_states():
        evs = st.event_list()
        seen_loop = False
        for e in evs:
            if e.kind == "loop":
                seen_loop = True
            if e.kind == "call" and e.extra.get("name") in ("into_abs", "abs") and not seen_loop:
                for s in subterms(e.args[0]) if e.args[0][0] != "param" else [e.args[0]]:
                    if s in (pa, pb):
                        absd[s] = True
                v = e.extra["argvals"][0]
                if v in (pa, pb):
                    absd[v] = True
            if e.kind == "call" and seen_loop and not e.extra.get("inlined") and e.extra.get("name") not in ("ne", "eq", "rem_assign", "swap", "rem", "clone", "replace", "take", "not"):
                loop_ok = False
    ret_ok = all(util.ret_term(st)[0] == "phi" for st in I.final_states)
    key = "%s|abs-both" % fk(gcd)
    if absd.get(pa) and absd.get(pb):
        col.ok(rid, gcd.loc(), key, "both operands go through into_abs before the loop")
    else:
        col.violation(rid, key, gcd.loc(), "gcd does not take the absolute value of %s before the remainder loop: the result can be negative" % ("both operands" if not absd else "one operand"))
    key = "%s|remainder-loop" % fk(gcd)
    loop_ok = ret_ok = _euclid_loop(I, pa, pb)
    if loop_ok and ret_ok:
        col.ok(rid, gcd.loc(), key, "loop body is `a %= b; swap(a, b)` on the absolute values; returns the loop variable")
    else:
        col.violation(rid, key, gcd.loc(), "gcd's loop is not the remainder/swap loop over the absolute values")


def gcd_analyser(prog, crate, fixture=None, extra=()):
    free = list(extra) + [f for f in crate.bodies if not f.is_closure and f.kind == "Fn" and f.container is None and f.vis != "pub" and not util.self_recursive(f)]
    # methods the Integer / ZeroOne traits provide themselves (`fn is_zero(&self) -> bool { *self == Self::ZERO }`) are what a
    # call on the type parameter runs unless an impl overrides them (none of the primitive impls may: checked by Q4's coverage)
    nt_ = prog.crates.get("rlib_num_traits") if not fixture else None
    if nt_ is not None:
        overridden = {it["name"] for i_ in nt_.impls for it in i_["items"]}
        free += [b_ for b_ in nt_.bodies if not b_.is_closure and nt_.impl_of(b_) is None and b_.kind == "AssocFn" and not util.self_recursive(b_) and b_.name not in overridden]
    # Option/bool combinators with closures are case splits; `x op= y` on the type parameter is x := x op y
    return util.analyser(free, features=("comb", "fncall", "opassign"))


def check(col, prog, tier, profile, fixture=None):
    crate = prog.crate(fixture or "rlib_gcd")
    Af = gcd_analyser(prog, crate, fixture)
    fk = util.fkey
    gcd = util.need_body(crate, "gcd")
    lcm = util.need_body(crate, "lcm")
    egcd = util.need_body(crate, "egcd")
    crt = util.need_body(crate, "crt")
    col.rule("Q1", "egcd: Some((x,y)) implies a*x + b*y = c (inductive polynomial identity); None only from the base test or propagation", floor=4)
    col.rule("Q2", "gcd on absolute values by a remainder loop; lcm = |a| / gcd * |b|", floor=4)
    col.rule("Q3", "crt: egcd(m1, -m2, a2-a1); x reduced as ((x % k) + k) % k, k = m2/g; result m1*x + a1", floor=3)

    # ---------------- Q1
    I = Af(egcd)
    a, b, c = (("param", i, I.names.get(i)) for i in (1, 2, 3))
    nsome = 0
    for st in I.final_states:
        ret = util.ret_term(st)
        evs = st.event_list()
        rec = [e for e in evs if _is(e, egcd)]
        if ret[0] == "agg" and isinstance(ret[1], tuple) and ret[1][0] == "adt" and ret[1][3] == "Some":
            nsome += 1
            tup = ret[2][0]
            if not (tup[0] == "agg" and len(tup[2]) == 2):
                col.violation("Q1", "%s|result-shape" % fk(egcd), egcd.loc(), "Some(..) does not carry a pair: %s" % tstr(tup))
                continue
            T = Translator()
            e0, e1 = T.poly(tup[2][0]), T.poly(tup[2][1])
            goal = T.poly(a) * e0 + T.poly(b) * e1 - T.poly(c)
            hyps = []
            for r in rec:
                # post-condition of the recursive call on its own arguments and its unwrapped result
                A, B, C = (T.poly(x) for x in r.args[:3])
                base = None
                for s in list(subterms(tup)):
                    if s[0] == "proj" and any(x == r.res for x in subterms(s[2])) and s[2][0] != "proj":
                        pass
                # the unwrapped pair: the common prefix R with R.0 and R.1 used
                cands = set()
                for s in subterms(tup):
                    if s[0] == "proj" and s[1] in (0, 1) and any(x == strip_mem(r.res) or x == r.res for x in subterms(s[2])):
                        cands.add(s[2])
                for Rv in cands:
                    X, Y = T.poly(("proj", 0, Rv)), T.poly(("proj", 1, Rv))
                    hyps.append(A * X + B * Y - C)
            zeros = [z for z in (_zero_fact(f, T) for f in st.facts) if z is not None]
            polys = T.apply_division_axioms([goal] + hyps + zeros)
            goal2, hyps2, zeros2 = polys[0], polys[1 : 1 + len(hyps)], polys[1 + len(hyps) :]
            # facts of the form  var == 0  (after the axioms) are substitutions
            for z in zeros2:
                v = z.single_var()
                if v is not None:
                    goal2 = goal2.subst(v, Poly.const(0))
                    hyps2 = [h.subst(v, Poly.const(0)) for h in hyps2]
            ok = goal2.is_zero() or any((goal2 - h).is_zero() or (goal2 + h).is_zero() for h in hyps2)
            kind = "step" if rec else "base"
            key = "%s|vc-%s" % (fk(egcd), kind)
            if ok:
                col.ok("Q1", egcd.loc(), key, "a*x + b*y - c reduces to %s" % ("0 by the division axiom and the path facts" if not rec else "the recursive call's post-condition"))
            else:
                col.violation("Q1", key, egcd.loc(), "egcd returns a pair that does not satisfy a*x + b*y = c: the residual polynomial is  %s  (hypotheses: %s)" % (goal2, "; ".join(repr(h) for h in hyps2) or "none"))
        else:
            # None: base test failed, or propagated from the recursive call
            prop = _none_of(st, rec)
            T = Translator()
            base = False
            for f in st.facts:
                t = f[1]
                if isinstance(t, tuple) and t and t[0] == "call" and str(t[1]).endswith(("PartialEq::ne", "PartialEq::eq")) and f[0] in ("eq", "ne"):
                    truth = (f[0] == "eq") == bool(f[2])
                    differs = truth if str(t[1]).endswith("::ne") else not truth
                    if differs and any(s[0] == "call" and str(s[1]).endswith("Rem::rem") for s in subterms(t)):
                        base = True
            # ... or the degenerate equation 0*x + 0*y = c with c != 0, which has no solution: a == 0, b == 0 and c != 0 are
            # all facts of the path
            def _zero_truth(f_, k_):
                t_ = f_[1]
                if not (isinstance(t_, tuple) and t_ and t_[0] == "call" and str(t_[1]).endswith(("PartialEq::ne", "PartialEq::eq")) and f_[0] in ("eq", "ne") and f_[2] in (0, 1)):
                    return None
                as_ = [x_[1][1] if (isinstance(x_, tuple) and x_ and x_[0] == "ref" and x_[1][0] == "constval") else (x_[1][1] if (isinstance(x_, tuple) and x_ and x_[0] == "ref" and x_[1][0] == "deref") else x_) for x_ in t_[2] if not (isinstance(x_, tuple) and x_ and x_[0] == "mem")]
                if len(as_) != 2:
                    return None
                pk_ = ("param", k_, I.names.get(k_))
                if not (pk_ in as_ and any(isinstance(x_, tuple) and x_ and x_[0] == "assoc" and "ZERO" in tstr(x_) for x_ in as_)):
                    return None
                truth_ = (f_[0] == "eq") == bool(f_[2])
                return truth_ if str(t_[1]).endswith("::eq") else not truth_
            zt_ = {k_: [v_ for v_ in (_zero_truth(f_, k_) for f_ in st.facts) if v_ is not None] for k_ in (1, 2, 3)}
            degenerate = zt_[1] == [True] * len(zt_[1]) and zt_[1] and zt_[2] and all(zt_[2]) and zt_[3] and not any(zt_[3])
            if degenerate and not prop and not base:
                col.ok("Q1", egcd.loc(), "%s|none-degenerate" % fk(egcd), "None for a == 0, b == 0, c != 0 (no solution exists)", nontrivial=False)
                continue
            key = "%s|none-%s" % (fk(egcd), "propagated" if prop else "base-test")
            if prop or base:
                col.ok("Q1", egcd.loc(), key, "None only from %s" % ("`?` on the recursive call" if prop else "the failed divisibility test c % b != 0"))
            else:
                col.violation("Q1", "%s|none-origin" % fk(egcd), egcd.loc(), "egcd returns None on a path that is neither the failed divisibility test nor propagation of the recursive None")
    if nsome < 2:
        col.violation("Q1", "%s|paths" % fk(egcd), egcd.loc(), "expected a base and a recursive Some-returning path in egcd")
    # ... and it gets there: every division / remainder of the solver has a divisor the path has shown non-zero, except the
    # base test `c % b` under a == 0 (a = b = 0 is outside the contract).  `egcd(a, 0, c)`, a != 0, is inside it.
    col.rule("Q6", "egcd divides only by a value the path has compared unequal to zero, or by b in the base case a == 0", floor=3)
    seen_div = set()
    for st in I.all_end_states():
        for e in st.event_list():
            if e.kind != "call" or str(e.extra.get("trait") or "").split("::")[-1] not in ("Rem", "Div", "RemAssign", "DivAssign") or len(e.args or ()) < 2 or e.bb in seen_div:
                continue
            T = Translator()
            av_ = (e.extra.get("argvals") or [None, None])
            dv_ = av_[1] if len(av_) > 1 and av_[1] is not None else e.args[1]   # (a divisor passed by reference: the value behind it)
            try:
                d = T.value_of(dv_)
            except Exception:  # noqa: BLE001
                d = None
            facts = e.state[0] if getattr(e, "state", None) else st.facts
            nz, zs = [], []
            for f in facts:
                t = f[1]
                if not (isinstance(t, tuple) and t and t[0] == "call" and str(t[1]).endswith(("PartialEq::eq", "PartialEq::ne")) and f[0] in ("eq", "ne")):
                    continue
                args_ = [x for x in t[2] if not (isinstance(x, tuple) and x and x[0] == "mem")]
                if len(args_) != 2:
                    continue
                truth = (f[0] == "eq") == bool(f[2])
                equal = truth if str(t[1]).endswith("::eq") else not truth
                try:
                    p = T.value_of(args_[0]) - T.value_of(args_[1])
                except Exception:  # noqa: BLE001
                    continue
                (zs if equal else nz).append(p)
            key = "%s|divisor|%s" % (fk(egcd), tstr(dv_)[:60])
            if d is None:
                col.violation("Q6", key, egcd.loc(e.bb), "cannot read the divisor of %s" % tstr(e.res)[:80])
                continue
            shown = any((d - p).is_zero() or (d + p).is_zero() for p in nz)
            base = (d - T.value_of(b)).is_zero() and any((p - T.value_of(a)).is_zero() or (p + T.value_of(a)).is_zero() for p in zs)
            if shown or base:
                seen_div.add(e.bb)
                col.ok("Q6", egcd.loc(e.bb), key, "divisor compared unequal to zero on this path" if shown else "base case: a == 0, divisor b")
            else:
                col.violation("Q6", key, egcd.loc(e.bb), "egcd divides by %s on a path that has not shown it non-zero (and is not the base case a == 0): a zero coefficient inside the contract panics instead of being solved" % tstr(dv_)[:80])

    # ---------------- Q2
    rule_gcd(col, gcd, Af)
    if not fixture:
        rule_integer_prims(col, prog)
    # an entry point that hands its work to another free function of the crate (`lcm` = `try_lcm(a, b).expect(..)`) is read
    # together with it
    lk_ = {util.callee_key(t) for bb, t in lcm.calls()}
    deleg_ = [f for f in crate.bodies if f.key in lk_ and not f.is_closure and f.kind == "Fn" and f.container is None and f.key not in (gcd.key, egcd.key, crt.key, lcm.key) and not util.self_recursive(f)]
    I = (gcd_analyser(prog, crate, fixture, extra=deleg_) if deleg_ else Af)(lcm)
    la, lb = ("param", 1, I.names.get(1)), ("param", 2, I.names.get(2))

    def _unref(x):
        return x[1][1] if isinstance(x, tuple) and x and x[0] == "ref" and x[1][0] == "constval" else x

    def _is_abs(x):
        return isinstance(x, tuple) and x and x[0] == "call" and str(x[1]).split("::")[-1] in ("abs", "into_abs")

    def _operand_of(x):
        """which of lcm's parameters the term is (through clones, references and abs)"""
        x = _unref(x)
        while isinstance(x, tuple) and x and x[0] == "call" and str(x[1]).split("::")[-1] in ("abs", "into_abs", "clone"):
            inner = [y for y in x[2] if not (isinstance(y, tuple) and y and y[0] == "mem")]
            x = _unref(inner[0]) if inner else None
        if isinstance(x, tuple) and x and x[0] == "ref" and x[1][0] == "deref":
            x = x[1][1]
        return x if x in (la, lb) else None

    for st in I.final_states:
        ret = util.ret_term(st)
        ok = ret[0] == "call" and str(ret[1]).endswith("Mul::mul")
        if ok:
            args = [x for x in ret[2] if not (isinstance(x, tuple) and x and x[0] == "mem")]
            lhs, rhs = args[0], args[1]
            rv = _unref(rhs)
            ok = lhs[0] == "call" and str(lhs[1]).endswith("Div::div") and _is_abs(rv)
            if ok:
                dargs = [x for x in lhs[2] if not (isinstance(x, tuple) and x and x[0] == "mem")]
                num = dargs[0]
                den = _unref(dargs[1])
                ok = _is_abs(num) and den[0] == "call" and str(den[1]).split("::")[-1] == "gcd"
                if ok:
                    # |x| / gcd(..) * |y| with {x, y} = {a, b}; gcd's operands are a and b (their sign is irrelevant: gcd takes
                    # absolute values itself, checked above)
                    gargs = [_operand_of(x) for x in den[2] if not (isinstance(x, tuple) and x and x[0] == "mem")]
                    ok = {_operand_of(num), _operand_of(rv)} == {la, lb} and set(gargs) == {la, lb}
        key = "%s|abs-div-mul" % fk(lcm)
        if not ok and deleg_:
            # through the delegate: the `None` the entry unwraps is a panic, not a result; zero for a zero operand is the product
            if tstr(ret).startswith("(Option::None"):
                # the delegate refuses (and the entry panics) only when the product does not fit: q > MAX / |b| for the
                # quotient q = |a| / gcd - a non-strict test also refuses q * |b| == MAX - (MAX mod |b|), which fits
                def _refusal(f_):
                    t_ = f_[1]
                    if not (f_[0] == "eq" and isinstance(t_, tuple) and t_[0] == "call"):
                        return False
                    nm_ = str(t_[1]).split("::")[-1]
                    as_ = [_unref(x_) for x_ in t_[2] if not (isinstance(x_, tuple) and x_ and x_[0] == "mem")]
                    if len(as_) != 2 or nm_ not in ("gt", "lt", "le", "ge"):
                        return False
                    # normalise to  big > small  being true
                    if (nm_, f_[2]) in (("gt", 1), ("le", 0)):
                        big, small = as_
                    elif (nm_, f_[2]) in (("lt", 1), ("ge", 0)):
                        small, big = as_
                    else:
                        return False
                    def _is_div(x_):
                        return isinstance(x_, tuple) and x_ and x_[0] == "call" and str(x_[1]).endswith("Div::div")
                    if not (_is_div(big) and _is_div(small)):
                        return False
                    sa_ = [_unref(x_) for x_ in small[2] if not (isinstance(x_, tuple) and x_ and x_[0] == "mem")]
                    ba_ = [_unref(x_) for x_ in big[2] if not (isinstance(x_, tuple) and x_ and x_[0] == "mem")]
                    return (sa_[0][0] == "assoc" and "MAX" in tstr(sa_[0]) and _is_abs(sa_[1]) and _is_abs(ba_[0])
                            and ba_[1][0] == "call" and str(ba_[1][1]).split("::")[-1] == "gcd" and {_operand_of(sa_[1]), _operand_of(ba_[0])} == {la, lb})
                if any(_refusal(f_) for f_ in st.facts):
                    col.ok("Q2", lcm.loc(), key + "|refuses-only-overflow", "None (a panic in lcm) only under |a|/gcd > MAX/|b|", nontrivial=False)
                else:
                    col.violation("Q2", key + "|refuses-a-fitting-result", lcm.loc(), "lcm gives up (the delegate returns None, the entry panics) on a path that is not guarded by |a|/gcd > MAX/|b|: a least common multiple that fits the type is refused")
                continue
            def _zero_test(f_):
                t_ = f_[1]
                if not (f_[0] == "eq" and f_[2] == 1 and isinstance(t_, tuple) and t_[0] == "call" and str(t_[1]).split("::")[-1] == "eq"):
                    return False
                as_ = [_unref(x_) for x_ in t_[2] if not (isinstance(x_, tuple) and x_ and x_[0] == "mem")]
                return any(_is_abs(x_) and _operand_of(x_) in (la, lb) for x_ in as_) and any(isinstance(x_, tuple) and x_ and x_[0] == "assoc" and "ZERO" in tstr(x_) for x_ in as_)
            if isinstance(ret, tuple) and ret[0] == "assoc" and "ZERO" in tstr(ret) and any(_zero_test(f_) for f_ in st.facts):
                col.ok("Q2", lcm.loc(), key + "|zero-operand", "zero for a zero operand", nontrivial=False)
                continue
        if ok:
            col.ok("Q2", lcm.loc(), key, "(|a| / gcd(a, b)) * |b|")
            col.ok("Q2", lcm.loc(), key + "|order", "division before multiplication", nontrivial=False)
        else:
            col.violation("Q2", key, lcm.loc(), "lcm is not (|a| / gcd(a,b)) * |b| with the division first: sign or overflow behaviour changes (%s)" % tstr(ret))

    # ---------------- Q5: the four routines are functions of their arguments (no state survives a call)
    if not fixture:
        col.rule("Q5", "gcd, lcm, egcd, crt and everything they reach hold no state: no static, thread-local, interior mutability, clock, IO or unsafe code", floor=4)
        reach, _ext = util.reachable_calls(prog, [b_ for b_ in (gcd, lcm, egcd, crt) if b_ is not None])
        for _k, b_ in sorted(reach.items()):
            if b_.crate.name not in ("rlib_gcd", "rlib_num_traits"):
                continue
            bad = util.impure_constructs(b_)
            key = "%s|effects" % fk(b_)
            if bad:
                col.violation("Q5", key, b_.loc(), "%s is reachable from gcd / lcm / egcd / crt and is not a function of its arguments (%s): a result can depend on the calls made before" % (b_.path, ", ".join(bad)))
            else:
                col.ok("Q5", b_.loc(), key, "no static / thread-local / clock / IO / unsafe", nontrivial=False)

    # ---------------- Q3
    I = Af(crt)
    a1, m1, a2, m2 = (("param", i, I.names.get(i)) for i in (1, 2, 3, 4))
    for st in I.final_states:
        ret = util.ret_term(st)
        evs = st.event_list()
        eg = [e for e in evs if _is(e, egcd)]
        if not (ret[0] == "agg" and ret[1][3] == "Some"):
            prop = _none_of(st, eg)
            if prop:
                col.ok("Q3", crt.loc(), "%s|none-propagated" % fk(crt), "None only when the solver has no solution")
            else:
                col.violation("Q3", "%s|none-origin" % fk(crt), crt.loc(), "crt returns None without the solver returning None")
            continue
        T = Translator()
        ok_call = len(eg) == 1 and T.poly(eg[0].args[0]) == T.poly(m1) and T.poly(eg[0].args[1]) in (-T.poly(m2), T.poly(m2)) and T.poly(eg[0].args[2]) == T.poly(a2) - T.poly(a1)
        key = "%s|solver-call" % fk(crt)
        if ok_call:
            # the sign of m2 only flips y: x solves m1*x = a2 - a1 (mod m2) either way, and only x is used (checked below)
            col.ok("Q3", crt.loc(eg[0].bb), key, "egcd(m1, -m2 or m2, a2 - a1)")
        else:
            col.violation("Q3", key, crt.loc(), "crt must solve m1*x -+ m2*y = a2 - a1")
        # result = m1 * X + a1 with X = ((x % k) + k) % k, k = m2 / gcd(m1, m2)
        val = ret[2][0]
        res = T.poly(val)
        okshape = False
        detail = repr(res)
        rems = [d for d in T.divs.values()]
        # find X: the rem atom whose dividend is (rem(x,k) + k)
        for d in T.divs.values():
            Xv = Poly.var(d["r"])
            if (res - (T.poly(m1) * Xv + T.poly(a1))).is_zero():
                k = d["Y"]
                inner = d["X"] - k
                iv = inner.single_var()
                if iv is not None and iv[0] == "rem":
                    d2 = [x for x in T.divs.values() if x["r"] == iv]
                    if d2 and d2[0]["Y"] == k:
                        # k = m2 / gcd(m1, m2)
                        kv = k.single_var()
                        if kv is not None and kv[0] == "div":
                            dk = [x for x in T.divs.values() if x["q"] == kv][0]
                            g = dk["Y"].single_var()
                            okshape = dk["X"] == T.poly(m2) and g is not None and g[0] == "call" and str(g[1]).split("::")[-1] == "gcd"
                            # the reduced value is the solver's first component
                            x0 = d2[0]["X"].single_var()
                            okshape = okshape and x0 is not None and x0[0] == "proj" and x0[1] == 0
        if not okshape:
            # the same reduction spelled with a sign test:  r = x % k;  r if r >= 0 else r + k   (k > 0 in contract)
            def _unref(v):
                return v[1][1] if isinstance(v, tuple) and v and v[0] == "ref" and v[1][0] == "constval" else v

            def negative(rp):
                """True / False when the path facts decide rp < 0, else None"""
                for f in st.facts:
                    t = f[1]
                    if not (f[0] in ("eq", "ne") and isinstance(t, tuple) and t and t[0] == "call" and "PartialOrd::" in str(t[1])):
                        continue
                    nm = str(t[1]).rsplit("::", 1)[-1]
                    a = [_unref(y) for y in t[2] if not (isinstance(y, tuple) and y and y[0] == "mem")]
                    if len(a) != 2 or nm not in ("lt", "ge", "gt", "le"):
                        continue
                    truth = (f[0] == "eq") == bool(f[2])
                    zero1 = isinstance(a[1], tuple) and a[1] and a[1][0] == "assoc" and a[1][2] == "ZERO"
                    zero0 = isinstance(a[0], tuple) and a[0] and a[0][0] == "assoc" and a[0][2] == "ZERO"
                    if zero1 and nm in ("lt", "ge") and T.poly(a[0]) == rp:
                        return truth if nm == "lt" else not truth
                    if zero0 and nm in ("gt", "le") and T.poly(a[1]) == rp:
                        return truth if nm == "gt" else not truth
                return None

            for d in list(T.divs.values()):
                rp = Poly.var(d["r"])
                k = d["Y"]
                kv = k.single_var()
                x0 = d["X"].single_var()
                if kv is None or kv[0] != "div" or x0 is None or not (x0[0] == "proj" and x0[1] == 0):
                    continue
                dk = [x for x in T.divs.values() if x["q"] == kv]
                g = dk[0]["Y"].single_var() if dk else None
                if not (dk and dk[0]["X"] == T.poly(m2) and g is not None and g[0] == "call" and str(g[1]).split("::")[-1] == "gcd"):
                    continue
                neg = negative(rp)
                if neg is False and (res - (T.poly(m1) * rp + T.poly(a1))).is_zero():
                    okshape = True
                if neg is True and (res - (T.poly(m1) * (rp + k) + T.poly(a1))).is_zero():
                    okshape = True
        key = "%s|canonical-step" % fk(crt)
        if okshape:
            col.ok("Q3", crt.loc(), key, "m1 * (((x % k) + k) % k) + a1 with k = m2 / gcd(m1, m2)")
        else:
            col.violation("Q3", key, crt.loc(), "crt does not reduce the multiplier as ((x mod k) + k) mod k with k = m2/gcd(m1,m2) before forming m1*x + a1: the result can be negative or outside [0, lcm)  [%s]" % detail)
