"""C04 — FFT: history independence as far as it is structural (plan tables sized before use, scratch
re-initialised, single writer), additive *_into contract, output shape.  DESIGN.md §4 C04."""
from .. import util, zones
from ..absint import tstr, mk_int, subterms
from ..core import Anchor

PID = "C04"
LEVEL = "other"
CRATES = ["rlib_fft"]
RELEASE = True
NO_HIDDEN_STATE = ['rlib_fft']   # driver rule STATE: these crates are plain data structures / functions
ARMED = True
ENGINES = ["E1", "E3", "E5"]
TECHNIQUE = "typestate over path events (tables SIZED(k) before any table read, stride divisor equal to the sized argument), event-order rule for scratch re-initialisation, store-shape rule (place = place + ..) for caller destinations incl. closure bodies, who-may-write rule for the plan tables, result-shape terms, operand-type rule on MIR multiplications"
LEVEL_TEXT = (
    "Decides the structural part of 'the result does not depend on what the object computed earlier': every read of the plan tables "
    "(w, reversed) in a public method or in a closure it creates is preceded on every path by update_n(k) (directly or as the first "
    "action of fft_internal), and a stride max_n/x read from the tables uses x == k; every scratch buffer is cleared and zero-resized "
    "before use; only new/update_n write the tables and update_n never shrinks; the *_into variants only ever add into the caller's "
    "destination; multiply returns an empty vector iff an input is empty and otherwise a.len()+b.len()-1 elements; coefficients are never multiplied in i32. Numerical "
    "exactness inside the precision envelope and the packed-transform algebra are NOT decided (floating-point error bounds)."
)
LEVEL_NOTE = "trusted: rustc MIR, exporter, std axioms; Float implementations of the num_traits crate; numerics (rounding) are outside the claim"
EXPLANATION = (
    "P1 tables-sized-before-use: typestate SIZED(k) established by update_n(k) / fft_internal(_, k, _); every index/len of w or "
    "reversed outside new/update_n, and the creation of every closure that reads them, happens in state SIZED; in fft_inv_into and "
    "multiply_into the stride max_n / x has x equal to a sized k. P2 scratch: clear() and resize(n, ZERO) of bufs[k] precede its first "
    "use in fft_into, fft_inv_into, multiply_into. P3 additive destination: every store through the caller's `res` (closure bodies "
    "included) is place = place + value or AddAssign; wrappers pass zero-filled destinations of the documented length. P4 single "
    "P7 (added after seeded change C04-h): every function constructing an FFT aggregate applies update_n(k >= 4) to it before it escapes. writer: w/reversed are mutably borrowed only in new/update_n; update_n returns early when n <= len and asserts a power of two. "
    "P5 shape: multiply returns vec![] iff a or b is empty, else from_elem(0, a.len()+b.len()-1); multiply_into takes at most that many. "
    "P6 integer side: no i32*i32 product in the crate (a coefficient product reaches 1e12 inside the envelope); inputs are converted with from_i32. "
    "NOT decided: exactness of the convolution (floating point), the packed real-FFT algebra, the butterfly strides inside fft_internal."
)
UNDECIDED = [
    "numerical exactness of the convolution inside the precision envelope (floating-point error analysis over all coefficient vectors)",
    "correctness of the packed two-real-sequences transform algebra",
    "butterfly stride max_n/(2*ln) inside fft_internal (needs power-of-two reasoning)",
]
ASSUMPTIONS = ["sizes passed to fft/fft_inv are powers of two as the API documents (debug_assert!)"]
FIXTURES = [
    ("c04_bad_inv_no_update", "bad", ["P1"]),
    ("c04_bad_internal_no_update", "bad", ["P1"]),
    ("c04_bad_stride_other_size", "bad", ["P1"]),
    ("c04_bad_no_clear", "bad", ["P2"]),
    ("c04_good_helper_accumulate", "good", []),
    ("c04_bad_helper_overwrites", "bad", ["P3"]),
    ("c04_bad_into_overwrites", "bad", ["P3"]),
    ("c04_bad_i32_fastpath", "bad", ["P6"]),
    ("c04_good_i64_fastpath", "good", []),
    ("c04_bad_inv_into_assign_first", "bad", ["P3"]),
    ("c04_bad_update_shrinks", "bad", ["P4"]),
    ("c04_bad_multiply_len", "bad", ["P5"]),
]


def is_call_to(ev, body):
    return ev.kind == "call" and (ev.fn.get("resolved") or ev.fn).get("def") == body.key


_FBITS = {("f32", "PI"): 0x40490FDB, ("f64", "PI"): 0x400921FB54442D18, ("f32", "ZERO"): 0, ("f64", "ZERO"): 0, ("f32", "ONE"): 0x3F800000, ("f64", "ONE"): 0x3FF0000000000000}


def _float_prims(col, prog, rid):
    """Float for f32 / f64: PI, ZERO, ONE are the IEEE values; sin, cos, sqrt, abs, round are std's functions of the same name
    applied to the value; from_usize / from_i32 are the int-to-float casts; to_i64 is the float-to-int cast of the (rounded) value"""
    nt = prog.crates.get("rlib_num_traits")
    if nt is None:
        raise Anchor("rlib_num_traits is not part of the export")
    col.rule(rid, "num_traits for f32 / f64: PI, ZERO, ONE; sin, cos, sqrt, abs, round = std's; from_usize / from_i32 / to_i64 = the casts", floor=20)
    imps = {i["key"]: i for i in nt.impls}
    for k in nt.consts:
        imp = imps.get(k.get("parent"))
        if imp is None or (imp["self_ty"], k["name"]) not in _FBITS or not str(imp.get("trait") or "").endswith(("Float", "ZeroOne")):
            continue
        key = "<%s as %s>::%s" % (imp["self_ty"], str(imp.get("trait")).split("::")[-1], k["name"])
        loc = "%s:%d" % (k["span"]["file"], k["span"]["line"])
        if k.get("val") == _FBITS[(imp["self_ty"], k["name"])]:
            col.ok(rid, loc, key, "IEEE bits %#x" % k["val"], nontrivial=False)
        else:
            col.violation(rid, key, loc, "%s has the bit pattern %s, not that of the constant it names: every twiddle factor / identity built on it is off" % (key, k.get("val")))
    for b in nt.bodies:
        imp = nt.impl_of(b)
        if imp is None or not str(imp.get("trait") or "").endswith("Float") or imp["self_ty"] not in ("f32", "f64") or b.is_closure:
            continue
        ty = imp["self_ty"]
        inl = [m for m in nt.bodies if nt.impl_of(m) is imp and m.key != b.key and not m.is_closure and m.kind in ("Fn", "AssocFn")]
        I = util.analyser(inl)(b)
        p1 = ("param", 1, I.names.get(1))
        selfv = ("load", ("m0",), ("deref", p1))
        ok = bool(I.final_states)
        got = ""
        from ..absint import strip_mem
        for st in I.final_states:
            r = strip_mem(util.ret_term(st))
            got = tstr(r)[:80]
            if b.name in ("sin", "cos", "sqrt", "abs", "round"):
                ok = ok and r[0] == "call" and str(r[1]).split("::")[0] in ("std", "core") and ("<impl %s>::%s" % (ty, b.name)) in str(r[1]) and [strip_mem(x) for x in r[2] if not (isinstance(x, tuple) and x and x[0] == "mem")] == [strip_mem(selfv)]
            elif b.name in ("from_usize", "from_i32"):
                ok = ok and r[0] == "cast" and r[1] == "IntToFloat" and r[2] == ty and r[3] == p1
            elif b.name == "to_i64":
                inner = r[3] if r[0] == "cast" and r[1] == "FloatToInt" and r[2] == "i64" else None
                rounded = inner is not None and inner[0] == "call" and str(inner[1]).endswith("::round") and [strip_mem(x) for x in inner[2] if not (isinstance(x, tuple) and x and x[0] == "mem")] in ([strip_mem(selfv)], [("ref", ("deref", p1))])
                ok = ok and inner is not None and (inner == strip_mem(selfv) or rounded)
            else:
                ok = None
        if ok is None:
            continue
        key = "%s|std" % fk_(b)
        if ok:
            col.ok(rid, b.loc(), key, got, nontrivial=False)
        else:
            col.violation(rid, key, b.loc(), "%s is not std's %s of the value (%s)" % (b.path, b.name, got))


def _auto_size(col, crate, rid):
    """fft / fft_into called with n == 0 choose the size themselves: the least power of two >= v.len() (at least 1), as a
    doubling loop from 1 or as usize::next_power_of_two; a size passed by the caller is used as it is.  Private helpers
    (`resolve_size(n, len)`) are judged inlined."""
    col.rule(rid, "n == 0 selects the size automatically: start 1, doubled while it is below the input length; n != 0 is taken as given", floor=2)
    helpers = [m for m in crate.bodies if not m.is_closure and m.kind in ("Fn", "AssocFn") and m.vis != "pub" and not util.self_recursive(m)]
    for nm in ("FFT::<F>::fft", "FFT::<F>::fft_into"):
        b = util.need_body(crate, nm)
        I = util.analyser([h for h in helpers if h.key != b.key])(b)
        pn = [i for i in range(1, b.arg_count + 1) if b.locals[i]["ty"] == "usize"]
        pv = [i for i in range(1, b.arg_count + 1) if b.locals[i]["ty"].startswith("&") and "[i32]" in b.locals[i]["ty"]]
        key = "%s|auto-size" % util.fkey(b)
        if len(pn) != 1 or len(pv) != 1:
            col.violation(rid, key, b.loc(), "%s: cannot identify the size parameter and the input slice" % b.path)
            continue
        Pn, Pv = ("param", pn[0], I.names.get(pn[0])), ("param", pv[0], I.names.get(pv[0]))
        vlen = ("len", ("load", ("m0",), ("deref", Pv)))

        def is_zero(st):
            """True / False / None: what the path knows about n == 0"""
            for f in st.facts:
                t = f[1]
                if f[0] == "eq" and isinstance(t, tuple) and t[:2] in (("bin", "Eq"), ("bin", "Ne")) and {t[2], t[3]} == {Pn, mk_int(0)} and f[2] in (0, 1):
                    return bool(f[2]) == (t[1] == "Eq")
                if f[0] in ("eq", "ne") and t == Pn and f[2] == 0:
                    return f[0] == "eq"
            return None

        # every loop of the function and of the helpers inlined into it: (id used in phi terms, back-edge states, entry environments)
        loops = []
        work = [I]
        while work:
            x_ = work.pop()
            for h_, l_ in x_.backedge_states.items():
                loops.append((x_.uid(h_), l_, x_.loop_entry.get(h_, [])))
            work.extend(getattr(x_, "inlined_subs", []))

        def lt_len(f, hid, val):
            t = f[1]
            return f[0] == "eq" and f[2] == val and isinstance(t, tuple) and t[:2] == ("bin", "Lt") and t[2][0] == "phi" and t[2][1] == hid and t[3] == vlen

        sizing = [(hid, l_, en) for hid, l_, en in loops if any(any(lt_len(f, hid, 1) for f in st.facts) for st in l_)]
        why = None
        fin0 = [st for st in I.final_states if is_zero(st) is True]
        fin1 = [st for st in I.final_states if is_zero(st) is False]
        if not fin0 or not fin1 or len(fin0) + len(fin1) != len(I.final_states):
            why = "the paths do not split on n == 0"
        elif len(sizing) == 1:
            hid, l_, en = sizing[0]
            for st in l_:
                ph = [f[1][2] for f in st.facts if lt_len(f, hid, 1)]
                if not ph or is_zero(st) is not True:
                    why = "a round of the sizing loop does not run under n == 0 and size < v.len()"
                    break
                nv = st.env.get(ph[0][2])
                if nv not in (("bin", "Shl", ph[0], mk_int(1)), ("bin", "Mul", ph[0], mk_int(2)), ("bin", "Mul", mk_int(2), ph[0])):
                    why = "a round of the sizing loop turns the size into %s instead of doubling it" % tstr(nv)[:60]
                    break
                if not en or any(e.get(ph[0][2]) != mk_int(1) for e in en):
                    why = "the sizing loop does not start from 1"
                    break
            if why is None and not all(any(lt_len(f, hid, 0) for f in st.facts) for st in fin0):
                why = "with n == 0 a path reaches the transform without the sizing loop having ended by size >= v.len()"
            if why is None and any(any(lt_len(f, hid, 0) or lt_len(f, hid, 1) for f in st.facts) for st in fin1):
                why = "a size given by the caller is changed"
        elif not sizing:
            # the same value from std: v.len().next_power_of_two() (1 for an empty input)
            def npot(st):
                return [e for e in st.event_list() if e.kind == "call" and e.extra.get("name") == "next_power_of_two" and [x for x in e.args if not (isinstance(x, tuple) and x and x[0] == "mem")] == [vlen]]
            if not all(npot(st) for st in fin0) or any(npot(st) for st in fin1):
                why = "no loop `while n < v.len()` (and no v.len().next_power_of_two()) found on the n == 0 paths"
        else:
            why = "several loops compare a counter with v.len()"
        if why is None:
            col.ok(rid, b.loc(), key, "n == 0: size = 1, doubled while < v.len(); otherwise n as given")
        else:
            col.violation(rid, key, b.loc(), "%s does not choose the transform size as the least power of two >= the input length when called with n == 0: %s" % (b.path, why))


def _empty_guard(col, crate, rid):
    """multiply / multiply_into with an empty operand: the product is empty, nothing is added, nothing is computed (the
    size arithmetic a.len() + b.len() - 1 is not evaluated)"""
    col.rule(rid, "an empty operand makes multiply / multiply_into return at once (empty result / nothing added)", floor=2)
    for nm in ("FFT::<F>::multiply", "FFT::<F>::multiply_into"):
        b = util.need_body(crate, nm)
        I = util.analyse(b)
        key = "%s|empty-operand" % util.fkey(b)
        ps = [("param", i, I.names.get(i)) for i in range(1, b.arg_count + 1) if b.locals[i]["ty"].startswith("&") and "[i32]" in b.locals[i]["ty"]]
        if len(ps) != 2:
            col.violation(rid, key, b.loc(), "%s: cannot identify the two operand slices" % b.path)
            continue

        def empty_fact(st, p):
            """True / False / None: the path knows p is empty / non-empty / nothing"""
            ln = ("len", ("load", ("m0",), ("deref", p)))
            for f in st.facts:
                t = f[1]
                if f[0] == "eq" and isinstance(t, tuple) and t[:2] == ("bin", "Eq") and ln in (t[2], t[3]) and mk_int(0) in (t[2], t[3]) and f[2] in (0, 1):
                    return bool(f[2])
                if f[0] in ("eq", "ne") and isinstance(t, tuple) and t and t[0] == "call" and str(t[1]).endswith("::is_empty") and f[2] in (0, 1) and any(x == ("ref", ("deref", p)) or x == p for x in t[2]):
                    return (f[0] == "eq") == bool(f[2])
            return None

        why = None
        n_early = 0
        for st in I.final_states + I.diverged:
            e = [empty_fact(st, p) for p in ps]
            busy = [ev for ev in st.event_list() if ev.kind in ("store", "loop") or (ev.kind == "call" and ev.extra.get("name") not in ("is_empty", "len", "new", "from_elem", "into_vec", "exchange_malloc", "box_new_uninit", "write_via_move"))]
            if True in e:
                n_early += 1
                if busy and st in I.final_states and any(ev.kind in ("store", "loop") or (ev.kind == "call" and ev.extra.get("name") in ("fft_internal", "multiply_into", "update_n", "resize", "clear")) for ev in busy):
                    why = "a path with an empty operand goes on to compute"
            elif not (e[0] is False and e[1] is False):
                why = "a path computes the product without having tested both operands for emptiness"
        if why is None and not n_early:
            why = "no return for an empty operand"
        if why is None:
            col.ok(rid, b.loc(), key, "returns at once when a or b is empty; otherwise both are known non-empty")
        else:
            col.violation(rid, key, b.loc(), "%s: %s (a.len() + b.len() - 1 underflows for two empty operands; the into-variant must add nothing)" % (b.path, why))


def fk_(b):
    return util.fkey(b)


def check(col, prog, tier, profile, fixture=None):
    crate = prog.crate(fixture or "rlib_fft")
    sfx = "" if profile == "dev" else "@" + profile
    fk = util.fkey
    adt = util.need_adt(crate, "FFT")
    fields = [f["name"] for f in util.fields_of(adt)]
    ftys = [str(f["ty"]).replace("alloc::", "std::") for f in util.fields_of(adt)]
    # the private fields are recognised by their types: the bit-reversal table Vec<usize>, the twiddle table
    # Vec<Complex<F>>, the scratch buffers [Vec<Complex<F>>; K]
    rev_c = [i for i, t in enumerate(ftys) if t.startswith("std::vec::Vec<usize")]
    w_c = [i for i, t in enumerate(ftys) if t.startswith("std::vec::Vec<") and "Complex<" in t]
    bufs_c = [i for i, t in enumerate(ftys) if t.startswith("[std::vec::Vec<") and "Complex<" in t]
    if len(rev_c) != 1 or len(w_c) != 1 or len(bufs_c) != 1:
        raise Anchor("FFT: cannot identify the plan tables and scratch buffers among the fields %s" % list(zip(fields, ftys)))
    W, REV, BUFS = w_c[0], rev_c[0], bufs_c[0]
    fn = {}
    for nm in ("new", "update_n", "fft", "fft_into", "fft_inv", "fft_inv_into", "multiply", "multiply_into"):
        fn[nm] = util.need_body(crate, "FFT::<F>::%s" % nm)
    # the private in-place transform is recognised by what it does: the non-public method behind the public transforms
    # that sizes the plan (calls update_n) — under any name
    fn["fft_internal"] = util.resolve_role(crate, [fn["fft_into"], fn["fft_inv_into"], fn["multiply_into"]], "fft_internal",
                                           lambda b_: not util.self_recursive(b_) and any(util.callee_key(t_) == fn["update_n"].key for _bb, t_ in b_.calls()) and b_.arg_count >= 3, "the in-place transform behind fft_into / fft_inv_into / multiply_into", named_ok=lambda _b: True)
    helpers = util.private_helpers(crate, "FFT", exclude=list(fn.values()))
    A = util.analyser(helpers)
    col.rule("P1" + sfx, "plan tables are read only in state SIZED(k); strides divide by the sized k", floor=5)
    col.rule("P2" + sfx, "scratch buffers are cleared and zero-resized before use", floor=3)
    col.rule("P3" + sfx, "*_into only add into the caller's destination; wrappers pass zeroed destinations", floor=7)
    col.rule("P4" + sfx, "w/reversed written only by new/update_n; update_n never shrinks", floor=3)
    col.rule("P5" + sfx, "multiply: empty iff an input is empty, else a.len()+b.len()-1 results", floor=3)
    col.rule("P6" + sfx, "integer coefficients are converted to the float type, never multiplied in a 32-bit integer type", floor=2)

    def table_of(place):
        """'w' / 'reversed' when the place is (inside) one of the plan tables of self"""
        for s in subterms(place):
            if s[0] == "field" and s[2] in (W, REV) and s[1][0] == "deref":
                return "w" if s[2] == W else "reversed"
        return None

    # closures that read the tables (by captured reference)
    table_closures = {}
    for b in crate.bodies:
        if not b.is_closure:
            continue
        for k, t in b.upvar_types().items():
            if t and ("Vec<complex::Complex" in t or "Vec<usize>" in t or "FFT<" in t) and t.startswith("&"):
                table_closures[b.key] = b

    # ---------------- P1
    for nm in ("fft_internal", "fft", "fft_into", "fft_inv", "fft_inv_into", "multiply", "multiply_into"):
        b = fn[nm]
        I = A(b)
        selfp = ("deref", ("param", 1, I.names.get(1)))
        reads = 0
        bad = None
        badstride = None
        for st in I.all_end_states():
            sized = []
            for ev in st.event_list():
                if ev.kind != "call":
                    continue
                if is_call_to(ev, fn["update_n"]):
                    sized.append(ev.args[1])
                    continue
                if is_call_to(ev, fn["fft_internal"]):
                    sized.append(ev.args[2])
                    continue
                tab = None
                for a in ev.args:
                    if isinstance(a, tuple) and a and a[0] == "ref":
                        t_ = table_of(a[1])
                        if t_ and a[1][0] == "field" and a[1][1] == selfp or (t_ and a[1][0] in ("index",) and a[1][1][0] == "field"):
                            tab = t_
                    # closures capturing the tables
                    for s in subterms(a):
                        if s[0] == "agg" and isinstance(s[1], tuple) and s[1] and s[1][0] == "closure" and s[1][1] in table_closures:
                            for op in s[2]:
                                if op[0] == "ref" and table_of(op[1]):
                                    tab = table_of(op[1]) + " (captured by a closure)"
                if tab is None:
                    continue
                reads += 1
                if not sized:
                    bad = (ev, tab)
                # strides: max_n / x in the index expression
                for a in ev.args[1:]:
                    for s in subterms(a):
                        if s[0] == "bin" and s[1] == "Div" and s[2][0] == "len" and table_of(s[2][1][2] if s[2][1][0] == "load" else s[2][1]):
                            if nm != "fft_internal" and not any(s[3] == k for k in sized):
                                badstride = (ev, s)
        key = "%s|tables-sized" % fk(b)
        if bad:
            ev, tab = bad
            col.violation("P1" + sfx, key, b.loc(ev.bb), "%s reads the plan table `%s` on a path where no update_n(k) / fft_internal(_, k, _) has run: on a fresh (or smaller-sized) object the stride is computed from stale tables and the result depends on the object's history" % (b.path, tab))
        elif reads:
            col.ok("P1" + sfx, b.loc(), key, "%d table read(s), all after sizing" % reads)
        else:
            col.ok("P1" + sfx, b.loc(), key + "|no-reads", "no direct table reads", nontrivial=False)
        if badstride:
            ev, s = badstride
            col.violation("P1" + sfx, "%s|stride-divisor" % fk(b), b.loc(ev.bb), "the table stride %s divides by a size that is not the one the tables were sized for: the stride can be zero or wrong" % tstr(s))
        elif reads and nm in ("fft_inv_into", "multiply_into"):
            col.ok("P1" + sfx, b.loc(), "%s|stride-divisor" % fk(b), "stride = max_n / k with k the sized argument")
    # fft_internal sizes first
    b = fn["fft_internal"]
    I = A(b)
    okfirst = True
    for st in I.all_end_states():
        # calls that do not look at the plan tables (argument checks such as n.is_power_of_two(), bufs[B].len())
        # may precede the sizing; the first call that touches w / reversed, or any non-pure call, must be update_n(n)
        def touches_plan(e):
            return any(isinstance(x, tuple) and x and x[0] == "field" and x[2] in (W, REV) for a in e.args for x in ([a] + list(subterms(a))))

        calls = [e for e in st.event_list() if e.kind == "call" and not (e.extra.get("pure") and not touches_plan(e) and not is_call_to(e, fn["update_n"]))]
        if not calls or not is_call_to(calls[0], fn["update_n"]) or calls[0].args[1] != ("param", 3, I.names.get(3)):
            okfirst = False
    if okfirst:
        col.ok("P1" + sfx, b.loc(), "%s|sizes-first" % fk(b), "update_n(n) is the first action on its own size parameter")
    else:
        col.violation("P1" + sfx, "%s|sizes-first" % fk(b), b.loc(), "fft_internal must call update_n(n) on its own size parameter before anything else")

    # ---------------- P2
    for nm in ("fft_into", "fft_inv_into", "multiply_into"):
        b = fn[nm]
        I = A(b)
        verdict = None
        for st in I.all_end_states():
            cleared = {}
            resized = {}
            for ev in st.event_list():
                if ev.kind != "call":
                    continue
                nmc = ev.extra.get("name")
                a0 = ev.args[0] if ev.args else None
                bufk = None
                if isinstance(a0, tuple) and a0 and a0[0] == "ref":
                    for s in [a0[1]] + list(subterms(a0[1])):
                        if s[0] == "index" and s[1][0] == "field" and s[1][2] == BUFS:
                            bufk = s[2]
                if is_call_to(ev, fn["fft_internal"]):
                    k = mk_int(int(ev.fn.get("args", ["", "0"])[-1])) if (ev.fn.get("args") or [""])[-1].isdigit() else mk_int(0)
                    if not (cleared.get(k) and resized.get(k)):
                        verdict = (ev, k)
                    continue
                if bufk is None:
                    continue
                if nmc == "clear":
                    cleared[bufk] = True
                elif nmc == "resize" and cleared.get(bufk):
                    z = ev.args[2]
                    if z[0] == "assoc" and z[2] == "ZERO":
                        resized[bufk] = True
                elif nmc in ("extend_from_slice", "extend") and cleared.get(bufk):
                    resized[bufk] = True  # clear() then extend: every element is freshly written, nothing stale survives
                elif nmc in ("index", "index_mut", "iter", "iter_mut", "deref", "deref_mut", "truncate", "len"):
                    if not (cleared.get(bufk) and resized.get(bufk)):
                        verdict = (ev, bufk)
        key = "%s|scratch-reinitialised" % fk(b)
        if verdict is None:
            col.ok("P2" + sfx, b.loc(), key, "clear() and resize(n, ZERO) precede every use of the scratch buffer")
        else:
            ev, k = verdict
            col.violation("P2" + sfx, key, b.loc(ev.bb), "%s uses scratch buffer bufs[%s] before clearing and zero-filling it: values left by an earlier (larger) computation leak into the result" % (b.path, tstr(k)))

    # ---------------- P3
    into = {"fft_into": 4, "fft_inv_into": 3, "multiply_into": 4}
    nsites = 0
    for nm, respos in into.items():
        b = fn[nm]
        I = A(b)
        resp = ("deref", ("param", respos, I.names.get(respos)))
        # direct stores through res
        for st in I.final_states:
            for ev in st.event_list():
                if ev.kind == "store" and any(s == resp for s in [ev.place] + list(subterms(ev.place))):
                    nsites += 1
                    old = I.load(ev.state[1], ev.place)
                    d = zones.lin_sub(zones.linearize(ev.val), zones.linearize(old))
                    additive = old not in d[0] and any(True for _ in [0]) and (zones.linearize(ev.val)[0].get(old) == 1)
                    key = "%s|direct-store" % fk(b)
                    # a store outside any loop is the length-1 special case: the one coefficient goes to position 0
                    in_loop = any(e_.kind == "loop" for e_ in st.event_list()[: st.event_list().index(ev)]) if ev in st.event_list() else True
                    misplaced = (not in_loop) and (any(x[0] == "call" and str(x[1]).rsplit("::", 1)[-1] in ("last_mut", "last") for x in subterms(ev.place)) or any(x[0] == "index" and x[1] == resp and x[2][0] == "int" and x[2][1] != 0 for x in [ev.place] + list(subterms(ev.place))))
                    if additive and misplaced:
                        col.violation("P3" + sfx, "%s|direct-store-position" % fk(b), b.loc(ev.bb), "%s adds the single coefficient of a length-1 transform into %s, not into position 0 of the caller's destination" % (b.path, tstr(ev.place)))
                    elif additive:
                        col.ok("P3" + sfx, b.loc(ev.bb), key, "res[..] = res[..] + value")
                    else:
                        col.violation("P3" + sfx, key, b.loc(ev.bb), "%s overwrites the caller's destination (%s := %s) instead of adding to it" % (b.path, tstr(ev.place), tstr(ev.val)))
        # ... and stores of a loop body through the items of an iterator over the destination
        # (`for (out, &c) in res.iter_mut().zip(..) { *out += c; }`)
        seen_loop_sites = set()
        for head, sts in list(I.backedge_states.items()) + list(getattr(I, "inl_back_groups", [])):
            ents = I.loop_entry.get(head, []) if not isinstance(head, tuple) else []
            for st in sts:
                evs = st.event_list()
                li = max([k for k, e in enumerate(evs) if e.kind == "loop"] or [0])
                nx = [e for e in evs[li:] if e.kind == "call" and e.extra.get("name") == "next" and e.args and e.args[0][0] == "ref" and e.args[0][1][0] == "local"]
                if not nx or not ents:
                    continue
                srcs = [en_.get(nx[-1].args[0][1][1]) for en_ in ents]   # (however the loop is reached)
                over_res = all(src is not None and any(x[0] == "call" and str(x[1]).rsplit("::", 1)[-1] in ("iter_mut", "into_iter") and any(y == resp for a_ in x[2] for y in [a_] + list(subterms(a_)) if isinstance(a_, tuple)) for x in [src] + list(subterms(src))) for src in srcs)
                if not over_res:
                    continue
                for ev in evs[li:]:
                    if ev.kind == "call" and ev.extra.get("name") == "add_assign" and ev.args and any(x == nx[-1].res for x in subterms(ev.args[0])) and ev.bb not in seen_loop_sites:
                        seen_loop_sites.add(ev.bb)
                        nsites += 1
                        col.ok("P3" + sfx, b.loc(ev.bb), "%s|loop-add-assign" % fk(b), "*out += value for every item of res.iter_mut()")
                        continue
                    if ev.kind != "store" or ev.place[0] != "deref" or not any(x == nx[-1].res for x in subterms(ev.place)) or ev.bb in seen_loop_sites:
                        continue
                    seen_loop_sites.add(ev.bb)
                    nsites += 1
                    old = I.load(ev.state[1], ev.place)
                    additive = zones.linearize(ev.val)[0].get(old) == 1
                    key = "%s|loop-store" % fk(b)
                    if additive:
                        col.ok("P3" + sfx, b.loc(ev.bb), key, "*out = *out + value for every item of res.iter_mut()")
                    else:
                        col.violation("P3" + sfx, key, b.loc(ev.bb), "%s overwrites the caller's destination (%s := %s) instead of adding to it" % (b.path, tstr(ev.place), tstr(ev.val)))
        # closures that receive the destination elements by &mut
        for cb in util.closures_with_helpers(crate, b, helpers):
            tys = [cb.locals[i]["ty"] for i in range(2, cb.arg_count + 1)]
            if not any(t.startswith("(&mut") or t.startswith("&mut") for t in tys):
                continue
            Ic = util.analyse(cb)
            for st in Ic.final_states:
                evs = st.event_list()
                stores = [e for e in evs if e.kind == "store"]
                addas = [e for e in evs if e.kind == "call" and e.extra.get("name") == "add_assign"]
                for e in stores:
                    nsites += 1
                    old = Ic.load(e.state[1], e.place)
                    additive = zones.linearize(e.val)[0].get(old) == 1
                    key = "%s|closure-store" % fk(cb)
                    if additive:
                        col.ok("P3" + sfx, cb.loc(e.bb), key, "*x = *x + y")
                    else:
                        col.violation("P3" + sfx, key, cb.loc(e.bb), "the closure writing the caller's destination in %s assigns (%s := %s) instead of adding: the accumulate-into contract is broken (multiply passes zeros, so no test sees it)" % (b.path, tstr(e.place), tstr(e.val)))
                for e in addas:
                    nsites += 1
                    col.ok("P3" + sfx, cb.loc(e.bb), "%s|closure-add-assign" % fk(cb), "*x += y")
    if nsites < 4:
        col.violation("P3" + sfx, "destination-sites", "-", "expected at least 4 stores into caller destinations, found %d" % nsites)
    # wrappers
    for nm, tgt, argpos in (("fft", "fft_into", 3), ("fft_inv", "fft_inv_into", 2), ("multiply", "multiply_into", 3)):
        b = fn[nm]
        I = A(b)
        ok = False
        for st in I.final_states:
            for ev in st.event_list():
                if is_call_to(ev, fn[tgt]):
                    dest = ev.args[argpos]
                    v = None
                    if dest[0] == "ref":
                        try:
                            v = I.read_pl(st, dest[1]) if dest[1][0] == "local" else None
                        except Exception:
                            v = None
                    vals = ev.extra["argvals"][argpos]
                    cand = vals if vals is not None else v
                    for s in subterms(ev.args[argpos]) if cand is None else [cand] + list(subterms(cand)):
                        if s[0] == "call" and str(s[1]).endswith("from_elem"):
                            z = s[2][0]
                            if z == mk_int(0) or (z[0] == "assoc" and z[2] == "ZERO"):
                                ok = True
        key = "%s|zeroed-destination" % fk(b)
        if ok:
            col.ok("P3" + sfx, b.loc(), key, "passes vec![zero; len] to the accumulate-into variant")
        else:
            col.violation("P3" + sfx, key, b.loc(), "%s must pass a zero-filled destination to %s" % (b.path, tgt))

    # ---------------- P9: the automatic transform size (n == 0): the least power of two >= the input length
    # ---------------- P10: the accumulate-into product of an empty operand returns before touching anything
    if not fixture:
        _auto_size(col, crate, "P9" + sfx)
        _empty_guard(col, crate, "P10" + sfx)

    # ---------------- P8: what the transform stands on for f32 / f64 (rlib_num_traits is among the property's files)
    if not fixture:
        _float_prims(col, prog, "P8" + sfx)

    clone_ok = util.structural_clone_bodies(crate, adt)   # a hand-written Clone verified to copy the plan field by field
    # ---------------- P7: every constructor hands out a plan sized for at least 4 points
    col.rule("P7" + sfx, "every function that builds an FFT value sizes its plan (update_n(k), k >= 4) before the value escapes", floor=1)
    for b in crate.bodies:
        imp = crate.impl_of(b)
        # (a derived Clone copies a sized plan; a derived Default builds one from empty tables and is judged like any constructor)
        if b.is_closure or (imp is not None and imp.get("derived") and not str(imp.get("trait")).endswith("Default")) or b.key in {h.key for h in helpers} or b.key in clone_ok:
            continue
        sites = [(bb, idx) for bb, idx, s_ in b.statements() if s_["k"] == "assign" and s_["rv"]["k"] == "agg" and s_["rv"]["ak"]["k"] == "adt" and s_["rv"]["ak"]["def"] == adt["key"]]
        if not sites:
            continue
        I = A(b)
        okc = bool(I.final_states)
        for st in I.final_states:
            ups = [e for e in st.event_list() if is_call_to(e, fn["update_n"])]
            big = [e for e in ups if len(e.args) > 1 and e.args[1][0] == "int" and e.args[1][1] >= 4]
            ret = util.ret_term(st)
            # the returned value is the local the sizing call was applied to
            okc = okc and bool(big) and ret[0] == "out" and big[-1].args[0] == ("ref", ("local", ret[2]))
        key = "%s|sized" % fk(b)
        if okc:
            col.ok("P7" + sfx, b.loc(sites[0][0], sites[0][1]), key, "built, then update_n(k >= 4) on the same value, then returned")
        else:
            col.violation("P7" + sfx, key, b.loc(sites[0][0], sites[0][1]), "%s hands out an FFT value whose plan tables were not sized with update_n(k), k >= 4: the untangling twiddle index max_n - (max_n >> 2) is only valid for max_n >= 4, a first transform of size 2 on such an object is wrong and the result depends on the object's history" % b.path)

    # ---------------- P4
    writers = set()
    may_write = util.allowed_writers(crate, {"new", "update_n"}, helpers)
    for b in crate.bodies:
        imp = crate.impl_of(b)
        if (imp is not None and imp.get("derived")) or b.key in clone_ok:
            continue
        for bb, idx, s in b.statements():
            if s["k"] != "assign":
                continue
            rv = s["rv"]
            pls = []
            if rv["k"] == "ref" and rv["bk"] == "mut":
                pls.append(rv["place"])
            if any(e[0] == "deref" for e in s["place"]["p"]):
                pls.append(s["place"])
            for pl in pls:
                for e in pl["p"]:
                    if e[0] == "field" and e[1] in (W, REV) and ("Vec<" in (e[3] or "")) and "FFT<" in str(b.locals[pl["l"]]["ty"]) + str((crate.impl_of(b if not b.is_closure else crate.by_key.get(b.parent, b)) or {}).get("self_ty")):
                        root = b if not b.is_closure else crate.by_key.get(b.parent, b)
                        if root.name not in may_write and pl is rv.get("place") and rv["k"] == "ref" and util.mut_borrow_read_only(b, bb, idx):
                            continue  # `let Self { w, reversed, bufs } = self`: a &mut binding that is only ever read
                        writers.add(root.name)
                        if root.name not in may_write:
                            col.violation("P4" + sfx, "%s|writes-plan" % fk(b), b.loc(bb, idx), "%s mutably borrows the plan table `%s`; only new/update_n may write the plan" % (b.path, e[2]))
    col.ok("P4" + sfx, "-", "writers=%s" % ",".join(sorted(writers)), "plan tables written only in %s" % sorted(writers))
    b = fn["update_n"]
    I = A(b)
    n = ("param", 2, I.names.get(2))
    early = False
    pow2 = False
    for st in I.final_states:
        evs = st.event_list()
        if not any(e.kind == "store" or (e.kind == "call" and e.extra.get("name") == "resize") for e in evs):
            z = zones.zone_of(st.facts, I.tys)
            lens = [e.res for e in evs if e.kind == "call" and e.extra.get("name") == "len"]
            if lens and z.entails("Le", n, lens[0]):
                early = True
        for f in st.facts:
            t = f[1]
            if f[0] == "eq" and isinstance(t, tuple) and t[0] == "bin" and ((t[1] == "Eq" and f[2] == 1) or (t[1] == "Ne" and f[2] == 0)):   # (`assert_eq!(n & (n-1), 0)`, or `if n & (n-1) != 0 { panic_helper() }`)
                for side, other in ((t[2], t[3]), (t[3], t[2])):
                    if other == mk_int(0) and side[0] == "bin" and side[1] == "BitAnd" and n in (side[2], side[3]):
                        pow2 = True
            # assert!(n.is_power_of_two())
            if f[0] == "eq" and f[2] == 1 and isinstance(t, tuple) and t[0] == "call" and str(t[1]).endswith("usize>::is_power_of_two") and t[2] and t[2][0] == n:
                pow2 = True
    grow_only = True
    for st in I.all_end_states():
        for e in st.event_list():
            if e.kind == "call" and e.extra.get("name") in ("truncate", "clear", "pop", "drain") and e.args and e.args[0][0] == "ref" and table_of(e.args[0][1]):
                grow_only = False
            if e.kind == "call" and e.extra.get("name") == "resize" and e.args[0][0] == "ref" and table_of(e.args[0][1]):
                z = zones.zone_of(e.state[0], I.tys)
                lens = [x.res for x in st.event_list() if x.kind == "call" and x.extra.get("name") == "len"]
                if not (lens and z.entails("Gt", e.args[1], lens[0]) or (lens and z.entails("Ge", e.args[1], lens[0]))):
                    grow_only = False
    if early and grow_only:
        col.ok("P4" + sfx, b.loc(), "%s|never-shrinks" % fk(b), "returns early when n <= len; resizes only upwards")
    else:
        col.violation("P4" + sfx, "%s|never-shrinks" % fk(b), b.loc(), "update_n must return early for n <= current size and never shrink the tables (a later larger request would otherwise read truncated tables)")
    if pow2:
        col.ok("P4" + sfx, b.loc(), "%s|power-of-two" % fk(b), "asserts n & (n-1) == 0 (or n.is_power_of_two())")
    else:
        col.violation("P4" + sfx, "%s|power-of-two" % fk(b), b.loc(), "update_n does not assert that n is a power of two")

    # ---------------- P5
    b = fn["multiply"]
    I = A(b)
    a, bb_ = ("param", 2, I.names.get(2)), ("param", 3, I.names.get(3))
    nonempty = 0
    for st in I.final_states:
        evs = st.event_list()
        mi = [e for e in evs if is_call_to(e, fn["multiply_into"])]
        ret = util.ret_term(st)
        if mi:
            nonempty += 1
            fe = [e for e in evs if e.kind == "call" and str(e.callee).endswith("from_elem")]
            ok = len(fe) == 1 and fe[0].args[0] == mk_int(0)
            if ok:
                ln = fe[0].args[1]
                lens = {}
                for e in evs:
                    if e.kind == "call" and e.extra.get("name") == "len" and e.args[0][0] == "ref":
                        lens[e.args[0][1]] = e.res
                la = [v for k, v in lens.items() if any(s == a for s in subterms(k))]
                lb = [v for k, v in lens.items() if any(s == bb_ for s in subterms(k))]
                ok = bool(la and lb) and util.lin_equal(ln, ("bin", "Sub", ("bin", "Add", la[0], lb[0]), mk_int(1)))
            same = lambda x, p_: x == p_ or x == ("ref", ("deref", p_))
            ok = ok and same(mi[0].args[1], a) and same(mi[0].args[2], bb_)
            key = "%s|length" % fk(b)
            if ok:
                col.ok("P5" + sfx, b.loc(), key, "vec![0; a.len() + b.len() - 1] filled by multiply_into(a, b, ..)")
            else:
                col.violation("P5" + sfx, key, b.loc(), "multiply must return a.len()+b.len()-1 coefficients computed by multiply_into(a, b, ..)")
        else:
            emp = any(f[0] == "eq" and f[2] == 1 and isinstance(f[1], tuple) and f[1][0] == "call" and str(f[1][1]).endswith("is_empty") for f in st.facts)
            okr = ret[0] == "call" and (str(ret[1]).endswith("Vec::<T>::new") or str(ret[1]).endswith("vec::Vec::new"))
            key = "%s|empty-input" % fk(b)
            if emp and okr:
                col.ok("P5" + sfx, b.loc(), key, "an empty input gives vec![]")
            else:
                col.violation("P5" + sfx, key, b.loc(), "multiply must return an empty vector exactly when an input is empty (returns %s)" % tstr(ret))
    if nonempty == 0:
        col.violation("P5" + sfx, "%s|no-compute-path" % fk(b), b.loc(), "multiply never calls multiply_into")
    b = fn["multiply_into"]
    I = A(b)
    tk = False
    for st in I.final_states:
        for e in st.event_list():
            if e.kind == "call" and e.extra.get("name") == "take":
                lens = [x.res for x in st.event_list() if x.kind == "call" and x.extra.get("name") == "len"]
                tk = tk or any(s[0] == "bin" and s[1] == "Sub" and s[3] == mk_int(1) for s in [e.args[1]])
            # or the destination is narrowed first: res[..k] / res[..min(res.len(), k)] with k = a.len()+b.len()-1
            if e.kind == "call":
                for a_ in e.args:
                    for s in ([a_] + list(subterms(a_))) if isinstance(a_, tuple) else []:
                        if s[0] == "range" and s[1] == ("deref", ("param", 4, I.names.get(4))) and s[2][0] == "agg" and str(s[2][1][1]).endswith("RangeTo"):
                            bound = s[2][2][0]
                            if any(x[0] == "bin" and x[1] == "Sub" and x[3] == mk_int(1) for x in [bound] + list(subterms(bound))):
                                tk = True
    if tk:
        col.ok("P5" + sfx, b.loc(), "%s|take-len" % fk(b), "at most a.len()+b.len()-1 results are added")
    else:
        col.violation("P5" + sfx, "%s|take-len" % fk(b), b.loc(), "multiply_into must add at most a.len()+b.len()-1 coefficients")

    # ---------------- P6: integer coefficients are converted, never multiplied in their narrow type
    # (inside the envelope max|coef|^2 * min(len) <= 1e12 a product of two coefficients reaches 1e12 > 2^31)
    narrow = ("i32",)  # the coefficient type of multiply/multiply_into
    conv = 0
    for b in crate.bodies:
        if b.path.startswith("precision") or "precision::" in b.path:
            continue
        for bb, idx, st_ in b.statements():
            if st_["k"] != "assign" or st_["rv"]["k"] != "bin":
                continue
            rv = st_["rv"]
            if rv["op"].startswith("Mul") and rv.get("opty") in narrow and not (rv["a"]["k"] == "const" and rv["b"]["k"] == "const"):
                col.violation("P6" + sfx, "%s|narrow-product" % fk(b), b.loc(bb, idx), "%s multiplies in %s: inside the published envelope (|coef| up to 1e6 for a length-1 operand) a product of two coefficients exceeds the %s range - panic in debug, silent wrap in release; convert (F::from_i32 / as i64) before multiplying" % (b.path, rv.get("opty"), rv.get("opty")))
        for bb, t in b.calls():
            if (t["fn"].get("name") or "") == "from_i32":
                conv += 1
                col.ok("P6" + sfx, b.loc(bb), "%s|from_i32|%d" % (fk(b), conv), "input coefficient converted to the float type before any arithmetic")
