#!/bin/bash
# usage: run_mirdump.sh <out-dir> [--release] [cargo check args...]   (runs in $REPO, default /repo)
set -e
OUT=$1; shift
REPO=${REPO:-/repo}
PROFILE=()
if [ "$1" = "--release" ]; then PROFILE=(--release); shift; fi
DRV=/verif/tools/mirdump/target/debug/mirdump
[ -x $DRV ] || (cd /verif/tools/mirdump && cargo build --offline >&2)
TD=$(mktemp -d /tmp/vtd.XXXXXX)
trap 'rm -rf $TD' EXIT
mkdir -p $OUT
cd $REPO
CARGO_NET_OFFLINE=true LD_LIBRARY_PATH=$(rustc +nightly --print sysroot)/lib MIRDUMP_OUT=$OUT \
 RUSTFLAGS="-Zmir-opt-level=0 -Awarnings" RUSTC_WORKSPACE_WRAPPER=$DRV CARGO_TARGET_DIR=$TD \
 cargo +nightly check --offline "${PROFILE[@]}" "$@"
