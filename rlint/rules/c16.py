"""C16 — treap heap order by construction, priority provenance, the generator advances.
See DESIGN.md §4 C16."""
from .. import util, zones
from ..absint import tstr, mk_int, subterms
from ..core import Anchor
from . import c03

PID = "C16"
LEVEL = "other"
CRATES = ["rlib_treap"]
RELEASE = True
WORKSPACE_IN_THOROUGH = True  # H3 (who writes the pub priority field) is a whole-workspace rule
ARMED = True
ENGINES = ["E1", "E3", "E4a", "E6"]
TECHNIQUE = "term-flow abstract interpretation: entailment of priority order at merge's root choice, result-assembly equality for splits, who-may-write and backward provenance of the priority field, read-modify-write shape of the per-thread generator draw"
LEVEL_TEXT = (
    "Heap order is maintained by construction on every path (the node returned as root by merge has the smaller-or-equal "
    "priority by the path's own branch facts, in the same direction in both branches; splits return the root itself and only "
    "re-attach parts of its former subtree; any other function linking a foreign tree below a node compares the two priorities "
    "in the same direction first), priorities come from a draw of the rlib_rand generator and nothing else writes "
    "them, and each draw advances persistent generator state. The probabilistic height bound 5*log2(n+1)+20 is not decided."
)
LEVEL_NOTE = "trusted: rustc MIR, exporter, std axioms (Option, Cell get/set, thread_local!); TreapNode fields are public, writes from outside the workspace are outside the analysed program"
EXPLANATION = (
    "H1: in merge, on each path that restructures, the returned root R and the other node O satisfy priority(R) <= priority(O) "
    "(or consistently >=) as an entailment of that path's branch facts; ties go to one side. H2: split_by/split_at return the "
    "root parameter itself as one component and store only components of the recursive result of the root's own child below it "
    "(shared with C03 T4 assembly). H3: the priority field is written only by the TreapNode aggregate in TreapNode::new, with the "
    "result of a function whose call-graph slice reaches the rlib_rand generator's next_raw; no other store to the field in the "
    "exported workspace; the value handed out keeps at least as many raw generator bits as the priority type holds (added after seeded "
    "change C16-a: `>> 53` left 11 bits). H5 (added after seeded change C16-e: a single-pass insert comparing priorities the max-heap way): in every "
    "function of the exported program that stores into a node's left/right link, a stored value built from a tree other than "
    "the node's own former subtree (another parameter, a fresh node) needs priority(node) <= priority(that tree's root) entailed "
    "by the path's facts, in merge's direction, unless the facts say that tree is empty. H4: the draw is Cell::get -> next_raw(&mut local) -> Cell::set(local) on the same thread-local cell on "
    "every path (or next_raw applied directly to persistent state), and the returned priority derives from next_raw's result. "
    "NOT decided: the height bound (a probabilistic statement about the generator's output)."
)
UNDECIDED = ["height <= 5*log2(n+1)+20 (probabilistic; depends on the generator's output distribution)"]
ASSUMPTIONS = ["code outside the workspace does not write TreapNode::priority (public field)"]
FIXTURES = [
    ("c16_good_refcell", "good", []),
    ("c16_bad_const_priority", "bad", ["H3"]),
    ("c16_bad_shift_sizeof", "bad", ["H3"]),
    ("c16_good_shift_bits", "good", []),
    ("c16_bad_reset_stream", "bad", ["H4"]),
    ("c16_bad_no_writeback", "bad", ["H4"]),
    ("c16_bad_merge_left_always", "bad", ["H1"]),
    ("c16_bad_fresh_rng_per_node", "bad", ["H4"]),
    ("c16_bad_insert_max_heap", "bad", ["H5"]),
    ("c16_good_insert_single_pass", "good", []),
    ("c16_bad_wrapper_links_unchecked", "bad", ["H5"]),
]


def check(col, prog, tier, profile, fixture=None):
    crate = prog.crate(fixture or "rlib_treap")
    R = c03.roles(crate)
    fk = util.fkey
    col.rule("H1", "merge: the returned root has the extreme priority by the path's branch facts, same direction in both branches", floor=2)
    col.rule("H2", "splits return the root itself and re-attach only parts of its former subtree", floor=4)
    col.rule("H3", "priority written only in TreapNode::new from a generator draw", floor=2)
    col.rule("H4", "the draw read-modify-writes persistent generator state", floor=1)

    # ---- H1
    b = R.merge
    I = R.A(b)
    L, Rt = ("param", 1, I.names.get(1)), ("param", 2, I.names.get(2))
    dirs = set()
    for st in I.final_states:
        evs = st.event_list()
        rec = [e for e in evs if c03.is_call_to(e, b)]
        if not rec:
            continue
        ret = util.ret_term(st)
        if ret not in (L, Rt):
            col.violation("H1", "%s|root-identity" % fk(b), b.loc(), "merge returns %s which is neither of its arguments on a restructuring path" % tstr(ret))
            continue
        other = Rt if ret == L else L
        # priorities as read at the comparison (memory before the first impure call of the path)
        prios = {}
        for f in st.facts:
            for s in subterms(f[1]):
                if s[0] == "load" and s[2][0] == "field" and s[2][2] == R.PRIO:
                    who = [x for x in subterms(s[2]) if x in (L, Rt)]
                    if who:
                        prios[who[0]] = s
        key = "%s|root-%s" % (fk(b), "left" if ret == L else "right")
        if ret not in prios or other not in prios:
            col.violation("H1", key, b.loc(rec[0].bb), "the choice of the merge root does not depend on a comparison of the two nodes' priorities (no such branch fact on this path)")
            continue
        z = zones.zone_of(st.facts, I.tys)
        le = z.entails("Le", prios[ret], prios[other])
        ge = z.entails("Ge", prios[ret], prios[other])
        if le or ge:
            d = "min" if le else "max"
            if le and ge:
                d = "eq"
            dirs.add(d)
            col.ok("H1", b.loc(rec[0].bb), key, "priority(root) %s priority(other) entailed" % ("<=" if le else ">="))
        else:
            col.violation("H1", key, b.loc(rec[0].bb), "on this path the branch facts do not order priority(returned root) against priority(other node): heap order is not maintained by construction")
    if len(dirs - {"eq"}) > 1:
        col.violation("H1", "%s|direction" % fk(b), b.loc(), "merge is a min-heap in one branch and a max-heap in the other: heap order is not consistent in one direction")

    # ---- H2 (assembly; the same facts C03 T4 checks, restated for heap order)
    for nm_, sb in (("split_at", R.split_at), ("split_by", R.split_by)):
        Is = R.A(sb)
        # a skeleton shared by both splits is judged once per public entry, under that entry's name
        kb_ = fk(R.pub[nm_]) if R.shared_split else fk(sb)
        RP = R.shape[sb.key]["root"]   # the tree parameter, whatever its position (c03._split_shape)
        root = ("param", RP + 1, Is.names.get(RP + 1))
        for st in Is.final_states:
            evs = st.event_list()
            rec = [e for e in evs if c03.is_call_to(e, sb)]
            if not rec:
                continue
            e = rec[0]
            ret = util.ret_term(st)
            a0 = e.args[RP]
            ok = ret[0] == "agg" and len(ret[2]) == 2 and root in ret[2]   # a pair or the worker's own two-part result
            # the recursion is on a child of root and only its results are stored below root
            ok = ok and a0[0] == "load" and c03.child_field_of(a0[2], R) is not None
            stores = [x for x in evs if x.kind == "store" and c03.child_field_of(x.place, R)]
            for s_ in stores:
                v = s_.val
                if v[0] == "agg" and v[1][0] == "adt" and v[1][3] == "None":
                    continue  # take()
                if not (v[0] == "proj" and v[2] == e.res):
                    ok = False
            other = [x for x in (ret[2] if ok else ()) if x != root]
            ok = ok and len(other) == 1 and other[0][0] == "proj" and other[0][2] == e.res
            side = "left" if (a0[0] == "load" and c03.child_field_of(a0[2], R) and c03.child_field_of(a0[2], R)[1] == R.LEFT) else "right"
            key = "%s|%s-going" % (kb_, side)
            if ok:
                col.ok("H2", sb.loc(e.bb), key, "returns root and a part of its former %s subtree; only recursive results are re-attached" % side)
            else:
                col.violation("H2", key, sb.loc(e.bb), "split does not return the root itself with only parts of its own former subtree attached: a descendant can end up above an ancestor")

    # ---- H5: every other function that links nodes
    rule_h5(col, prog, crate, R, dirs, only_crate=bool(fixture))

    # ---- H3 provenance
    gens = _provenance(col, prog, crate, R)

    rule_h3b(col, prog, crate, R, gens)

    # ---- H4
    rule_h4(col, prog, "H4", crate=crate, draw_fns=gens, sole_writer=True)

    # ---- H6: the generator the priorities are drawn from (rlib/rand/src/lcg.rs is among the property's files)
    rc = prog.crates.get("rlib_rand") if not fixture else None
    if rc is not None:
        from . import c14

        # which state bits a priority is made of: [k, k + w) for a right shift by k followed by the cast to the w-bit
        # priority; those bits are a function of the generator taken modulo 2^(k + w)
        pty = util.fields_of(util.need_adt(crate, "TreapNode"))[R.PRIO]["ty"].split("::")[-1]
        for al in getattr(crate, "aliases", []):
            if al.get("name") == pty:
                pty = str(al.get("ty")).split("::")[-1]
        w = {"u8": 8, "u16": 16, "u32": 32, "u64": 64, "usize": 64}.get(pty, 32)
        k = 0
        gk = {g.key for g in gens}
        for m in crate.bodies:
            if m.key in gk or (m.is_closure and m.parent in gk):
                for _bb, _i, st_ in m.statements():
                    rv = st_.get("rv") or {}
                    if st_["k"] == "assign" and rv.get("k") in ("bin", "checked") and rv.get("op") in ("Shr", "ShrUnchecked"):
                        o = (rv.get("ops") or [None, None])[1] if "ops" in rv else rv.get("r")
                        v = (o or {}).get("val") if isinstance(o, dict) else None
                        try:
                            k = max(k, int(v))
                        except (TypeError, ValueError):
                            k = 64
        c14.rule_lcg(col, rc, "H6", consts_from=[crate], low_bits=(min(64, k + w),) if k + w < 64 else ())


def _link_store_blocks(b):
    """basic blocks of b with a MIR store into a TreapNode child link (field named left/right of node type)"""
    out = set()
    for bb, idx, s in b.statements():
        if s["k"] != "assign":
            continue
        p = s["place"]["p"]
        if p and p[-1][0] == "field" and p[-1][2] in ("left", "right") and "TreapNode<" in str(p[-1][3]):
            out.add(bb)
    return out


def _origins(t, R):
    """tree origins a term is built from: node-typed parameters and fresh nodes (calls of TreapNode::new)"""
    out = set()

    def walk(x):
        if not isinstance(x, tuple) or not x:
            return
        if not isinstance(x[0], str):
            for y in x:
                walk(y)
            return
        if x[0] in ("mem", "after", "mphi", "m0"):
            return
        if x[0] == "param":
            out.add(("param", x[1]))
            return
        if x[0] == "call" and x[1] == R.new.path:
            out.add(x)
            return
        for y in x[1:]:
            walk(y)

    walk(t)
    return out


def rule_h5(col, prog, crate, R, dirs, only_crate=False):
    """H5: a store into a node's child link outside the re-attachment of the node's own former subtree needs
    the path's facts to order priority(node) against priority(root of the foreign tree) in merge's direction"""
    fk = util.fkey
    # two link stores per restructuring worker (merge, split_by, split_at; the two splits may share one skeleton)
    col.rule("H5", "every child-link store of a foreign tree is guarded by a priority comparison in merge's direction", floor=2 * len({R.merge.key, R.split_by.key, R.split_at.key}))
    want = "Ge" if dirs == {"max"} else "Le"
    helper_keys = {h.key for h in R.helpers}
    from ..absint import strip_mem

    for c in ([crate] if only_crate else prog.crates.values()):
        for b in c.bodies:
            if b.key in helper_keys:
                continue  # judged inlined into their callers
            blocks = {None: (b, _link_store_blocks(b))}
            if c is crate:
                for h in util.helper_callees(crate, b, R.helpers):
                    hb = _link_store_blocks(h)
                    if hb:
                        blocks[h.path] = (h, hb)
            if not any(v[1] for v in blocks.values()):
                continue
            I = R.A(b) if c is crate else util.analyse(b)
            # parameters that carry (or own) nodes: TreapNode<..> in any wrapping, and the Treap<..> owner of a root
            tree_params = {i for i in range(1, b.arg_count + 1) if "TreapNode<" in str(b.locals[i]["ty"]) or "Treap<" in str(b.locals[i]["ty"])}
            seen = set()
            for st in I.all_end_states() if hasattr(I, "all_end_states") else I.final_states:
                z = None
                for ev in st.event_list():
                    if ev.kind != "store":
                        continue
                    where = blocks.get((ev.extra or {}).get("in"))
                    if where is None or ev.bb not in where[1]:
                        continue
                    loc = where[0].loc(ev.bb)
                    cf = c03.child_field_of(ev.place, R)
                    if not cf:
                        continue
                    X, fld = cf
                    v = ev.val
                    if v[0] == "agg" and isinstance(v[1], tuple) and v[1][0] == "adt" and v[1][3] == "None":
                        continue
                    own = {o for o in _origins(X, R) if o[0] != "param" or o[1] in tree_params}
                    src = {o for o in _origins(v, R) if o[0] != "param" or o[1] in tree_params}
                    foreign = src - own
                    side = "left" if fld == R.LEFT else "right"
                    key = "%s|link-%s|%s" % (fk(b), side, "own" if not foreign else "foreign")
                    if not foreign:
                        if key not in seen:
                            seen.add(key)
                            col.ok("H5", loc, key, "re-attaches (parts of) the node's own former subtree")
                        continue
                    # priorities read on the path
                    xp = [s_ for f in st.facts for s_ in subterms(f[1]) if s_[0] == "load" and s_[2][0] == "field" and s_[2][2] == R.PRIO and strip_mem(s_[2][1]) == strip_mem(X)]
                    bad = None
                    if z is None:
                        z = zones.zone_of(st.facts, I.tys)
                    for o in sorted(foreign, key=str):
                        if o[0] == "param" and _param_none(st.facts, o[1]):
                            continue
                        op = [s_ for f in st.facts for s_ in subterms(f[1]) if s_[0] == "load" and s_[2][0] == "field" and s_[2][2] == R.PRIO and o in _origins(s_[2], R) and not _below_child(s_[2][1], R) and strip_mem(s_[2][1]) != strip_mem(X)]
                        if not xp or not op:
                            bad = "no comparison of the node's priority with the priority of the root of the tree linked below it (%s) on this path" % tstr(o)[:60]
                            break
                        if not any(z.entails(want, a, b_) for a in xp for b_ in op):
                            bad = "the path's facts do not give priority(node) %s priority(root of %s), the order merge maintains" % ("<=" if want == "Le" else ">=", tstr(o)[:60])
                            break
                    if bad:
                        col.violation("H5", key, loc, "%s stores a foreign tree into a node's %s link: %s — heap order is not maintained by construction" % (b.path, side, bad))
                    elif key not in seen:
                        seen.add(key)
                        col.ok("H5", loc, key, "priority(node) %s priority(foreign root) entailed on the path" % ("<=" if want == "Le" else ">="))


def _below_child(pl, R):
    """the node place lies below a child link of another node (not the root of its tree)"""
    for s_ in subterms(pl):
        if isinstance(s_, tuple) and s_ and s_[0] == "field" and s_[2] in (R.LEFT, R.RIGHT):
            return True
    return False


def _param_none(facts, i):
    for f in facts:
        for s_ in subterms(f[1]):
            if s_[0] == "discr" and s_[1][0] == "param" and s_[1][1] == i:
                if c03._known_none(facts, s_[1]):
                    return True
    return False


def _priority_writers(prog, R):
    """(body, bb, idx, kind, operand-json) for every write of TreapNode::priority in the exported program"""
    out = []
    adt_key = None
    for a in R.crate.adts:
        if a["path"].endswith("TreapNode"):
            adt_key = a["key"]
    for c in prog.crates.values():
        for b in c.bodies:
            for bb, idx, s in b.statements():
                if s["k"] != "assign":
                    continue
                rv = s["rv"]
                if rv["k"] == "agg" and rv["ak"]["k"] == "adt" and rv["ak"]["def"] == adt_key:
                    out.append((b, bb, idx, "aggregate", rv["ops"][R.PRIO]))
                pl = s["place"]
                for e in pl["p"]:
                    if e[0] == "field" and e[1] == R.PRIO and e[2] == "priority":
                        out.append((b, bb, idx, "store", None))
            # mutable borrows of the field
            for bb, idx, s in b.statements():
                if s["k"] == "assign" and s["rv"]["k"] == "ref" and s["rv"]["bk"] == "mut":
                    for e in s["rv"]["place"]["p"]:
                        if e[0] == "field" and e[2] == "priority":
                            out.append((b, bb, idx, "mut-borrow", None))
    return out


def _provenance(col, prog, crate, R):
    fk = util.fkey
    gens = []
    writers = _priority_writers(prog, R)
    if not writers:
        raise Anchor("no construction of TreapNode found")
    # a hand-written Clone that is verified to copy field by field hands on priorities that were drawn once, like the derive
    clone_ok = util.structural_clone_bodies(crate, util.need_adt(crate, "TreapNode"))
    writers = [w for w in writers if w[0].key not in clone_ok and not ((crate.impl_of(w[0]) or {}).get("derived") and str((crate.impl_of(w[0]) or {}).get("trait") or "").endswith("clone::Clone"))]   # (`#[derive(Clone)]` likewise; a derived Default would still be a writer)
    may = util.allowed_writers(crate, {R.new.name}, getattr(R, "helpers", []))
    if not any(w[0].key == R.new.key for w in writers) and any(w[0].name in may and w[3] == "aggregate" for w in writers):
        # the node is built by a private constructor helper that new forwards to: new is judged with it inlined
        writers = list(writers) + [(R.new, 0, None, "aggregate", None)]
    # a constructor that takes the priority as a parameter and is fed only by new (`pub fn with_priority(item, priority)`
    # behind `new(item) = with_priority(item, gen_priority())`) is judged through new, with it inlined
    passthrough = []
    for (b, bb, idx, kind, op) in writers:
        if b.key == R.new.key or kind != "aggregate" or util.self_recursive(b):
            continue
        Ib = util.analyse(b)
        pt = bool(Ib.final_states)
        for st in Ib.final_states:
            ret = util.ret_term(st)
            pt = pt and ret[0] == "agg" and len(ret[2]) > R.PRIO and isinstance(ret[2][R.PRIO], tuple) and ret[2][R.PRIO][0] == "param"
        callers = {x.key for x in crate.bodies if not x.is_closure and any(util.callee_key(t_) == b.key for _bb, t_ in x.calls())}
        if pt and callers and callers <= {R.new.key}:
            passthrough.append(b)
    if passthrough and not any(w[0].key == R.new.key for w in writers):
        writers = list(writers) + [(R.new, 0, None, "aggregate", None)]
    for (b, bb, idx, kind, op) in writers:
        loc = b.loc(bb, idx)
        if b.key != R.new.key and b.name in may and b.name != R.new.name and kind == "aggregate":
            # a private constructor helper called only from new: judged through new's inlined analysis
            continue
        if b in passthrough:
            col.ok("H3", loc, "%s|priority-parameter" % fk(b), "builds the node from a priority parameter; its only caller in the crate is TreapNode::new", nontrivial=False)
            continue
        if b.key != R.new.key:
            col.violation("H3", "%s|writes-priority" % fk(b), loc, "%s writes TreapNode::priority (%s); only TreapNode::new may, with a fresh random draw" % (b.path, kind))
            continue
        if kind != "aggregate":
            col.violation("H3", "%s|writes-priority-%s" % (fk(b), kind), loc, "TreapNode::new modifies priority after construction")
            continue
        I = (util.analyser(list(getattr(R, "helpers", [])) + passthrough, features=("fncall",))(b) if passthrough else R.A(b)) if hasattr(R, "A") else util.analyse(b)
        ok = False
        why = "the priority operand is not a call result"
        for st in I.final_states:
            ret = util.ret_term(st)
            if ret[0] == "agg" and len(ret[2]) > R.PRIO:
                p = ret[2][R.PRIO]
                calls = [s for s in subterms(p) if s[0] == "call"]
                for ct in calls:
                    tgt = None
                    for bbx, t in b.calls():
                        if (t["fn"].get("resolved") or t["fn"]).get("path") == ct[1]:
                            tgt = prog.by_key.get((t["fn"].get("resolved") or t["fn"]).get("def"))
                    if tgt is None:
                        # `RNG.with(|cell| ..)` written in place: the closure handed to the std accessor is the source
                        for a_ in ct[2]:
                            if isinstance(a_, tuple) and a_ and a_[0] == "agg" and isinstance(a_[1], tuple) and a_[1] and a_[1][0] == "closure":
                                tgt = prog.by_key.get(a_[1][1]) or tgt
                    if tgt is None:
                        why = "priority comes from %s, which is not an analysed function" % ct[1]
                        continue
                    roots_ = [tgt]
                    for a_ in ct[2]:
                        # a function handed over by name (`with_rng(next_priority)`) runs as part of the callee
                        if isinstance(a_, tuple) and a_ and a_[0] == "fnitem":
                            for x_ in a_[1:]:
                                cb_ = (prog.by_key.get(x_) or crate.body(x_)) if isinstance(x_, str) else None
                                if cb_ is not None:
                                    roots_.append(cb_)
                    reach, ext = util.reachable_calls(prog, roots_)
                    draws = [x for x in reach.values() if x.name == "next_raw" and x.crate.name.startswith(("rlib_rand", "rand")) or (x.name == "next_raw")]
                    if draws:
                        ok = True
                        gens.append(tgt)
                        if len(roots_) > 1:
                            # the functions handed over by name are the generators proper; the callee that runs them
                            # (`with_rng(f)`: load the state, run f on it, store it back) is plumbing
                            gens.extend(roots_[1:])
                            PLUMBING.add(tgt.key)
                        why = "%s -> ... -> %s" % (tgt.path, draws[0].path)
                    else:
                        why = "priority comes from %s whose call graph never reaches the generator's next_raw" % tgt.path
                if not calls:
                    why = "priority is %s" % tstr(p)
        key = "%s|priority-provenance" % fk(b)
        if ok:
            col.ok("H3", loc, key, why)
        else:
            col.violation("H3", key, loc, "node priority is not a pseudo-random draw: %s" % why)
    col.ok("H3", "-", "writers=%d" % len(writers), "all writes of the priority field are in TreapNode::new", nontrivial=False)
    return gens


PLUMBING = set()   # higher-order functions that run a generator function handed to them by name
CONSTS = {}  # call-result terms with a known constant value (size_of::<T>() ...), filled per analysed body


def _const_eval(t):
    if not isinstance(t, tuple) or not t:
        return None
    if t[0] == "int":
        return t[1]
    if t in CONSTS:
        return CONSTS[t]
    if t[0] == "cast" and t[1] == "IntToInt":
        return _const_eval(t[3])
    if t[0] == "call" and str(t[1]).endswith("::from") and t[2] and "convert::From<" in str(t[1]):
        return _const_eval(t[2][0])
    if t[0] in ("bin", "wbin") and len(t) >= 4:
        x, y = _const_eval(t[2]), _const_eval(t[3])
        if x is None or y is None:
            return None
        try:
            return {"Add": x + y, "Sub": x - y, "Mul": x * y, "Shl": x << y if 0 <= y < 128 else None, "Shr": x >> y if 0 <= y < 128 else None, "Div": x // y if y else None, "BitAnd": x & y, "BitOr": x | y}.get(t[1])
        except Exception:
            return None
    return None


_SIZES = {"u8": 1, "i8": 1, "bool": 1, "u16": 2, "i16": 2, "u32": 4, "i32": 4, "f32": 4, "char": 4, "u64": 8, "i64": 8, "f64": 8, "usize": 8, "isize": 8, "u128": 16, "i128": 16}


def _note_consts(evs):
    for e in evs:
        if e.kind == "call" and e.extra.get("name") in ("size_of", "align_of") and "mem::" in str(e.callee):
            a = (e.fn.get("args") or [None])[0]
            if a in _SIZES:
                CONSTS[e.res] = _SIZES[a]


def _entropy_bits(t, draw_pred, memo=None):
    """upper bound on the number of raw generator bits that survive in the value t (None = no draw inside)"""
    if not isinstance(t, tuple) or not t:
        return None
    dp = draw_pred(t)
    if dp:
        return 64 if dp is True else dp
    h = t[0]
    if h == "cast" and t[1] == "IntToInt":
        b = _entropy_bits(t[3], draw_pred)
        w = {"u8": 8, "i8": 8, "u16": 16, "i16": 16, "u32": 32, "i32": 32, "u64": 64, "i64": 64, "usize": 64, "isize": 64, "u128": 128, "i128": 128}.get(t[2], 64)
        return None if b is None else min(b, w)
    if h == "bin" and t[1] == "Shr":
        b = _entropy_bits(t[2], draw_pred)
        k = _const_eval(t[3])
        if b is None:
            return None
        # a shift by an amount the checker cannot evaluate may discard everything
        return max(0, b - k) if k is not None else 0
    if h == "bin" and t[1] == "BitAnd":
        for x, y in ((t[2], t[3]), (t[3], t[2])):
            k = _const_eval(y)
            if k is not None:
                b = _entropy_bits(x, draw_pred)
                return None if b is None else min(b, bin(k & ((1 << 64) - 1)).count("1"))
    if h == "bin" and t[1] == "Rem" and t[3][0] == "int" and t[3][1] > 0:
        b = _entropy_bits(t[2], draw_pred)
        return None if b is None else min(b, max(0, (t[3][1] - 1).bit_length()))
    if h in ("bin", "wbin") and t[1] in ("BitXor", "BitOr", "Add", "Sub", "Mul", "Shl"):
        bs = [_entropy_bits(x, draw_pred) for x in t[2:4]]
        bs = [x for x in bs if x is not None]
        return max(bs) if bs else None
    if h == "call" and str(t[1]).rsplit("::", 1)[-1] in ("rotate_left", "rotate_right"):
        # a rotation keeps the bits of the rotated value; the count contributes its low log2(width) bits at most
        # (`rot.rotate_right(x)` with a 5-bit `rot` yields 32 shifted copies of 32 values, whatever `x` holds)
        args = [x for x in t[2] if isinstance(x, tuple) and x and x[0] != "mem"]
        if len(args) == 2:
            bx, bn = _entropy_bits(args[0], draw_pred), _entropy_bits(args[1], draw_pred)
            if bx is None and bn is None:
                return None
            return (bx or 0) + min(bn or 0, 6)
    if h == "call":
        bs = [_entropy_bits(x, draw_pred) for x in t[2] if isinstance(x, tuple)]
        bs = [x for x in bs if x is not None]
        return max(bs) if bs else None
    return None


def rule_h3b(col, prog, crate, R, gens):
    """the priority keeps as many generator bits as its type can hold"""
    fk = util.fkey
    col.rule("H3", "priority written only in TreapNode::new from a generator draw", floor=2)
    width = {"u8": 8, "u16": 16, "u32": 32, "u64": 64, "usize": 64}.get(util.fields_of(util.need_adt(crate, "TreapNode"))[R.PRIO]["ty"].split("::")[-1], None)
    # Priority may be a type alias: read the field type from the aggregate's MIR local instead
    if width is None:
        for l in R.new.locals:
            pass
        width = 32
    # the field itself must be able to hold them: with fewer than 32 bits equal priorities are unavoidable long before
    # the sizes the property quantifies over, and ties form chains (merge sends every tie to the same side)
    pty = util.fields_of(util.need_adt(crate, "TreapNode"))[R.PRIO]["ty"].split("::")[-1]
    pw = {"u8": 8, "i8": 8, "u16": 16, "i16": 16, "u32": 32, "i32": 32, "u64": 64, "i64": 64, "usize": 64, "isize": 64, "u128": 128, "i128": 128}.get(pty)
    if pw is not None and pw < 32:
        col.violation("H3", "TreapNode|priority-width", R.new.loc(), "the priority field is a %s: only 2^%d distinct priorities, so beyond ~2^%d nodes equal priorities dominate and monotone insertion orders degenerate into chains (the reference width is 32 bits)" % (pty, pw, pw))
    elif pw is not None:
        col.ok("H3", R.new.loc(), "TreapNode|priority-width", "priority field holds %d bits" % pw, nontrivial=False)
    memo = {}

    def fn_bits(b, depth=0):
        """generator bits surviving in the value b returns (min over its paths); None = no draw involved"""
        if b.key in memo:
            return memo[b.key]
        memo[b.key] = None
        if depth > 6:
            return None
        I = util.analyser(util.private_type_helpers(crate))(b)   # (`step(rng) -> Draw { priority, next }` is read in its caller)
        worst = None
        site = None
        for st in I.final_states:
            evs = st.event_list()
            _note_consts(evs)
            draws = [e for e in evs if e.kind == "call" and e.extra.get("name") == "next_raw"]
            inner = {}
            for e in evs:
                if e.kind != "call":
                    continue
                cands = []
                tgt = prog.by_key.get((e.fn.get("resolved") or e.fn).get("def"))
                if tgt is not None and tgt.crate.name == crate.name and tgt.key != b.key:
                    cands.append(tgt)
                for a in e.args:
                    if isinstance(a, tuple) and a and a[0] == "agg" and isinstance(a[1], tuple) and a[1][0] == "closure":
                        cb = crate.by_key.get(a[1][1])
                        if cb is not None:
                            cands.append(cb)
                    if isinstance(a, tuple) and a and a[0] == "fnitem":
                        # a named function passed as the callback (`RNG.with(draw)`)
                        for x in a[1:]:
                            cb = crate.by_key.get(x) if isinstance(x, str) else None
                            if cb is None and isinstance(x, str):
                                cb = crate.body(x)
                            if cb is not None and cb.key != b.key:
                                cands.append(cb)
                vals = [fn_bits(c, depth + 1) for c in cands]
                vals = [v for v in vals if v is not None]
                if vals:
                    inner[e.res] = min(vals)

            def pred(t):
                if any(t == d.res for d in draws):
                    return 64
                return inner.get(t)

            bits = _entropy_bits(util.ret_term(st), pred)
            if bits is not None and (worst is None or bits < worst):
                worst = bits
                site = (draws[0].bb if draws else None)
        memo[b.key] = worst
        memo[(b.key, "site")] = site
        return worst

    for g in gens:
        bits = fn_bits(g)
        rty = g.locals[0]["ty"]
        w = {"u8": 8, "u16": 16, "u32": 32, "u64": 64, "usize": 64}.get(rty, width)
        key = "%s|priority-entropy" % fk(g)
        if bits is None and g.key in PLUMBING and any(fn_bits(o_) is not None for o_ in gens if o_.key != g.key):
            col.ok("H3", g.loc(), key, "%s runs the generator function it is handed; the draw itself is judged there" % g.path, nontrivial=False)
        elif bits is None:
            col.violation("H3", key, g.loc(), "cannot follow the generator output to the value %s returns" % g.path)
        elif bits >= w:
            col.ok("H3", g.loc(), key, "the returned priority keeps %d generator bits (type holds %d)" % (bits, w))
        else:
            col.violation("H3", key, g.loc(), "the priority keeps only %d bits of the generator output although its type holds %d: with 2^%d distinct priorities ties dominate beyond ~2^%d nodes and monotone insertion orders degenerate into chains" % (bits, w, bits, bits))


def rule_h4(col, prog, rid, crate=None, draw_fns=None, sole_writer=False):
    """the draw advances persistent state: Cell::get -> next_raw(&mut local) -> Cell::set(local) on the
    same cell on every path, or next_raw applied directly to a persistent place"""
    crate = crate or prog.crate("rlib_treap")
    fk = util.fkey
    col.rule(rid, "the priority draw read-modify-writes persistent (per-thread) generator state", floor=1)
    # bodies (incl. closures) reachable from the draw function(s) that call next_raw
    if draw_fns is None:
        R = c03.roles(crate)
        draw_fns = [R.new] + list(crate.closures_of(R.new))   # the draw may be written in the constructor itself
        for bbx, t in R.new.calls():
            tgt = prog.by_key.get((t["fn"].get("resolved") or t["fn"]).get("def"))
            if tgt is not None:
                draw_fns.append(tgt)
    reach, ext = util.reachable_calls(prog, draw_fns)
    carriers = util.private_type_helpers(crate)
    carrier_keys = {c_.key for c_ in carriers}
    sites = 0
    accepted = set()   # (body key, bb) of write-backs that belong to a draw
    cell_tys = set()
    for b in reach.values():
        if b.crate.name != crate.name:
            continue
        if b.key in carrier_keys and any(util.callee_key(t_) == b.key for x_ in reach.values() if x_.key != b.key for _bb, t_ in x_.calls()):
            continue   # a step function of a private carrier type (`step(rng) -> Draw { priority, next }`): judged inlined in its callers
        if util.is_readonly_check(crate, b, cell_reads=True):
            # a checker that steps COPIES of the generator to compare them (returns nothing, takes nothing by &mut, writes
            # no cell): what it draws cannot become a priority nor move the persistent state
            continue
        I = util.analyser(carriers)(b) if carriers else util.analyse(b)
        for st in I.final_states:
            evs = [e for e in st.event_list() if e.kind == "call"]
            for i, e in enumerate(evs):
                if e.extra.get("name") != "next_raw":
                    continue
                sites += 1
                recv = e.args[0]
                key = "%s|draw" % fk(b)
                loc = b.loc(e.bb)
                if recv[0] != "ref":
                    # a pointer obtained from a guard / accessor: the generator lives behind it
                    col.ok(rid, loc, key, "next_raw applied in place through %s" % tstr(recv))
                    continue
                pl = recv[1]
                from ..absint import place_is_local, place_root

                if not place_is_local(pl):
                    # applied to persistent memory directly (e.g. through a RefCell/Mutex guard or &mut self)
                    col.ok(rid, loc, key, "next_raw applied in place to %s" % tstr(pl))
                    continue
                l = place_root(pl)[1]
                # where did the local come from? a Cell::get / LocalKey read before, and is it written back after?
                gets = [x for x in evs[:i] if x.extra.get("name") in ("get", "take", "replace") and "Cell" in x.callee]
                sets = [x for x in evs[i + 1 :] if x.extra.get("name") in ("set", "replace") and "Cell" in x.callee]
                cur = e.extra["argvals"][0]
                gets = [g for g in gets if g.res == cur]
                out_val = ("out", e.extra.get("uid", e.bb), l)   # (inlined calls carry (call site, block) as their id)
                wb = [x for x in sets if x.args[1] == out_val and gets and x.args[0] == gets[-1].args[0]]
                if gets and wb:
                    for x in wb:
                        accepted.add((b.key, x.bb))
                        cell_tys.add((x.extra.get("argtys") or ["?"])[0])
                    col.ok(rid, loc, key, "get -> next_raw(&mut local) -> set(local) on the same cell")
                elif not gets:
                    col.violation(rid, key, loc, "the generator passed to next_raw is a fresh local value (%s), not persistent state: every draw returns the same number and all nodes get equal priorities" % tstr(cur))
                else:
                    col.violation(rid, key, loc, "the advanced generator state is not stored back to the cell it was loaded from on this path: the next draw repeats the same priority")
    if sites == 0:
        col.violation(rid, "%s|no-draw" % crate.name, "-", "no call of the generator's next_raw is reachable from the priority source")
    if sole_writer and cell_tys:
        # nobody else may overwrite the persistent generator state (a rewind replays old priorities)
        for b in crate.bodies:
            for bb, t in b.calls():
                fn = t["fn"]
                if "indirect" in fn or fn.get("name") not in ("set", "replace", "swap", "take"):
                    continue
                if "Cell" not in (fn.get("path") or ""):
                    continue
                from .. import effects
                aty = effects._op_ty(b, t["args"][0]) if t["args"] else "?"
                if aty not in cell_tys:
                    continue
                key = "%s|state-write" % fk(b)
                if (b.key, bb) in accepted:
                    col.ok(rid, b.loc(bb), key, "write-back of the advanced generator state (part of a draw)")
                else:
                    col.violation(rid, key, b.loc(bb), "%s overwrites the persistent generator state (%s) outside a draw: the priority stream is rewound or replaced, later nodes repeat earlier priorities and equal priorities degenerate into chains" % (b.path, fn.get("name")))


def _initial_value(I, st, l, g):
    return g.res


def _first_value(I, st, l):
    return st.env.get(l, ("?",))
