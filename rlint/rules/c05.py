"""C05 — DSU: union by size as an entailed fact, size bookkeeping, return value, reset coverage,
find shape, who-may-write.  See DESIGN.md §4 C05."""
from .. import util, zones
from ..absint import subterms, tstr, mk_int
from ..core import Anchor

PID = "C05"
LEVEL = "other"
CRATES = ["rlib_dsu"]
RELEASE = True
ARMED = True
ENGINES = ["E1", "E3", "E4a"]
TECHNIQUE = "path-sensitive term-flow abstract interpretation of MIR + difference-bound entailment of size[x] <= size[y] at the link store; who-may-write and index-provenance rules"
LEVEL_TEXT = (
    "Structural necessary conditions of the property decided on every path of every DSU method in both build profiles "
    "(union-by-size as an entailed relational fact, size bookkeeping, return value, reset coverage, find shape, who-may-write). "
    "It does not decide the connectivity relation over histories; the log2 depth bound follows from D1+D2 by the classical theorem."
)
LEVEL_NOTE = "trusted: rustc MIR construction, the exporter, the std axiom table (Vec index, mem::swap, Range iteration); assumes no usize overflow of sizes"
EXPLANATION = (
    "Static rules over the MIR of rlib_dsu, decided on every path of every DSU method: D1 at the store "
    "parent[x]=y in `un` the branch facts of the path entail size[x] <= size[y] (difference-bound closure; "
    "swap / tuple swap / mirrored if-else are the same input); D2 the size that grows is the new root's and grows by "
    "the other root's size; D3 `false` is returned exactly on the roots-equal path and before any store, `true` only "
    "after both stores; D4 sizes are only read/written at indices that are results of find; D5 new/reset initialise "
    "both arrays over 0..n with parent[i]=i and size[i]=1; D6 find recurses only under parent[v]!=v, stores the "
    "recursion result and returns parent[v]; D7 only new/reset/find/un write the two arrays. With D1+D2 the log2 "
    "depth bound is the classical union-by-size theorem (cited, not re-proved). NOT decided: the connectivity "
    "relation over operation histories as a value statement."
)
UNDECIDED = ["connectivity relation over histories (value-level)", "log2 depth bound itself: follows from D1+D2 by the cited union-by-size theorem"]
ASSUMPTIONS = ["no usize overflow of component sizes (checked in dev profile by the compiler-inserted assertion)", "Vec indexing semantics (std axiom table)"]
FIXTURES = [
    ("c05_bad_noswap_big", "bad", ["D1"]),
    ("c05_bad_size_wrong_root", "bad", ["D2"]),
    ("c05_bad_size_no_find", "bad", ["D4"]),
    ("c05_bad_reset_only_p", "bad", ["D5"]),
    ("c05_bad_reset_conditional", "bad", ["D5"]),
    ("c05_good_reset_clear_resize", "good", []),
    ("c05_good_reset_fill", "good", []),
    ("c05_good_ifelse", "good", []),
]


def roles(crate):
    adt = util.need_adt(crate, "DSU")
    vecs = util.field_index_by_type(adt, lambda t: t.replace("alloc::", "std::") == "std::vec::Vec<usize>")
    if len(vecs) != 2:
        raise Anchor("DSU is expected to have exactly two Vec<usize> fields, found %d" % len(vecs))
    find = util.need_body(crate, "DSU::par")
    if not util.self_recursive(find):
        raise Anchor("DSU::par is expected to be the self-recursive find")
    # parent field = the field stored to in find
    I = util.analyse(find)
    pf = set()
    for st in I.final_states:
        for ev in util.events_of(st, "store"):
            for f in vecs:
                if util.index_into_field(ev.place, f) is not None:
                    pf.add(f)
    if len(pf) != 1:
        raise Anchor("cannot identify the parent array: find stores into fields %s" % sorted(pf))
    p = pf.pop()
    sz = [f for f in vecs if f != p][0]
    return adt, find, p, sz


def check(col, prog, tier, profile, fixture=None):
    crate = prog.crate(fixture or "rlib_dsu")
    adt, find, P, SZ = roles(crate)
    sfx = "" if profile == "dev" else "@" + profile
    un = util.need_body(crate, "DSU::un")
    fk = util.fkey

    col.rule("D1" + sfx, "at parent[x]=y in un: path facts entail size[x] <= size[y]", floor=2)
    col.rule("D2" + sfx, "size[y] += size[x] for the same (x, y) as the parent store, before returning true", floor=2)
    col.rule("D3" + sfx, "false iff roots equal and nothing stored; true only after both stores", floor=3)
    col.rule("D4" + sfx, "size array indexed only by results of find (outside new/reset)", floor=3)
    col.rule("D5" + sfx, "new/reset initialise parent[i]=i and size[i]=1 for all i<n", floor=4)
    col.rule("D6" + sfx, "find: recursion under parent[v]!=v, stores recursion result, returns parent[v]", floor=3)
    col.rule("D7" + sfx, "parent/size arrays written only by new, reset, find, un", floor=1)

    I = util.analyse(un)
    find_calls = lambda st: [e for e in util.events_of(st, "call") if e.callee == find.path or (e.fn.get("resolved") or e.fn).get("def") == find.key]
    for n, st in enumerate(I.final_states):
        evs = st.event_list()
        fc = find_calls(st)
        pstores = [e for e in evs if e.kind == "store" and util.index_into_field(e.place, P) is not None]
        sstores = [e for e in evs if e.kind == "store" and util.index_into_field(e.place, SZ) is not None]
        ret = util.ret_term(st)
        pathkey = "path%d" % n
        # roots: results of find on the two index parameters
        roots = [e.res for e in fc]
        # ---- D3
        if ret == mk_int(0):
            ok = not pstores and not sstores and len(roots) >= 2 and util.entails(I, st.facts, "Eq", roots[0], roots[1])
            if ok:
                col.ok("D3" + sfx, un.loc(), "%s|ret-false" % fk(un), "no stores; facts entail root(u)==root(v)")
            else:
                col.violation("D3" + sfx, "%s|ret-false" % fk(un), un.loc(), "a path returns false although the roots are not known equal, or after modifying the forest", {"facts": [tstr(f[1]) for f in st.facts], "path": st.path_list()})
        elif ret == mk_int(1):
            ok = len(pstores) == 1 and len(sstores) == 1 and len(roots) >= 2 and util.entails(I, st.facts, "Ne", roots[0], roots[1])
            if ok:
                col.ok("D3" + sfx, un.loc(), "%s|ret-true|%s" % (fk(un), pathkey), "one parent store, one size store, roots differ")
            else:
                col.violation("D3" + sfx, "%s|ret-true" % fk(un), un.loc(), "a path returns true without exactly one parent store and one size store under root(u)!=root(v)", {"path": st.path_list(), "pstores": len(pstores), "sstores": len(sstores)})
        else:
            col.violation("D3" + sfx, "%s|ret-symbolic" % fk(un), un.loc(), "return value of un is not a constant on this path: %s" % tstr(ret))
        # ---- D1 / D2
        for ev in pstores:
            x = util.index_into_field(ev.place, P)
            y = ev.val
            base = ev.place[1][1]
            # memory before any store of this path
            first = [e for e in evs if e.kind == "store"][0]
            mem0 = first.state[1]
            szx = I.load(mem0, ("index", ("field", base, SZ), x))
            szy = I.load(mem0, ("index", ("field", base, SZ), y))
            szx, szy = _nf(szx), _nf(szy)
            facts = frozenset(("eq" if f[0] == "eq" else "ne", _nf(f[1]), f[2]) for f in st.facts)
            ok = zones.entails(facts, "Le", szx, szy, I.tys)
            loc = un.loc(ev.bb, ev.idx)
            if ok:
                col.ok("D1" + sfx, loc, "%s|parent-store|%s" % (fk(un), pathkey), "entailed: %s <= %s" % (tstr(szx), tstr(szy)))
            else:
                col.violation("D1" + sfx, "%s|parent-store" % fk(un), loc, "parent[%s] = %s is reached on a path whose branch facts do not entail size[%s] <= size[%s]: the larger tree can be hung below the smaller one (depth bound lost)" % (tstr(x), tstr(y), tstr(x), tstr(y)), {"facts": [(f[0], tstr(f[1]), f[2]) for f in st.facts], "path": st.path_list()})
            # D2
            ok2 = False
            why = "no size store"
            for se in sstores:
                k = util.index_into_field(se.place, SZ)
                memb = se.state[1]
                a = _nf(I.load(memb, ("index", ("field", base, SZ), y)))
                b = _nf(I.load(memb, ("index", ("field", base, SZ), x)))
                want = ("bin", "Add", a, b)
                if k == y and util.lin_equal(_nf(se.val), want):
                    ok2 = True
                else:
                    why = "size[%s] := %s" % (tstr(k), tstr(se.val))
            if ok2:
                col.ok("D2" + sfx, loc, "%s|size-store|%s" % (fk(un), pathkey), "size[y] := size[y] + size[x]")
            else:
                col.violation("D2" + sfx, "%s|size-store" % fk(un), loc, "after parent[x]=y the size bookkeeping is not size[y] += size[x] (%s)" % why)

    # ---- D4: every index into the size array outside new/reset is a find result
    exempt = {"new", "reset"}
    for b in util.methods_of(crate, "DSU"):
        if b.name in exempt:
            continue
        Ib = util.analyse(b)
        seen = set()
        for st, ev in Ib.call_events(lambda e: e.extra.get("name") in ("index", "index_mut")):
            base = ev.args[0]
            if base[0] != "ref":
                continue
            pl = base[1]
            if not (pl[0] == "field" and pl[2] == SZ):
                continue
            idx = ev.args[1]
            k = (ev.bb, idx)
            if k in seen:
                continue
            seen.add(k)
            isfind = idx[0] == "call" and idx[1] in (find.path, find.key)
            loc = b.loc(ev.bb)
            if isfind:
                col.ok("D4" + sfx, loc, "%s|size[%s]" % (fk(b), tstr(idx)), "index is a result of find")
            else:
                col.violation("D4" + sfx, "%s|size-index-not-root" % fk(b), loc, "size array indexed by %s which is not a result of find: sizes are only meaningful at roots" % tstr(idx))

    # ---- D5
    _check_init(col, crate, "D5" + sfx, P, SZ)

    # ---- D6 find
    If = util.analyse(find)
    v = ("param", 2, If.names.get(2))
    for n, st in enumerate(If.final_states):
        evs = st.event_list()
        rec = [e for e in evs if e.kind == "call" and (e.fn.get("resolved") or e.fn).get("def") == find.key]
        stores = [e for e in evs if e.kind == "store"]
        ret = util.ret_term(st)
        selfp = ("deref", ("param", 1, If.names.get(1)))
        pv0 = ("load", ("m0",), ("index", ("field", selfp, P), v))
        facts = frozenset((f[0], _nf(f[1]), f[2]) for f in st.facts)
        if rec:
            e = rec[0]
            ok = zones.entails(facts, "Ne", pv0, v, If.tys)
            ok = ok and len(stores) == 1 and util.index_into_field(stores[0].place, P) == v and stores[0].val == e.res
            ok = ok and ret == e.res and _nf(e.args[1]) == pv0
            if ok:
                col.ok("D6" + sfx, find.loc(e.bb), "%s|recursive-path" % fk(find), "recursion on parent[v] under parent[v]!=v; parent[v] := result; returns it")
            else:
                col.violation("D6" + sfx, "%s|recursive-path" % fk(find), find.loc(e.bb), "find's recursive path is not: if parent[v]!=v { parent[v] = find(parent[v]) } return parent[v]", {"ret": tstr(ret), "stores": [repr(s) for s in stores]})
        else:
            ok = not stores and _nf(ret) == pv0 and zones.entails(facts, "Eq", pv0, v, If.tys)
            if ok:
                col.ok("D6" + sfx, find.loc(), "%s|root-path" % fk(find), "returns parent[v] == v without writing")
            else:
                col.violation("D6" + sfx, "%s|root-path" % fk(find), find.loc(), "find's non-recursive path must return parent[v] under parent[v]==v and write nothing (got %s)" % tstr(ret))
    chk_b = util.opt_body(crate, "DSU::check")
    if chk_b is not None:
        Ic = util.analyse(chk_b)
        for st in Ic.final_states:
            fc = [e for e in util.events_of(st, "call") if (e.fn.get("resolved") or e.fn).get("def") == find.key]
            ret = util.ret_term(st)
            ok = len(fc) == 2 and ret == ("bin", "Eq", fc[0].res, fc[1].res) and {fc[0].args[1][1], fc[1].args[1][1]} == {2, 3}
            if ok:
                col.ok("D6" + sfx, chk_b.loc(), "%s|compares-two-finds" % fk(chk_b), "check == (find(u) == find(v))")
            else:
                col.violation("D6" + sfx, "%s|compares-two-finds" % fk(chk_b), chk_b.loc(), "check must compare find(u) with find(v), got %s" % tstr(ret))
    size_b = util.opt_body(crate, "DSU::size")
    if size_b is not None:
        Is = util.analyse(size_b)
        for st in Is.final_states:
            ret = _nf(util.ret_term(st))
            ok = ret[0] == "load" and util.index_into_field(ret[2], SZ) is not None and ret[2][2][0] == "call" and ret[2][2][1] in (find.path, find.key)
            if ok:
                col.ok("D4" + sfx, size_b.loc(), "%s|returns-size-of-root" % fk(size_b), tstr(ret))
            else:
                col.violation("D4" + sfx, "%s|returns-size-of-root" % fk(size_b), size_b.loc(), "size(v) must return size[find(v)], got %s" % tstr(ret))

    # ---- D7 who may write
    allowed = {"new", "reset", find.name, "un"}
    writers = set()
    for b in crate.bodies:
        imp = crate.impl_of(b)
        if imp is not None and imp.get("derived"):
            continue
        for bb, idx, s in b.statements():
            if s["k"] != "assign":
                continue
            rv = s["rv"]
            pls = [s["place"]]
            if rv["k"] == "ref" and rv["bk"] == "mut":
                pls.append(rv["place"])
            for pl in pls:
                for e in pl["p"]:
                    if e[0] == "field" and e[1] in (P, SZ) and e[3].replace("alloc::", "std::") == "std::vec::Vec<usize>":
                        if pl is s["place"] and not any(x[0] == "deref" for x in pl["p"]):
                            continue
                        writers.add(b.name)
                        if b.name not in allowed:
                            col.violation("D7" + sfx, "%s|writes-array" % fk(b), b.loc(bb, idx), "%s takes a mutable borrow of / assigns a DSU array; only new, reset, find and un may" % b.path)
    col.ok("D7" + sfx, "-", "writers=%s" % ",".join(sorted(writers)), "mutable accesses of the arrays only in %s" % sorted(writers))


def _nf(t):
    return t


def _check_init(col, crate, rid, P, SZ):
    want = {P: "index", SZ: "one"}
    # new
    new = util.need_body(crate, "DSU::new")
    I = util.analyse(new)
    n = ("param", 1, I.names.get(1))
    for st in I.final_states:
        ret = util.ret_term(st)
        if not (ret[0] == "agg" and isinstance(ret[1], tuple) and ret[1][0] == "adt"):
            # delegating constructor: accept a call to reset(n) on the result
            col.violation(rid, "%s|unrecognised-construction" % util.fkey(new), new.loc(), "DSU::new does not build the struct from recognisable initialisers: %s" % tstr(ret))
            continue
        for f, role in want.items():
            v = ret[2][f]
            ok = _whole_init(v, n, role)
            nm = "parent" if f == P else "size"
            if ok:
                col.ok(rid, new.loc(), "%s|%s" % (util.fkey(new), nm), tstr(v))
            else:
                col.violation(rid, "%s|%s-init" % (util.fkey(new), nm), new.loc(), "DSU::new initialises the %s array with %s, expected %s for all i<n" % (nm, tstr(v), "parent[i]=i" if role == "index" else "size[i]=1"))
    reset = util.need_body(crate, "DSU::reset")
    I = util.analyse(reset)
    n = ("param", 2, I.names.get(2))
    done = {P: False, SZ: False}
    resized = {P: False, SZ: False}
    # loop-body stores are on the back-edge states; trace partitioning gives one state per path through
    # the body, so "every i<n is initialised" needs the store on EVERY back-edge state of one loop
    stray = {P: [], SZ: []}

    def conforming(ev, f):
        idx = util.index_into_field(ev.place, f)
        if idx is None:
            return None
        full = idx[0] == "elem" and idx[2] == mk_int(0) and idx[3] == n
        val_ok = (ev.val == idx) if want[f] == "index" else (ev.val == mk_int(1))
        return bool(full and val_ok)

    for st in I.all_end_states():
        cleared = set()
        for ev in st.event_list():
            if ev.kind == "call" and ev.extra.get("name") in ("resize", "clear", "fill"):
                a = ev.args[0]
                tgt = [x for x in subterms(a) if x[0] == "ref" and x[1][0] == "field" and x[1][2] in resized]
                if not tgt:
                    continue
                f = tgt[0][1][2]
                nmc = ev.extra.get("name")
                if nmc == "clear":
                    cleared.add(f)
                elif nmc == "resize" and ev.args[1] == n:
                    resized[f] = True
                    # clear(); resize(n, 1) initialises every element
                    if f in cleared and want[f] == "one" and ev.args[2] == mk_int(1):
                        done[f] = True
                elif nmc == "fill" and want[f] == "one" and ev.args[1] == mk_int(1) and resized[f]:
                    done[f] = True
            if ev.kind == "store":
                for f in want:
                    c = conforming(ev, f)
                    if c is False:
                        stray[f].append(ev)
            if ev.kind == "store" and ev.place[0] == "field" and ev.place[2] in want:
                if _whole_init(ev.val, n, want[ev.place[2]]):
                    done[ev.place[2]] = True
                    resized[ev.place[2]] = True
    for head, sts in I.backedge_states.items():
        for f in want:
            if sts and all(any(ev.kind == "store" and conforming(ev, f) for ev in st.event_list()) for st in sts):
                done[f] = True
    for f in want:
        if stray[f]:
            done[f] = False
    for f in (P, SZ):
        nm = "parent" if f == P else "size"
        if done[f] and resized[f]:
            col.ok(rid, reset.loc(), "%s|%s" % (util.fkey(reset), nm), "resized to n and every i in 0..n initialised")
        else:
            col.violation(rid, "%s|%s-init" % (util.fkey(reset), nm), reset.loc(), "DSU::reset does not (resize to n and) initialise every %s[i], i<n, to %s" % (nm, "i" if f == P else "1"))


def _whole_init(v, n, role):
    if v[0] != "call":
        return False
    nm = v[1]
    args = v[2]
    if role == "index":
        if nm.endswith("::collect") or nm.endswith("Iterator::collect"):
            a = args[0]
            return a[0] == "agg" and isinstance(a[1], tuple) and a[1][1].endswith("ops::Range") and a[2] == (mk_int(0), n)
        return False
    if nm.endswith("from_elem"):
        return args[0] == mk_int(1) and args[1] == n
    return False
