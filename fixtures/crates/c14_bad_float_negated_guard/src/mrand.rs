use crate::randomable::*;

pub trait Rand {
    fn next<T, R>(&mut self, range: R) -> T
    where
        R: Randomable<T>;

    fn shuffle<T>(&mut self, v: &mut [T]) {
        for i in 1..v.len() {
            v.swap(i, self.next(0..=i));
        }
    }
}
