use std::ops::*;

use rlib_io::*;
use rlib_show::{Show, ShowSettings};

#[derive(Copy, Clone, PartialEq, Eq)]
pub struct Modular<const M: u32> {
    v: u32,
}

impl<const M: u32> Modular<M> {
    pub const ZERO: Self = Self { v: 0 };
    pub const ONE: Self = Self { v: 1 };

    pub fn new(v: i64) -> Self {
        let mut v = (v % M as i64) as i32;
        if v < 0 {
            v += M as i32;
        }
        Self { v: v as u32 }
    }

    pub fn inv(&self) -> Self {
        let mut a = self.v as i32;
        let mut b = M as i32;
        let mut x = 0;
        let mut y = 1;
        while a != 0 {
            let k = b / a;
            b -= k * a;
            x += k * y;
            std::mem::swap(&mut a, &mut b);
            std::mem::swap(&mut x, &mut y);
        }
        Self::new(x as i64)
    }

    pub fn md() -> u32 {
        M
    }

    pub fn pow(&self, mut d: u64) -> Self {
        let mut res = Self::ONE;
        let mut a = *self;
        while d != 0 {
            if d % 2 == 1 {
                res *= a;
            }
            a *= a;
            d /= 2;
        }
        res
    }

    pub fn inner(&self) -> u32 {
        self.v
    }
}

impl<const M: u32> Add for Modular<M> {
    type Output = Self;
    fn add(self, rhs: Self) -> Self {
        let mut v = self.v + rhs.v;
        if v >= M {
            v -= M;
        }
        Self { v }
    }
}
impl<const M: u32> AddAssign for Modular<M> {
    fn add_assign(&mut self, rhs: Self) {
        *self = *self + rhs;
    }
}

impl<const M: u32> Sub for Modular<M> {
    type Output = Self;
    fn sub(self, rhs: Self) -> Self {
        let mut v = self.v + Self::md() - rhs.v;
        if v >= M {
            v -= M;
        }
        Self { v }
    }
}
impl<const M: u32> SubAssign for Modular<M> {
    fn sub_assign(&mut self, rhs: Self) {
        *self = *self - rhs;
    }
}

impl<const M: u32> Mul for Modular<M> {
    type Output = Self;
    fn mul(self, rhs: Self) -> Self {
        Self::new(self.v as i64 * rhs.v as i64)
    }
}
impl<const M: u32> MulAssign for Modular<M> {
    fn mul_assign(&mut self, rhs: Self) {
        *self = *self * rhs;
    }
}

#[allow(clippy::suspicious_arithmetic_impl)]
impl<const M: u32> Div for Modular<M> {
    type Output = Self;
    fn div(self, rhs: Self) -> Self {
        self * rhs.inv()
    }
}
impl<const M: u32> DivAssign for Modular<M> {
    fn div_assign(&mut self, rhs: Self) {
        *self = *self / rhs;
    }
}

impl<const M: u32> Neg for Modular<M> {
    type Output = Self;
    fn neg(self) -> Self {
        if self.v == 0 {
            self
        } else {
            Self { v: Self::md() - self.v }
        }
    }
}

impl<const M: u32> Readable for Modular<M> {
    fn read(reader: &mut Reader) -> Self {
        Self::new(reader.read())
    }
}
impl<const M: u32> Writable for Modular<M> {
    fn write(&self, writer: &mut Writer) {
        self.v.write(writer)
    }
}
impl<const M: u32> std::fmt::Display for Modular<M> {
    fn fmt(&self, f: &mut std::fmt::Formatter) -> std::fmt::Result {
        self.v.fmt(f)
    }
}
impl<const M: u32> std::fmt::Debug for Modular<M> {
    fn fmt(&self, f: &mut std::fmt::Formatter) -> std::fmt::Result {
        self.v.fmt(f)
    }
}

pub type Mint998 = Modular<998244353>;
pub type Mint107 = Modular<1000000007>;

impl<const M: u32> Show for Modular<M> {
    fn show(&self, settings: &ShowSettings) -> String {
        let max_denominator = if settings.mint_rational {
            settings.mint_max.min(Self::md() as i64 - 1)
        } else {
            1
        };
        for denominator in 1..=max_denominator {
            for numerator in -settings.mint_max..=settings.mint_max {
                if Self::new(numerator) / Self::new(denominator) == *self {
                    if denominator == 1 {
                        return numerator.to_string();
                    } else {
                        return format!("{}/{}", numerator, denominator);
                    }
                }
            }
        }

        if settings.mint_max == 0 {
            self.inner().to_string()
        } else {
            format!("?{}", self.inner())
        }
    }
}
