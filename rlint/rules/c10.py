"""C10 — geometry: returned points depend on what geometry requires, line normalisation,
threshold ladders.  DESIGN.md §4 C10."""
from .. import util
from ..absint import tstr, mk_int, subterms
from ..core import Anchor

PID = "C10"
LEVEL = "other"
CRATES = ["rlib_geometry"]
RELEASE = True
NO_HIDDEN_STATE = ['rlib_geometry']   # driver rule STATE: these crates are plain data structures / functions
ARMED = True
ENGINES = ["E6", "E3"]
TECHNIQUE = "backward data-dependence of every returned point (term slices down to the fields of the inputs) against the inputs geometry requires; linear-form classification of the floating-point comparisons of each path into threshold ladders; term shape of line normalisation"
LEVEL_TEXT = (
    "Structural necessary conditions decided on every path: every point placed in a returned intersection variant depends on the "
    "inputs translation covariance requires (circle-line: centre x and y, the line's a and b, radius or distance; circle-circle: both "
    "centres and the radius of the circle the path's facts show to be the larger; line-line: all six coefficients); Line::new divides "
    "all three coefficients by the same norm, between/dist have the documented forms; the circle-circle classification compares d "
    "with R-r-eps, R-r+eps, R+r-eps, R+r+eps in increasing order mapping to None/TouchInside/Intersect/TouchOutside/None after "
    "ordering the radii, the circle-line one with r+eps, r-eps, position with -eps/+eps, all with the crate constant EPS. Numerical "
    "accuracy (1e-7) and agreement of the reported kind with exact geometry are runtime quantities: NOT decided."
)
LEVEL_NOTE = "trusted: rustc MIR, exporter; G1 follows values through the crate's non-public helpers, Point's inherent methods and operator impls (inlined); a product with a constant-zero factor depends on nothing"
EXPLANATION = (
    "G1 dependence: for each Point in a returned variant of intersect_ll/intersect_cl/intersect_cc the set of input fields its term "
    "mentions (loads and by-reference arguments, through all intermediate calls) must contain the required ones. G2 normalisation: "
    "Line::new = (a/d, b/d, c/d) with one d = len(a, b); between = new(u.y-v.y, v.x-u.x, -(a*u.x+b*u.y)); dist = |a*x+b*y+c|. G3 "
    "ladders: each path's float comparisons are put in the linear form d - T and classified; the variant returned on the path must "
    "be the one the ladder prescribes; the radii are ordered (swap under a.r < b.r) before R - r is formed. G4 line-line (added "
    "after seeded change C10-g): with the crate's functions inlined the returned coordinates are rational functions of the six "
    "coefficients; a1*x+b1*y+c1 and a2*x+b2*y+c2 must vanish identically (polynomial normal form), every divisor must be a "
    "constant multiple of the determinant a1*b2-b1*a2, and the Some path must be guarded by the parallel test. NOT decided: accuracy, "
    "kind vs exact geometry."
)
UNDECIDED = ["points lie on both primitives within 1e-7 (floating-point accuracy)", "reported kind agrees with exact geometry away from the tolerance band"]
ASSUMPTIONS = ["Point's operators are coordinate-wise"]
FIXTURES = [
    ("c10_bad_touch_no_centre", "bad", ["G1"]),
    ("c10_bad_line_new_c", "bad", ["G2"]),
    ("c10_bad_cc_swapped_touch", "bad", ["G3"]),
    ("c10_bad_cc_no_order", "bad", ["G3"]),
    ("c10_bad_cl_eps", "bad", ["G3"]),
    ("c10_bad_cl_zero_normal", "bad", ["G1"]),
    ("c10_bad_ll_back_substitution", "bad", ["G4"]),
    ("c10_good_ll_inverse_det", "good", []),
]

EPSV = 1e-9


def deps(t, skip=None):
    """input fields a term depends on: set of (param index, field path); places are not searched for
    bare parameters (a load of c.r depends on c.r, not on all of c); sub-terms for which `skip` holds are not
    entered (used to tell the line's direction apart from its distance to the centre)"""
    out = set()

    def place(pl):
        path = []
        cur = pl
        while cur[0] in ("field", "index", "down", "range", "slicefrom"):
            if cur[0] == "field":
                path.append(cur[2])
            elif cur[0] == "index":
                walk(cur[2])
            cur = cur[1]
        if cur[0] == "deref" and cur[1][0] == "param":
            out.add((cur[1][1], tuple(reversed(path))))
        elif cur[0] == "deref":
            walk(cur[1])
        elif cur[0] == "constval":
            walk(cur[1])

    def walk(s):
        if not isinstance(s, tuple) or not s:
            return
        if not isinstance(s[0], str):
            for x in s:
                walk(x)
            return
        h = s[0]
        if h in ("mem", "after", "mphi", "store", "m0"):
            return
        if skip is not None and skip(s):
            return
        if h == "load":
            place(s[2])
            return
        if h == "ref":
            place(s[1])
            return
        if h == "optref":
            place(s[1])
            return
        if h == "param":
            out.add((s[1], ()))
            return
        if h == "proj" and s[2][0] == "param":
            out.add((s[2][1], (s[1],)))
            return
        if h == "fbin" and s[1] == "Mul" and (_is_zero(s[2]) or _is_zero(s[3])):
            # a product with the constant zero carries nothing of its other factor
            return
        for x in s[1:]:
            walk(x)

    walk(t)
    return out


def _is_zero(t):
    """the float term is the constant zero on this path (a product is zero once one factor is)"""
    if not isinstance(t, tuple) or not t:
        return False
    if t[0] == "fconst":
        return t[1] == 0
    if t[0] == "un" and t[1] == "Neg":
        return _is_zero(t[2])
    if t[0] == "fbin" and t[1] == "Mul":
        return _is_zero(t[2]) or _is_zero(t[3])
    if t[0] == "fbin" and t[1] in ("Add", "Sub"):
        return _is_zero(t[2]) and _is_zero(t[3])
    return False


def _g1_analyser(crate):
    """G1 is judged with the crate's non-public helper functions and Point's operator impls inlined: a
    normal computed in a helper, or scaled by a helper's constant result, is followed to the inputs"""
    inl = []
    for m in crate.bodies:
        if m.is_closure or m.kind not in ("Fn", "AssocFn") or util.self_recursive(m):
            continue
        imp = crate.impl_of(m) or {}
        if imp.get("derived"):
            continue
        point_method = not imp.get("of_trait") and m.container is not None and m.path.rsplit("::", 1)[0].endswith("Point")
        if m.vis != "pub" or str(imp.get("trait") or "").startswith("std::ops::") or point_method:
            inl.append(m)
    return util.analyser(inl)


class _Rat:
    """float term as a rational function over the input fields: numerator / denominator polynomials, plus
    every divisor met on the way (each must be non-zero wherever the function is defined)"""

    def __init__(self):
        from ..polyid import Poly

        self.Poly = Poly
        self.divisors = []
        self.opaque = []

    def var(self, t):
        from ..absint import strip_mem

        return self.Poly.var(strip_mem(t))

    def ev(self, t):
        from fractions import Fraction

        P = self.Poly
        one = P.const(1)
        if not isinstance(t, tuple) or not t:
            return self.var(("opaque", repr(t))), one
        h = t[0]
        if h == "fconst":
            v = t[1]
            return P.const(Fraction(v).limit_denominator(10**12) if float(v) == float(Fraction(v).limit_denominator(10**12)) else v), one
        if h == "int":
            return P.const(t[1]), one
        if h == "un" and t[1] == "Neg":
            n, d = self.ev(t[2])
            return -n, d
        if h == "fbin" and t[1] in ("Add", "Sub", "Mul", "Div"):
            (n1, d1), (n2, d2) = self.ev(t[2]), self.ev(t[3])
            if t[1] == "Mul":
                return n1 * n2, d1 * d2
            if t[1] == "Div":
                self.divisors.append((n2, d2, t[3]))
                return n1 * d2, d1 * n2
            if (d1 - d2).is_zero():
                return (n1 + n2 if t[1] == "Add" else n1 - n2), d1
            return (n1 * d2 + n2 * d1 if t[1] == "Add" else n1 * d2 - n2 * d1), d1 * d2
        if h == "load":
            return self.var(t), one
        if h == "proj" and isinstance(t[2], tuple) and t[2] and t[2][0] == "param":
            return self.var(t), one
        self.opaque.append(t)
        return self.var(t), one


def _const_multiple(q, D):
    """q == c * D for a non-zero constant c"""
    if q.is_zero() or D.is_zero():
        return False
    k = next(iter(D.t))
    if k not in q.t:
        return False
    c = q.t[k] / D.t[k] if not isinstance(q.t[k], int) or q.t[k] % D.t[k] else q.t[k] // D.t[k]
    from ..polyid import Poly

    return (q - D * Poly.const(c)).is_zero()


def has(dset, p, path):
    """the dependence set covers input field `path` of parameter p (a prefix covers everything below)"""
    for (q, pth) in dset:
        if q == p and (pth == path[: len(pth)] or path == pth[: len(path)]):
            return True
    return False


def flin(t):
    """linear form of a float term over its non-arithmetic sub-terms: (dict atom -> coef, const)"""
    if t[0] == "fconst":
        return ({}, t[1])
    if t[0] == "fbin" and t[1] in ("Add", "Sub"):
        a, b = flin(t[2]), flin(t[3])
        sg = 1 if t[1] == "Add" else -1
        d = dict(a[0])
        for k, v in b[0].items():
            d[k] = d.get(k, 0) + sg * v
        return ({k: v for k, v in d.items() if v != 0}, a[1] + sg * b[1])
    if t[0] == "un" and t[1] == "Neg":
        a = flin(t[2])
        return ({k: -v for k, v in a[0].items()}, -a[1])
    if t[0] == "fbin" and t[1] == "Mul":
        a, b = flin(t[2]), flin(t[3])
        if not a[0]:
            return ({k: v * a[1] for k, v in b[0].items()}, a[1] * b[1])
        if not b[0]:
            return ({k: v * b[1] for k, v in a[0].items()}, a[1] * b[1])
    return ({t: 1}, 0.0)


def cmp_facts(st):
    """[(lin of x - y, op, truth)] for the float comparisons decided on the path"""
    out = []
    for f in st.facts:
        t = f[1]
        if f[0] == "eq" and isinstance(t, tuple) and t and t[0] == "fcmp":
            a, b = flin(t[2]), flin(t[3])
            d = dict(a[0])
            for k, v in b[0].items():
                d[k] = d.get(k, 0) - v
            out.append((({k: v for k, v in d.items() if v != 0}, a[1] - b[1]), t[1], bool(f[2])))
    return out


def _is_inline_dist(a, LA, LB, LC, PX, PY, CC):
    """|l.a * c.c.x + l.b * c.c.y + l.c| written out instead of l.dist(&c.c) (parameters: circle 1, line 2)"""
    if not (isinstance(a, tuple) and a and a[0] == "call" and str(a[1]).endswith("::abs")):
        return False
    args = [x for x in a[2] if not (isinstance(x, tuple) and x and x[0] == "mem")]
    if len(args) != 1:
        return False
    from ..absint import strip_mem

    lin = flin(strip_mem(args[0]))
    if lin[1] != 0 or len(lin[0]) != 3:
        return False

    def fld(t):
        """(param, field path) of a load of an input field"""
        if not (t[0] == "load"):
            return None
        pl, path = t[2], []
        while pl[0] == "field":
            path.append(pl[2])
            pl = pl[1]
        if pl[0] == "deref" and pl[1][0] == "param":
            return (pl[1][1], tuple(reversed(path)))
        return None

    want = {frozenset({(2, (LA,)), (1, (CC, PX))}), frozenset({(2, (LB,)), (1, (CC, PY))}), frozenset({(2, (LC,))})}
    got = set()
    for atom, coef in lin[0].items():
        if coef != 1:
            return False
        if atom[0] == "fbin" and atom[1] == "Mul":
            x, y = fld(atom[2]), fld(atom[3])
            got.add(frozenset({x, y}))
        else:
            got.add(frozenset({fld(atom)}))
    return got == want


class _Geo(_Rat):
    """_Rat plus what circle-line needs: f64 operator calls, Point loads split into coordinates, |x| and sqrt as
    atoms with their defining relations, max(x, 0) = x (the radicand is positive on the secant path)"""

    def __init__(self):
        _Rat.__init__(self)
        self.abs_atoms = {}    # var -> polynomial of the argument
        self.sqrt_atoms = {}   # var -> (num, den) of the radicand
        self.unit = None       # predicate(num, den): the radicand is 1 under the line's normalisation

    def ev(self, t):
        from ..absint import strip_mem

        P = self.Poly
        one = P.const(1)
        if isinstance(t, tuple) and t and t[0] == "proj" and isinstance(t[2], tuple) and t[2] and t[2][0] == "load":
            return self.var(("load", ("m0",), ("field", t[2][2], t[1]))), one
        if isinstance(t, tuple) and t and t[0] == "un" and t[1] == "Neg":
            n, d = self.ev(t[2])
            return -n, d
        if isinstance(t, tuple) and t and t[0] == "call":
            nm = str(t[1])
            args = [x for x in t[2] if not (isinstance(x, tuple) and x and x[0] == "mem")]
            op = {"Add>::add": "Add", "Sub>::sub": "Sub", "Mul>::mul": "Mul", "Div>::div": "Div"}.get(nm.rsplit("::", 2)[-2] + "::" + nm.rsplit("::", 1)[-1] if nm.count("::") >= 2 else "", None)
            short = nm.rsplit("::", 1)[-1]
            if op is None and short in ("add", "sub", "mul", "div") and len(args) == 2:
                op = short.capitalize()
            if op is not None and len(args) == 2:
                return _Rat.ev(self, ("fbin", op, args[0], args[1]))
            if short == "neg" and len(args) == 1:
                n, d = self.ev(args[0])
                return -n, d
            if short == "max" and len(args) == 2 and args[1] == ("fconst", 0.0, "f64"):
                return self.ev(args[0])
            if short == "abs" and len(args) == 1:
                n, d = self.ev(args[0])
                if d == one:
                    v = ("abs", repr(sorted(n.t.items(), key=repr)))
                    self.abs_atoms[v] = n
                    return P.var(v), one
            if short == "sqrt" and len(args) == 1:
                n, d = self.ev(args[0])
                if self.unit is not None and self.unit(n, d):
                    return one, one
                v = ("sqrt", repr(sorted(n.t.items(), key=repr)), repr(sorted(d.t.items(), key=repr)))
                self.sqrt_atoms[v] = (n, d)
                return P.var(v), one
        return _Rat.ev(self, t)


def _subst_sq(poly, var, repl, Poly):
    """replace every var^2 in poly by the polynomial repl (var itself stays where its exponent is odd)"""
    out = Poly()
    for mono, coef in poly.t.items():
        e = dict(mono).get(var, 0)
        rest = tuple((v, k) for v, k in mono if v != var)
        term = Poly({rest: coef})
        for _ in range(e // 2):
            term = term * repl
        if e % 2:
            term = term * Poly.var(var)
        out = out + term
    return out


def _rule_g5(col, crate, idx):
    """intersect_cl: with the line normalised (a^2 + b^2 = 1, G2) and d = |s|, s = a*cx + b*cy + c: every reported
    point P satisfies a*Px + b*Py + c = 0 identically (on each path, with |s| resolved by the path's own sign test of
    s), the touch point is at distance d from the centre and the two secant points at distance r
    (sqrt(r^2 - d^2)^2 = r^2 - d^2).  Decides the algebra of the construction, not the floating-point error."""
    from ..absint import strip_mem as _sm
    from ..polyid import Poly

    LA, LB, LC, CC, CR, PX, PY = idx
    fk = util.fkey
    col.rule("G5", "circle-line: touch and secant points satisfy the line equation identically and lie at distance d resp. r from the centre (normalised line, |s| resolved by the path's sign test)", floor=4)
    b = util.need_body(crate, "util::intersect_cl")
    inl = [m for m in crate.bodies if not m.is_closure and m.kind in ("Fn", "AssocFn") and m.key != b.key and not util.self_recursive(m) and not (crate.impl_of(m) or {}).get("derived") and not (m.name in ("new", "between") and "Line" in m.path)]
    I = util.analyser(inl, features=("comb", "fncall", "deep"))(b)
    c_, l_ = ("deref", ("param", 1, I.names.get(1))), ("deref", ("param", 2, I.names.get(2)))

    def fv(base, *path):
        pl = base
        for k in path:
            pl = ("field", pl, k)
        return Poly.var(_sm(("load", ("m0",), pl)))

    a, bq, c = fv(l_, LA), fv(l_, LB), fv(l_, LC)
    cx, cy, r = fv(c_, CC, PX), fv(c_, CC, PY), fv(c_, CR)
    s_poly = a * cx + bq * cy + c
    bvar = next(iter(bq.t))[0][0]
    one = Poly.const(1)

    def norm(p):
        return _subst_sq(p, bvar, one - a * a, Poly)   # b^2 = 1 - a^2

    n_touch = n_sec = 0
    for st in I.final_states:
        ret = util.ret_term(st)
        if not (ret[0] == "agg" and isinstance(ret[1], tuple) and len(ret[1]) > 3 and ret[1][3] in ("Touch", "Intersect")):
            continue
        G = _Geo()
        G.unit = lambda n, d: norm(n - d).is_zero()
        # a path on which the normal's length tested as zero cannot happen for a normalised line
        dead = False
        for f in st.facts:
            t = f[1]
            if f[0] == "eq" and isinstance(t, tuple) and t and t[0] == "fcmp" and t[3] == ("fconst", 0.0, "f64") and isinstance(t[2], tuple) and t[2] and t[2][0] == "call" and str(t[2][1]).endswith("sqrt"):
                n_, d_ = G.ev(_sm(t[2]))
                is_one = (n_ - d_).is_zero()
                if is_one and ((t[1] == "Ne" and f[2] == 0) or (t[1] == "Eq" and f[2] == 1)):
                    dead = True
        if dead:
            continue
        variant = ret[1][3]
        pts = []
        for pt in ret[2]:
            if pt[0] == "agg" and len(pt[2]) == 2:
                pts.append((G.ev(_sm(pt[2][PX])), G.ev(_sm(pt[2][PY]))))
        key = "%s|%s" % (fk(b), variant.lower())
        if len(pts) != (1 if variant == "Touch" else 2) or G.opaque:
            col.violation("G5", key, b.loc(), "cannot evaluate the %s point(s) as expressions of the inputs (%s)" % (variant, tstr(G.opaque[0])[:80] if G.opaque else "shape"))
            continue
        # |s| on this path: the sign test of s decides it
        sign = None
        for f in st.facts:
            t = f[1]
            if not (f[0] == "eq" and isinstance(t, tuple) and t and t[0] == "fcmp" and t[1] in ("Gt", "Lt", "Ge", "Le")):
                continue
            (n1, d1), (n2, d2) = G.ev(_sm(t[2])), G.ev(_sm(t[3]))
            if not (d1 == one and d2 == one):
                continue
            p_ = n1 - n2
            flip = None
            if (p_ - s_poly).is_zero():
                flip = 1
            elif (p_ + s_poly).is_zero():
                flip = -1
            if flip is None:
                continue
            truth = bool(f[2])
            pos = {"Gt": truth, "Ge": truth, "Lt": not truth, "Le": not truth}[t[1]]   # p_ is (weakly) positive
            sign = flip if pos else -flip
        ok, why = True, ""
        for (xn, xd), (yn, yd) in pts:
            polys = {"line": a * xn * yd + bq * yn * xd + c * xd * yd}
            dx, dy = xn - cx * xd, yn - cy * yd
            dist2 = dx * dx * yd * yd + dy * dy * xd * xd
            den2 = xd * xd * yd * yd
            for v, arg in G.abs_atoms.items():
                if not (arg - s_poly).is_zero() and not (arg + s_poly).is_zero():
                    ok, why = False, "an absolute value other than the line's value at the centre enters the point"
            D2 = s_poly * s_poly
            polys["distance"] = dist2 - (D2 if variant == "Touch" else r * r) * den2
            for nm_, pl in polys.items():
                q = pl
                for v, (rn, rd) in G.sqrt_atoms.items():
                    if rd == one:
                        q = _subst_sq(q, v, rn, Poly)
                for v in G.abs_atoms:
                    q = _subst_sq(q, v, s_poly * s_poly, Poly)
                    if any(dict(m).get(v) for m in q.t):
                        if sign is None:
                            ok, why = False, "the normal is not oriented by the sign of a*cx + b*cy + c on this path (no such test among the path's facts)"
                            break
                        q = q.subst(v, s_poly * Poly.const(sign))
                q = norm(q)
                if ok and not q.is_zero():
                    ok, why = False, ("the point does not satisfy the line's equation" if nm_ == "line" else "the point is not at distance %s from the centre" % ("d" if variant == "Touch" else "r")) + " (residual %s)" % repr(q)[:140]
                if not ok:
                    break
            if not ok:
                break
        if ok and variant == "Intersect":
            (x1n, x1d), (y1n, y1d) = pts[0]
            (x2n, x2d), (y2n, y2d) = pts[1]
            if (x1n * x2d - x2n * x1d).is_zero() and (y1n * y2d - y2n * y1d).is_zero():
                ok, why = False, "the two reported points are the same expression: a secant has two different intersection points (centre + foot +/- half chord)"
        n_touch += variant == "Touch"
        n_sec += variant == "Intersect"
        key = "%s|%s|%s" % (fk(b), variant.lower(), "s>0" if sign == 1 else "s<=0" if sign == -1 else "s?")
        if ok:
            col.ok("G5", b.loc(), key, "a*Px + b*Py + c == 0 and |P - centre| == %s identically" % ("d" if variant == "Touch" else "r"))
        else:
            col.violation("G5", "%s|%s" % (fk(b), variant.lower()), b.loc(), "intersect_cl (%s): %s" % (variant, why))
    if not n_touch or not n_sec:
        col.violation("G5", "%s|paths" % fk(b), b.loc(), "expected Touch and Intersect paths in intersect_cl")


def _payload_uses(t, out):
    """payload projections (proj i (down X v)) of a result enum, in depth-first order"""
    if not isinstance(t, tuple):
        return
    if len(t) == 3 and t[0] == "proj" and isinstance(t[2], tuple) and t[2] and t[2][0] == "down":
        out.append((t[2][1], t[2][2], t[1]))
        return
    if t and t[0] == "mem":
        return
    for a in (t[1:] if t and isinstance(t[0], str) else t):
        if isinstance(a, tuple):
            _payload_uses(a, out)


def _rule_g6(col, crate, fixture=None):
    """the points a result carries are handed on exactly once each

    (a) the IntoIterator impls of the result enums: on the path of variant v the iterator is built from
        every payload of v, each once (a two-point result read as the same point twice loses a point);
    (b) a result built from the payloads of another routine's result (circle-circle from circle-line)
        carries each of that result's payloads once.
    Order is not judged."""
    col.rule("G6", "result payloads are handed on completely and once each: the iterators over the result enums and the circle-circle result built from the circle-line result", floor=9)
    fk = util.fkey
    enums = {a["key"]: a for a in crate.adts if a["kind"] == "Enum" and any(f["ty"].endswith("Point") for v in a["variants"] for f in v["fields"])}
    if fixture and not enums:
        return
    n_iter = 0
    for b in crate.bodies:
        im = crate.impl_of(b) or {}
        if b.name != "into_iter" or not str(im.get("trait", "")).endswith("IntoIterator") or im.get("self_adt") not in enums:
            continue
        n_iter += 1
        adt = enums[im["self_adt"]]
        I = util.analyser([m for m in crate.bodies if not m.is_closure and m.kind in ("Fn", "AssocFn") and m.key != b.key and not util.self_recursive(m)], features=("comb", "fncall"))(b)
        self_t = ("param", 1, I.names.get(1))
        seen = set()
        for st in I.final_states:
            admitted = set(range(len(adt["variants"])))
            for f in st.facts:
                if isinstance(f[1], tuple) and f[1] == ("discr", self_t):
                    if f[0] == "eq":
                        admitted &= {f[2]}
                    elif f[0] == "ne":
                        admitted -= {f[2]}
            uses = []
            _payload_uses(util.ret_term(st), uses)
            uses = [(v, i) for (x, v, i) in uses if x == self_t]
            for v in sorted(admitted):
                vn = adt["variants"][v]["name"]
                want = sorted((v, i) for i in range(len(adt["variants"][v]["fields"])))
                key = "%s|%s|yields" % (fk(b), vn)
                if sorted(uses) == want:
                    if key not in seen:
                        col.ok("G6", b.loc(), key, "%d point(s), each payload once" % len(want))
                else:
                    col.violation("G6", key, b.loc(), "iterating %s::%s yields payload fields %s, the variant carries %s" % (adt["path"].split("::")[-1], vn, [i for _, i in uses], [i for _, i in want]))
                seen.add(key)
    if n_iter == 0:
        raise Anchor("no IntoIterator impl of an intersection result enum found")
    # (b) results rebuilt from another routine's result
    for b in crate.bodies:
        if b.is_closure or b.kind not in ("Fn", "AssocFn") or b.locals[0]["ty"].split("<")[0] not in [a["path"] for a in enums.values()]:
            continue
        I = util.analyse(b)
        seen = set()
        for st in I.final_states:
            r = util.ret_term(st)
            if not (r[0] == "agg" and isinstance(r[1], tuple) and r[1][0] == "adt" and r[2]):
                continue
            uses = []
            for o in r[2]:
                if isinstance(o, tuple) and len(o) == 3 and o[0] == "proj" and isinstance(o[2], tuple) and o[2][0] == "down":
                    uses.append((o[2][1], o[2][2], o[1]))
                else:
                    uses = None
                    break
            if not uses:
                continue
            src = {(x, v) for x, v, _ in uses}
            key = "%s|%s|from-%s" % (fk(b), r[1][3], str(uses[0][0][1]).split("::")[-1] if uses[0][0][0] == "call" else "argument")
            got = sorted(i for _, _, i in uses)
            if len(src) == 1 and got == list(range(len(got))):
                if key not in seen:
                    col.ok("G6", b.loc(), key, "carries payloads %s of the inner result, once each" % got)
            else:
                col.violation("G6", key, b.loc(), "%s is built from payload fields %s of the inner result: a point is lost or repeated" % (r[1][3], [i for _, _, i in uses]))
            seen.add(key)


def is_eps(c, sign=None):
    return abs(abs(c) - EPSV) < 1e-18 and (sign is None or (c > 0) == (sign > 0))


def check(col, prog, tier, profile, fixture=None):
    crate = prog.crate(fixture or "rlib_geometry")
    fk = util.fkey
    col.rule("G1", "every returned point depends on the inputs geometry requires", floor=7)
    col.rule("G2", "Line::new divides a, b, c by the same norm; between and dist have the documented form", floor=3)
    col.rule("G3", "threshold ladders of intersect_cc / intersect_cl / position, radii ordered first, tolerance = EPS", floor=12)
    Point = util.need_adt(crate, "Point")
    pf = [f["name"] for f in util.fields_of(Point)]
    Line = util.need_adt(crate, "Line")
    lf = [f["name"] for f in util.fields_of(Line)]
    Circle = util.need_adt(crate, "Circle")
    cf = [f["name"] for f in util.fields_of(Circle)]
    CC, CR = cf.index("c"), cf.index("r")
    LA, LB, LC = lf.index("a"), lf.index("b"), lf.index("c")
    PX, PY = pf.index("x"), pf.index("y")

    # ---------------- intersect_ll
    b = util.need_body(crate, "util::intersect_ll")
    I = util.analyse(b)
    for st in I.final_states:
        ret = util.ret_term(st)
        if ret[0] == "agg" and ret[1][3] == "Some":
            p = ret[2][0]
            d = deps(p)
            # Point::new(x, y): both coordinates must see all six coefficients
            coords = p[2][:2] if p[0] == "call" and str(p[1]).endswith("Point::new") else [p]
            ok = True
            missing = []
            for ci, cterm in enumerate(coords):
                dc = deps(cterm)
                for prm in (1, 2):
                    for fld in (LA, LB, LC):
                        if not has(dc, prm, (fld,)):
                            ok = False
                            missing.append("coordinate %d lacks line%d.%s" % (ci, prm, lf[fld]))
            key = "%s|point" % fk(b)
            if ok:
                col.ok("G1", b.loc(), key, "both coordinates depend on all six coefficients")
            else:
                col.violation("G1", key, b.loc(), "the intersection point of two lines does not depend on all six coefficients: %s" % "; ".join(missing[:3]))

    # ---------------- intersect_ll, G4: the point solves both equations and every divisor is the determinant
    col.rule("G4", "line-line: the returned point satisfies both line equations identically and divides only by (a multiple of) the determinant the parallel test guards", floor=3)
    b = util.need_body(crate, "util::intersect_ll")
    par = crate.body("util::parallel")
    roles = {b.key} | ({par.key} if par is not None else set())
    inl = [m for m in crate.bodies if not m.is_closure and m.kind in ("Fn", "AssocFn") and m.key not in roles and not util.self_recursive(m) and not (crate.impl_of(m) or {}).get("derived") and not (m.name in ("new", "between") and "Line" in m.path)]
    I4 = util.analyser(inl, features=("comb", "fncall"))(b)
    u_, v_ = ("deref", ("param", 1, I4.names.get(1))), ("deref", ("param", 2, I4.names.get(2)))
    from ..absint import strip_mem as _sm
    from ..polyid import Poly as _Poly

    def fldp(base, k):
        return _Poly.var(_sm(("load", ("m0",), ("field", base, k))))

    ua, ub, uc, va, vb, vc = fldp(u_, LA), fldp(u_, LB), fldp(u_, LC), fldp(v_, LA), fldp(v_, LB), fldp(v_, LC)
    DET = ua * vb - ub * va
    nsome = 0
    for st in I4.final_states:
        ret = util.ret_term(st)
        if not (ret[0] == "agg" and isinstance(ret[1], tuple) and len(ret[1]) > 3 and ret[1][3] == "Some"):
            if not (ret[0] == "agg" and isinstance(ret[1], tuple) and len(ret[1]) > 3 and ret[1][3] == "None"):
                col.violation("G4", "%s|shape" % fk(b), b.loc(), "cannot read what intersect_ll returns on a path: %s" % tstr(ret)[:160])
            continue
        nsome += 1
        p = ret[2][0]
        if not (p[0] == "agg" and len(p[2]) >= 2):
            col.violation("G4", "%s|shape" % fk(b), b.loc(), "the returned point is not built from two coordinates: %s" % tstr(p)[:160])
            continue
        R = _Rat()
        (nx, dx), (ny, dy) = R.ev(p[2][PX]), R.ev(p[2][PY])
        key = "%s|solves-both" % fk(b)
        e1 = ua * nx * dy + ub * ny * dx + uc * dx * dy
        e2 = va * nx * dy + vb * ny * dx + vc * dx * dy
        if e1.is_zero() and e2.is_zero():
            col.ok("G4", b.loc(), key, "a1*x + b1*y + c1 = 0 and a2*x + b2*y + c2 = 0 hold as identities in the six coefficients")
        else:
            col.violation("G4", key, b.loc(), "the point returned for two non-parallel lines does not satisfy %s as an identity in the coefficients: residual %s" % ("the first line's equation" if not e1.is_zero() else "the second line's equation", (e1 if not e1.is_zero() else e2)))
        key = "%s|divisors" % fk(b)
        badd = [tstr(t_)[:80] for (n_, d_, t_) in R.divisors if not ((d_ - _Poly.const(1)).is_zero() and _const_multiple(n_, DET))]
        if R.divisors and not badd:
            col.ok("G4", b.loc(), key, "every division is by +-(a1*b2 - b1*a2), the quantity the parallel test keeps away from zero")
        else:
            col.violation("G4", key, b.loc(), "intersect_ll divides by %s, which is not a constant multiple of the determinant a1*b2 - b1*a2: it can vanish for lines that are not parallel (vertical or horizontal line), the point is then NaN or infinite" % (", ".join(badd) or "nothing recognisable"))
        # the path is guarded by the parallel test
        guarded = False
        for f in st.facts:
            t_ = f[1]
            if f[0] == "eq" and f[2] == 0 and isinstance(t_, tuple) and t_ and t_[0] == "call" and par is not None and str(t_[1]).split("::")[-1] == "parallel":
                guarded = True
            if f[0] == "eq" and isinstance(t_, tuple) and t_ and t_[0] == "fcmp":
                for side in (t_[2], t_[3]):
                    if side[0] == "call" and str(side[1]).endswith("::abs"):
                        R2 = _Rat()
                        n_, d_ = R2.ev(side[2][0])
                        if (d_ - _Poly.const(1)).is_zero() and _const_multiple(n_, DET):
                            guarded = True
        key = "%s|guarded" % fk(b)
        if guarded:
            col.ok("G4", b.loc(), key, "Some(..) only when the parallel test failed")
        else:
            col.violation("G4", key, b.loc(), "intersect_ll returns a point on a path that is not guarded by the parallel test: the determinant can be zero")
    if nsome == 0:
        col.violation("G4", "%s|no-point-path" % fk(b), b.loc(), "no path of intersect_ll returning Some(point) could be read")

    # ---------------- intersect_cl
    b = util.need_body(crate, "util::intersect_cl")
    I = _g1_analyser(crate)(b)
    variants = {}
    for n, st in enumerate(I.final_states):
        ret = util.ret_term(st)
        if not (ret[0] == "agg" and isinstance(ret[1], tuple) and ret[1][0] == "adt"):
            col.violation("G1", "%s|shape" % fk(b), b.loc(), "cannot read the returned variant: %s" % tstr(ret)[:200])
            continue
        var = ret[1][3]
        def is_distance(s_):
            return (s_[0] == "call" and str(s_[1]).endswith("Line::dist")) or _is_inline_dist(s_, LA, LB, LC, PX, PY, CC)

        def known_zero_coeff(fld):
            """the path has tested l.<fld> == 0.0: the point need not (cannot usefully) depend on it"""
            for f in st.facts:
                t_ = f[1]
                if f[0] == "eq" and isinstance(t_, tuple) and t_ and t_[0] == "fcmp" and t_[1] in ("Eq", "Ne"):
                    sides = (t_[2], t_[3])
                    isfld = lambda x: x[0] == "load" and x[2][0] == "field" and x[2][2] == fld and x[2][1][0] == "deref" and x[2][1][1][0] == "param" and x[2][1][1][1] == 2
                    iszero = lambda x: x[0] == "fconst" and x[1] == 0
                    if (isfld(sides[0]) and iszero(sides[1])) or (isfld(sides[1]) and iszero(sides[0])):
                        if (t_[1] == "Eq") == bool(f[2]):
                            return True
            return False

        for k, p in enumerate(ret[2]):
            d = deps(p)
            # the direction of the line must reach the point other than through its distance to the centre (a point built
            # from the distance and the offset c alone sits on a line of the wrong orientation or sign)
            dn = deps(p, skip=is_distance)
            need = [("centre", 1, (CC,))]
            miss = [nm for nm, prm, path in need if not has(d, prm, path)]
            for nm, fld in (("line.a", LA), ("line.b", LB)):
                if not has(dn, 2, (fld,)) and not known_zero_coeff(fld):
                    miss.append(nm + " (other than through the distance)")
            if not (has(d, 1, (CR,)) or (has(d, 2, ()) and has(d, 1, (CC,)))):
                miss.append("radius or distance")
            # centre: both coordinates (a dependence on c.c covers both)
            key = "%s|%s|point%d" % (fk(b), var, k)
            if not miss:
                col.ok("G1", b.loc(), key, "depends on centre, line normal and radius/distance")
            else:
                col.violation("G1", "%s|%s|point" % (fk(b), var), b.loc(), "the %s point of circle-line intersection does not depend on %s: moving the circle does not move the reported point" % (var, ", ".join(miss)))
        # ladder
        facts = cmp_facts(st)
        dterm = None
        lad = {}
        for (lin, op, truth) in facts:
            atoms = lin[0]
            rr = [a for a in atoms if a[0] == "load" and a[2][0] == "field" and a[2][2] == CR]
            dd = [a for a in atoms if (a[0] == "call" and str(a[1]).endswith("Line::dist")) or _is_inline_dist(a, LA, LB, LC, PX, PY, CC)]
            if len(rr) == 1 and len(dd) == 1 and len(atoms) == 2 and atoms[dd[0]] * atoms[rr[0]] == -1 and is_eps(lin[1]):
                s = 1 if atoms[dd[0]] > 0 else -1
                # normalise to  d - r - k*eps  (op) 0
                k = -lin[1] * s
                o = op if s > 0 else {"Gt": "Lt", "Lt": "Gt", "Ge": "Le", "Le": "Ge"}.get(op, op)
                above = (o in ("Gt", "Ge")) == truth
                lad["+" if k > 0 else "-"] = above
        want = {"None": {"+": True}, "Touch": {"+": False, "-": True}, "Intersect": {"+": False, "-": False}}.get(var)
        key = "%s|ladder|%s" % (fk(b), var)
        if want is not None and lad == want:
            col.ok("G3", b.loc(), key, "d vs r+eps / r-eps: %s" % lad)
        else:
            col.violation("G3", "%s|ladder|%s" % (fk(b), var), b.loc(), "circle-line classification: variant %s is returned under the comparisons %s (expected %s with thresholds r+EPS and r-EPS)" % (var, lad, want))
        variants[var] = True
    if sorted(variants) != ["Intersect", "None", "Touch"]:
        col.violation("G3", "%s|variants" % fk(b), b.loc(), "intersect_cl must be able to return None, Touch and Intersect (returns %s)" % sorted(variants))

    # ---------------- intersect_cl, G5: the reported points solve the line's equation and sit at the right distance
    _rule_g5(col, crate, (LA, LB, LC, CC, CR, PX, PY))
    _rule_g6(col, crate, fixture)

    # ---------------- intersect_cc
    b = util.need_body(crate, "util::intersect_cc")
    I = _g1_analyser(crate)(b)
    icl = util.need_body(crate, "util::intersect_cl")
    seen = {}
    for n, st in enumerate(I.final_states):
        ret = util.ret_term(st)
        if ret[0] == "agg" and isinstance(ret[1], tuple) and ret[1][0] == "adt":
            var = ret[1][3]
        else:
            var = None
        facts = cmp_facts(st)
        # which parameter is the larger circle on this path?
        swapped = None
        # (a strict comparison is the ordering branch; a weak one is used only when there is no strict one — a
        # `debug_assert!(a.r >= b.r)` after the swap restates the result, it does not decide it)
        for (lin, op, truth) in sorted(facts, key=lambda x_: 0 if x_[1] in ("Le", "Ge") else 1):
            atoms = lin[0]
            rs = [a for a in atoms if a[0] == "load" and a[2][0] == "field" and a[2][2] == CR and a[2][1][0] == "deref" and a[2][1][1][0] == "param"]
            if len(atoms) == 2 and len(rs) == 2 and lin[1] == 0 and op in ("Lt", "Gt", "Le", "Ge"):
                p1 = [a for a in rs if a[2][1][1][1] == 1][0]
                s = atoms[p1]
                less = (op in ("Lt", "Le")) == (s > 0)  # a.r < b.r (with equal radii either circle may be "the larger")
                swapped = less == truth
        if swapped is None:
            # coincident centres decided before the radii are ordered, by an order-free comparison: d < EPS, then
            # |a.r - b.r| < EPS -> Same, otherwise None (one circle strictly inside the other, no contact)
            d_small = abs_close = None
            for (lin_, op_, tr_) in facts:
                at_ = list(lin_[0].items())
                if len(at_) != 1 or not is_eps(lin_[1]) or op_ not in ("Lt", "Le", "Gt", "Ge"):
                    continue
                a_, c_ = at_[0]
                a_ = _strip(a_)
                o_ = op_ if c_ > 0 else {"Gt": "Lt", "Lt": "Gt", "Ge": "Le", "Le": "Ge"}[op_]
                below_ = ((o_ in ("Lt", "Le")) == tr_) and (lin_[1] * (1 if c_ > 0 else -1) < 0)
                if a_[0] == "call" and str(a_[1]).endswith("util::dist"):
                    d_small = below_
                if a_[0] == "call" and str(a_[1]).endswith("::abs"):
                    inner = [x_ for x_ in a_[2] if not (isinstance(x_, tuple) and x_ and x_[0] == "mem")]
                    if inner and inner[0][0] == "fbin" and inner[0][1] == "Sub":
                        rs_ = [_strip(x_) for x_ in inner[0][2:4]]
                        if all(x_[0] == "load" and x_[2][0] == "field" and x_[2][2] == CR for x_ in rs_) and {_pidx(x_) for x_ in rs_} == {1, 2}:
                            abs_close = below_
            if d_small is True and abs_close is not None and not any(e.kind == "call" and (e.fn.get("resolved") or e.fn).get("def") == icl.key for e in st.event_list()):
                key = "%s|same|order-free" % fk(b)
                if (var == "Same") == abs_close and var in ("Same", "None"):
                    col.ok("G3", b.loc(), key, "d < EPS and |a.r - b.r| %s EPS -> %s" % ("<" if abs_close else ">=", var))
                    if var == "Same":
                        seen["Same"] = True
                else:
                    col.violation("G3", key, b.loc(), "coincident centres: Same must be returned exactly when the radii agree within the tolerance, None otherwise (got %s under |a.r - b.r| %s EPS)" % (var, "<" if abs_close else ">="))
                continue
            col.violation("G3", "%s|radii-ordered" % fk(b), b.loc(), "a path of intersect_cc forms R - r without first ordering the radii (no a.r < b.r test on the path)")
            continue
        big, small = (2, 1) if swapped else (1, 2)
        R = ("load", None, ("field", ("deref", ("param", big)), CR))
        lad = {}
        same = None
        radii_close = None
        for (lin, op, truth) in facts:
            atoms = {(_strip(a)): c for a, c in lin[0].items()}
            dd = [a for a in atoms if a[0] == "call" and str(a[1]).endswith("util::dist")]
            rb = [a for a in atoms if a[0] == "load" and a[2][0] == "field" and a[2][2] == CR and _pidx(a) == big]
            rsm = [a for a in atoms if a[0] == "load" and a[2][0] == "field" and a[2][2] == CR and _pidx(a) == small]
            if len(dd) == 1 and len(rb) == 1 and len(rsm) == 1 and len(atoms) == 3 and is_eps(lin[1]):
                s = 1 if atoms[dd[0]] > 0 else -1
                cR, cr, k = atoms[rb[0]] * s, atoms[rsm[0]] * s, lin[1] * s
                o = op if s > 0 else {"Gt": "Lt", "Lt": "Gt", "Ge": "Le", "Le": "Ge"}.get(op, op)
                below = (o in ("Lt", "Le")) == truth
                if cR == -1 and cr in (1, -1):
                    name = ("R-r" if cr == 1 else "R+r") + ("-e" if k > 0 else "+e")
                    lad[name] = below
            if len(dd) == 1 and len(atoms) == 1 and is_eps(lin[1]):
                s = 1 if atoms[dd[0]] > 0 else -1
                o = op if s > 0 else {"Gt": "Lt", "Lt": "Gt", "Ge": "Le", "Le": "Ge"}.get(op, op)
                same = (o in ("Lt", "Le")) == truth   # strictness at exactly d == EPS is inside the tolerance band
            if not dd and len(rb) == 1 and len(rsm) == 1 and len(atoms) == 2 and is_eps(lin[1]):
                # R - r against EPS: the radii agree within the tolerance exactly when R - r - EPS < 0 (R >= r here)
                s = 1 if atoms[rb[0]] > 0 else -1
                cr_, k = atoms[rsm[0]] * s, lin[1] * s
                o = op if s > 0 else {"Gt": "Lt", "Lt": "Gt", "Ge": "Le", "Le": "Ge"}.get(op, op)
                if abs(atoms[rb[0]]) == 1 and cr_ == -1:
                    radii_close = (o in ("Lt", "Le")) == truth and k < 0
        order = ["R-r-e", "R-r+e", "R+r-e", "R+r+e"]
        calls_cl = any(e.kind == "call" and (e.fn.get("resolved") or e.fn).get("def") == icl.key for e in st.event_list())
        # expected variant from the ladder
        exp = None
        if lad.get("R-r-e") is True:
            exp = "None"
        elif lad.get("R-r-e") is False and lad.get("R-r+e") is True:
            exp = "TouchInside"
        elif lad.get("R-r+e") is False and lad.get("R+r-e") is True:
            exp = "via-circle-line"
        elif lad.get("R+r-e") is False and lad.get("R+r+e") is True:
            exp = "TouchOutside"
        elif lad.get("R+r+e") is False:
            exp = "None"
        mono = all(not (lad.get(x) is True and lad.get(y) is False) for i, x in enumerate(order) for y in order[i + 1 :])
        if var == "Same" and not lad:
            key = "%s|same" % fk(b)
            if same and radii_close:
                col.ok("G3", b.loc(), key, "d < EPS and R - r < EPS -> Same")
                seen["Same"] = True
            else:
                col.violation("G3", key, b.loc(), "Same must be returned exactly for coincident centres (d < EPS) and radii equal within the tolerance (R - r < EPS, radii ordered first)")
            continue
        got = "via-circle-line" if calls_cl else var
        key = "%s|ladder|%s|%s" % (fk(b), got, "swapped" if swapped else "plain")
        if exp is not None and mono and got == exp:
            col.ok("G3", b.loc(), key, "d against %s" % {k: v for k, v in lad.items()})
            seen[exp] = True
        else:
            col.violation("G3", "%s|ladder|%s" % (fk(b), got), b.loc(), "circle-circle classification: %s is returned under d-comparisons %s; the ladder R-r-EPS < R-r+EPS < R+r-EPS < R+r+EPS prescribes %s" % (got, lad, exp))
        # G1 for the touch points
        if var in ("TouchInside", "TouchOutside"):
            p = ret[2][0]
            d = deps(p)
            miss = []
            for prm in (1, 2):
                if not has(d, prm, (CC,)):
                    miss.append("centre of circle %d" % prm)
            if not has(d, big, (CR,)):
                miss.append("radius of the larger circle")
            key = "%s|%s|point|%s" % (fk(b), var, "swapped" if swapped else "plain")
            if not miss:
                col.ok("G1", b.loc(), key, "depends on both centres and the larger radius")
            else:
                col.violation("G1", "%s|%s|point" % (fk(b), var), b.loc(), "the %s point does not depend on %s" % (var, ", ".join(miss)))

    missing = [k_ for k_ in ("Same", "None", "TouchInside", "via-circle-line", "TouchOutside") if not seen.get(k_)]
    key = "%s|kinds" % fk(b)
    if missing:
        col.violation("G3", key, b.loc(), "intersect_cc never reports %s on a correctly guarded path: identical circles, internal/external tangency, two points and no contact must all be reachable" % ", ".join(missing))
    else:
        col.ok("G3", b.loc(), key, "all five kinds are reported, each under its own region of d")

    # ---------------- position
    b = util.need_body(crate, "Circle::position")
    I = util.analyse(b)
    for st in I.final_states:
        ret = util.ret_term(st)
        var = ret[1][3] if ret[0] == "agg" and isinstance(ret[1], tuple) else tstr(ret)
        lad = {}
        for (lin, op, truth) in cmp_facts(st):
            if len(lin[0]) == 1 and is_eps(lin[1]):
                (a, c), = lin[0].items()
                s = 1 if c > 0 else -1
                k = lin[1] * s
                o = op if s > 0 else {"Gt": "Lt", "Lt": "Gt", "Ge": "Le", "Le": "Ge"}.get(op, op)
                if k > 0 and o in ("Lt", "Le"):   # (strictness at exactly +-EPS is inside the tolerance band)
                    lad["<-e"] = truth
                if k < 0 and o in ("Gt", "Ge"):
                    lad[">+e"] = truth
        # the regions of the signed relative distance consistent with the tests decided on this path, whatever
        # their order: Inside = (< -eps), Border = neither test true, Outside = (> +eps)
        regions = {"Inside": {"<-e": True, ">+e": False}, "Border": {"<-e": False, ">+e": False}, "Outside": {"<-e": False, ">+e": True}}
        consistent = sorted(r for r, req in regions.items() if all(lad.get(k, v) == v for k, v in req.items()))
        want = [var] if var in regions else None
        key = "%s|ladder|%s" % (fk(b), var)
        if lad and consistent == want:
            col.ok("G3", b.loc(), key, "%s" % lad)
        else:
            col.violation("G3", key, b.loc(), "position returns %s on a path whose tests %s admit %s" % (var, lad, consistent))

    # ---------------- G2
    b = util.need_body(crate, "Line::new")
    I = util.analyse(b)
    for st in I.final_states:
        ret = util.ret_term(st)
        ok = ret[0] == "agg" and len(ret[2]) == 3
        if ok:
            ds = set()
            for k, f in enumerate(ret[2]):
                ok = ok and f[0] == "fbin" and f[1] == "Div" and f[2] == ("param", k + 1, I.names.get(k + 1))
                if ok:
                    ds.add(f[3])
            ok = ok and len(ds) == 1
            if ok:
                d = list(ds)[0]
                ok = d[0] == "call" and str(d[1]).endswith("Point::len") and has(deps(d), 1, ()) and has(deps(d), 2, ()) and not has(deps(d), 3, ())
        key = "%s|normalises" % fk(b)
        if ok:
            col.ok("G2", b.loc(), key, "(a/d, b/d, c/d), d = |(a, b)|")
        else:
            col.violation("G2", key, b.loc(), "Line::new must divide all three coefficients by the same norm of (a, b): dist() is otherwise not a distance (%s)" % tstr(ret)[:200])
    b = util.need_body(crate, "Line::between")
    I = util.analyse(b)
    newb = util.need_body(crate, "Line::new")
    for st in I.final_states:
        ret = util.ret_term(st)
        ok = ret[0] == "call" and str(ret[1]).endswith("Line::new")
        if ok:
            a, bb_, c = ret[2][:3]
            u, v = ("deref", ("param", 1, I.names.get(1))), ("deref", ("param", 2, I.names.get(2)))
            ld = lambda p, f: ("load", ("m0",), ("field", p, f))
            ok = a == ("fbin", "Sub", ld(u, PY), ld(v, PY)) and bb_ == ("fbin", "Sub", ld(v, PX), ld(u, PX))
            ok = ok and c == ("un", "Neg", ("fbin", "Add", ("fbin", "Mul", a, ld(u, PX)), ("fbin", "Mul", bb_, ld(u, PY))))
        key = "%s|form" % fk(b)
        if ok:
            col.ok("G2", b.loc(), key, "new(u.y - v.y, v.x - u.x, -(a*u.x + b*u.y))")
        else:
            col.violation("G2", key, b.loc(), "Line::between is not new(u.y-v.y, v.x-u.x, -(a*u.x+b*u.y)): the line does not pass through both points")
    b = util.need_body(crate, "Line::dist")
    # other methods of Line that dist is written in terms of (signed_dist, ...) are inlined
    lh = [m for m in crate.bodies if not m.is_closure and m.kind in ("Fn", "AssocFn") and m.key != b.key and not util.self_recursive(m) and not (crate.impl_of(m) or {}).get("derived") and not (m.name in ("new", "between") and "Line" in m.path)]
    I = util.analyser(lh)(b)
    for st in I.final_states:
        ret = util.ret_term(st)
        ok = ret[0] == "call" and str(ret[1]).endswith("::abs")
        if ok:
            inner = ret[2][0]
            lin = flin(inner)
            s_, p_ = ("deref", ("param", 1, I.names.get(1))), ("deref", ("param", 2, I.names.get(2)))
            ld = lambda p, f: ("load", ("m0",), ("field", p, f))
            want = {("fbin", "Mul", ld(s_, LA), ld(p_, PX)): 1, ("fbin", "Mul", ld(s_, LB), ld(p_, PY)): 1, ld(s_, LC): 1}
            ok = lin[0] == want and lin[1] == 0
        key = "%s|form" % fk(b)
        if ok:
            col.ok("G2", b.loc(), key, "|a*x + b*y + c|")
        else:
            col.violation("G2", key, b.loc(), "Line::dist is not |a*x + b*y + c|")


def _pidx(a):
    r = a[2][1]
    if r[0] == "deref" and r[1][0] == "param":
        return r[1][1]
    return None


def _strip(a):
    from ..absint import strip_mem

    return strip_mem(a)
