// https://github.com/rust-lang/rust/issues/35853

#[macro_export]
macro_rules! out_impl {
    ($writer:ident, $x:expr) => {
        $writer.write(&$x);
    };
    ($writer:ident, $x:expr, $($xx:tt)*) => {
        $writer.write(&$x);
        $writer.write_char(' ');
        rlib_io::out_impl!($writer, $($xx)*);
    };
}

#[macro_export]
macro_rules! make_output_macro_ {
    ($reader:ident, $writer:ident) => {
        #[allow(unused_variables)]
        let mut $reader = $reader;
        #[allow(unused_variables)]
        let mut $writer = $writer;
        make_output_macro_!($reader, $writer, $);
    };

    ($reader:ident, $writer:ident, $dol:tt) => {
        #[allow(unused_macros)]
        macro_rules! out {
            ($dol($dol x:tt)*) => {
                rlib_io::out_impl!($writer, $dol($dol x)*);
            };
        }
        #[allow(unused_macros)]
        macro_rules! outln {
            () => {
                $writer.write_char('\n');
            };
            ($dol($dol x:tt)*) => {
                rlib_io::out_impl!($writer, $dol($dol x)*);
                $writer.write_char('\n');
            };
        }
    }
}

pub use crate::make_output_macro_ as make_output_macro;
