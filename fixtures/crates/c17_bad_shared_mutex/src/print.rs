use std::fmt;

use crate::treap::Treap;
use crate::treap_node::{TreapItem, TreapNode};

impl<T> fmt::Debug for TreapNode<T>
where
    T: TreapItem + fmt::Debug,
{
    fn fmt(&self, f: &mut fmt::Formatter<'_>) -> fmt::Result {
        if let Some(left) = self.left.as_ref() {
            left.fmt(f)?;
        }
        self.item.fmt(f)?;
        write!(f, " ")?;
        if let Some(right) = self.right.as_ref() {
            right.fmt(f)?;
        }
        Ok(())
    }
}

impl<T> fmt::Debug for Treap<T>
where
    T: TreapItem + fmt::Debug,
{
    fn fmt(&self, f: &mut fmt::Formatter<'_>) -> fmt::Result {
        if !self.is_empty() {
            self.root.as_ref().unwrap().fmt(f)?;
        }
        Ok(())
    }
}

pub struct TreePrinter<'a, T> {
    node: &'a Option<Box<TreapNode<T>>>,
    indent: usize,
}

impl<'a, T> TreePrinter<'a, T>
where
    T: TreapItem + fmt::Debug,
{
    pub fn new(t: &'a Treap<T>) -> Self {
        Self {
            node: &t.root,
            indent: 0,
        }
    }

    fn from_node(t: &'a Option<Box<TreapNode<T>>>, indent: usize) -> Self {
        Self { node: t, indent }
    }
}

impl<T> fmt::Debug for TreePrinter<'_, T>
where
    T: TreapItem + fmt::Debug,
{
    fn fmt(&self, f: &mut fmt::Formatter<'_>) -> fmt::Result {
        match &self.node {
            None => writeln!(f, "{: >indent$}- [None]", "", indent = self.indent)?,
            Some(node) => {
                write!(f, "{: >indent$}- ", "", indent = self.indent)?;
                node.item.fmt(f)?;
                writeln!(f)?;
                TreePrinter::from_node(&node.left, self.indent + 3).fmt(f)?;
                TreePrinter::from_node(&node.right, self.indent + 3).fmt(f)?;
            }
        };
        Ok(())
    }
}
