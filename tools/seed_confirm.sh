#!/bin/bash
# usage: seed_confirm.sh <seed-name> <property> <src-dir> <package> <demo-dest-dir> [extra packages to test]
# Confirms an independently written breaking change in a scratch worktree (outside /repo and /verif):
#   demo passes on the unchanged tree, existing tests pass with the change, demo fails with the change;
# then applies it to /repo, runs the property's checks (quick), undoes it, and files everything under
# /verif/seeded/<seed-name>/.  Removes the scratch worktree and its build output.
set -u
NAME=$1; PID=$2; SRC=$3; PKG=$4; DEST=$5; shift 5
EXTRA=("$@")
W=/tmp/conf/$NAME
OUT=/verif/seeded/$NAME
rm -rf $W; mkdir -p /tmp/conf
git -C /repo worktree add -q --detach $W HEAD || exit 2
mkdir -p $OUT/demo
cp $SRC/patch.diff $OUT/patch.diff
cp $SRC/demo/* $OUT/demo/ 2>/dev/null
cp $SRC/notes.md $OUT/notes.md 2>/dev/null
DEMOS=$(cd $SRC/demo && ls *.rs 2>/dev/null)
run_demos() { local rc=0; for d in $DEMOS; do n=${d%.rs}; (cd $W && timeout 900 cargo test --offline -q ${DEMO_ARGS:-} -p $PKG --test $n >/tmp/conf/$NAME.$n.log 2>&1) || rc=1; done; return $rc; }
for d in $DEMOS; do cp $SRC/demo/$d $W/$DEST/$d; done
run_demos; BASE=$?
(cd $W && git apply $OUT/patch.diff) || { echo "patch does not apply"; git -C /repo worktree remove --force $W; exit 2; }
for d in $DEMOS; do rm -f $W/$DEST/$d; done
EXIST=0
for p in $PKG "${EXTRA[@]}"; do (cd $W && timeout 1800 cargo test --offline -q -p $p >/tmp/conf/$NAME.existing.$p.log 2>&1) || EXIST=1; done
for d in $DEMOS; do cp $SRC/demo/$d $W/$DEST/$d; done
run_demos; WITH=$?
git -C /repo worktree remove --force $W
# now the checks against /repo with the change applied
# (one at a time: two confirmations running side by side would see each other's change in /repo)
exec 9>/tmp/conf/.repo.lock; flock 9
cd /repo && git apply $OUT/patch.diff || { echo "patch does not apply to /repo"; exit 2; }
cd /verif
VERIF_EVIDENCE_DIR=/tmp/conf/$NAME.ev bin/vcheck $PID --tier quick > $OUT/vcheck.quick.log 2>&1; Q=$?; rm -rf /tmp/conf/$NAME.ev   # (evidence of a run on a changed tree is not kept)
git -C /repo checkout -- . ; git -C /repo clean -fdq rlib ; git -C /repo status --short
flock -u 9
python3 - "$NAME" "$PID" "$BASE" "$EXIST" "$WITH" "$Q" "$PKG" "$DEST" <<'PY'
import json,sys,re,os
name,pid,base,exist,withc,q,pkg,dest=sys.argv[1:9]
out='/verif/seeded/%s'%name
log=open(out+'/vcheck.quick.log').read()
rules=sorted(set(re.findall(r"^\s+\S+: (\w[\w@]*): \[", log, re.M)))
meta={"seed":name,"property":pid,"package":pkg,
 "confirmed":{"demo_passes_on_unchanged_tree":base=="0","existing_tests_pass_with_change":exist=="0","demo_fails_with_change":withc!="0"},
 "ran":["cargo test --offline -p %s --test <demo> (unchanged tree, scratch worktree)"%pkg,"git apply patch.diff; cargo test --offline -p %s (existing tests)"%pkg,"cargo test --offline -p %s --test <demo> (with change)"%pkg,"git -C /repo apply patch.diff; bin/vcheck %s --tier quick; git -C /repo checkout -- ."%pid],
 "demo_placement":dest,
 "check_exit_code":int(q),"caught":q=="1","rules_fired":rules}
nf=out+'/notes.md'
if os.path.exists(nf):
    meta["needs_to_manifest"]=open(nf).read()[:1500]
json.dump(meta,open(out+'/meta.json','w'),indent=1)
print(json.dumps({k:meta[k] for k in ("seed","property","confirmed","caught","rules_fired")}))
PY
rm -f /tmp/conf/$NAME.*.log
