use crate::treap_node::{TreapItem, TreapItemSized, TreapNode};

#[derive(Default)]
pub struct Treap<T> {
    pub root: Option<Box<TreapNode<T>>>,
}

impl<T> Treap<T>
where
    T: TreapItem,
{
    pub fn new() -> Self {
        Self { root: None }
    }

    pub fn from_item(item: T) -> Self {
        Self {
            root: Some(Box::new(TreapNode::new(item))),
        }
    }

    pub fn is_empty(&self) -> bool {
        self.root.is_none()
    }

    pub fn merge(left: Self, right: Self) -> Self {
        Self {
            root: TreapNode::merge(left.root, right.root),
        }
    }

    pub fn split_by<P>(self, pred: P) -> (Self, Self)
    where
        P: FnMut(&T) -> bool,
    {
        let (left, right) = TreapNode::split_by(self.root, pred);
        (Treap { root: left }, Treap { root: right })
    }

    pub fn first(&mut self) -> Option<&T> {
        let mut node = self.root.as_mut()?;
        while node.left.is_some() {
            node.push();
            node = node.left.as_mut().unwrap();
        }
        Some(&node.item)
    }

    pub fn last(&mut self) -> Option<&T> {
        let mut node = self.root.as_mut()?;
        while node.right.is_some() {
            node.push();
            node = node.right.as_mut().unwrap();
        }
        Some(&node.item)
    }

    pub fn root(&self) -> Option<&T> {
        self.root.as_ref().map(|i| &i.item)
    }

    pub fn root_mut(&mut self) -> Option<&mut T> {
        self.root.as_mut().map(|i| &mut i.item)
    }

    pub fn collect(&mut self) -> Vec<&T> {
        match &mut self.root {
            Some(root) => {
                let mut v = Vec::new();
                root.collect_into(&mut v);
                v
            }
            None => Vec::new(),
        }
    }
}

impl<T> Treap<T>
where
    T: TreapItem + TreapItemSized,
{
    pub fn split_at(self, pos: usize) -> (Self, Self) {
        let (left, right) = TreapNode::split_at(self.root, pos);
        (Treap { root: left }, Treap { root: right })
    }

    pub fn insert_at(&mut self, pos: usize, item: T) {
        let (left, right) = TreapNode::split_at(self.root.take(), pos);
        self.root = TreapNode::merge(TreapNode::merge(left, Some(Box::new(TreapNode::new(item)))), right);
    }

    pub fn remove_at(&mut self, pos: usize) -> T {
        let (t1, t23) = TreapNode::split_at(self.root.take(), pos);
        let (t2, t3) = TreapNode::split_at(t23, 1);
        self.root = TreapNode::merge(t1, t3);
        t2.unwrap().item
    }

    pub fn size(&self) -> usize {
        self.root().map(|i| i.size()).unwrap_or(0)
    }
}
