use std::time::SystemTime;

use crate::randomable::*;
use crate::Rand;

#[derive(Copy, Clone)]
pub struct LinearCongruentialGenerator64<const A: u64, const C: u64> {
    state: u64,
}

impl<const A: u64, const C: u64> LinearCongruentialGenerator64<A, C> {
    pub const fn from_seed(seed: u64) -> Self {
        Self { state: seed }
    }

    pub fn from_time() -> Self {
        Self {
            state: SystemTime::now()
                .duration_since(SystemTime::UNIX_EPOCH)
                .unwrap()
                .as_nanos() as u64,
        }
    }

    pub fn next_raw(&mut self) -> u64 {
        self.state = self.state.wrapping_mul(A).wrapping_add(C);
        self.state
    }
}

impl<const A: u64, const C: u64> Rand for LinearCongruentialGenerator64<A, C> {
    fn next<T, R>(&mut self, range: R) -> T
    where
        R: Randomable<T>,
    {
        range.gen_from_u64(self.next_raw())
    }
}
