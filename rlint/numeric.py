"""E4b — parametric interval x congruence evaluation of absint terms.

Bounds are polynomials (degree <= 2) in one symbol S (for C06 the modulus M) ranging over a known
interval; comparisons between bounds are decided exactly over that interval (endpoints + vertex).
Machine integers: a cast or a checked operation is value-preserving when the mathematical interval
of its operand/result fits the target type — these are the *obligations* the caller collects.
The congruence component maps a term to a polynomial over the input symbols such that
value ≡ polynomial (mod S).  No solver."""
from fractions import Fraction

from .absint import tstr
from .polyid import Poly

INT_RANGE = {}
for bits in (8, 16, 32, 64, 128):
    INT_RANGE["u%d" % bits] = (0, (1 << bits) - 1)
    INT_RANGE["i%d" % bits] = (-(1 << (bits - 1)), (1 << (bits - 1)) - 1)
INT_RANGE["usize"] = INT_RANGE["u64"]
INT_RANGE["isize"] = INT_RANGE["i64"]


class B:
    """bound = c0 + c1*S + c2*S^2"""

    __slots__ = ("c",)

    def __init__(self, c0=0, c1=0, c2=0):
        self.c = (Fraction(c0), Fraction(c1), Fraction(c2))

    def __add__(self, o):
        return B(*(a + b for a, b in zip(self.c, o.c)))

    def __sub__(self, o):
        return B(*(a - b for a, b in zip(self.c, o.c)))

    def __neg__(self):
        return B(*(-a for a in self.c))

    def mul(self, o):
        a, b = self.c, o.c
        if a[2] * b[1] or a[2] * b[2] or a[1] * b[2]:
            return None
        return B(a[0] * b[0], a[0] * b[1] + a[1] * b[0], a[0] * b[2] + a[1] * b[1] + a[2] * b[0])

    def at(self, s):
        return self.c[0] + self.c[1] * s + self.c[2] * s * s

    def __repr__(self):
        parts = []
        for k, n in zip(self.c, ("", "S", "S^2")):
            if k:
                parts.append(("%s" % k) + ("*" + n if n else ""))
        return " + ".join(parts) or "0"


class Dom:
    def __init__(self, slo, shi):
        self.slo, self.shi = Fraction(slo), Fraction(shi)

    def min_of(self, b):
        """exact minimum of the bound polynomial over [slo, shi]"""
        pts = [self.slo, self.shi]
        if b.c[2] != 0:
            v = -b.c[1] / (2 * b.c[2])
            if self.slo < v < self.shi:
                pts.append(v)
        return min(b.at(p) for p in pts)

    def max_of(self, b):
        return -self.min_of(-b)

    def le(self, a, b):
        """a <= b for every S in the domain"""
        return self.min_of(b - a) >= 0


class NumEval:
    def __init__(self, I, dom, sym_term, base, facts=(), cong_base=None, summaries=None):
        """base: term -> (lo B, hi B) for input symbols; sym_term: the term that IS the symbol S;
        summaries: callee name suffix -> function(args) -> ((lo,hi), cong) for proven callees"""
        self.I = I
        self.dom = dom
        self.sym = sym_term
        self.base = base
        self.facts = list(facts)
        self.cong_base = cong_base or {}
        self.summaries = summaries or {}
        self.obligations = []  # (description, ok)
        self.unknown = []

    # ---- intervals ---------------------------------------------------------------------------
    def _type_range(self, ty):
        r = INT_RANGE.get(ty)
        if r is None:
            return None
        return (B(r[0]), B(r[1]))

    def interval(self, t):
        busy = self.__dict__.setdefault("_busy", set())
        if t in busy or len(busy) > 60:
            # a fact relates t to a term that contains t: no refinement on the inner occurrence
            ty = self.I.tys.get(t)
            tr = self._type_range(ty) if ty else None
            return self.base.get(t) or tr or (None, None)
        busy.add(t)
        try:
            return self._interval_refined(t)
        finally:
            busy.discard(t)

    def _interval_refined(self, t):
        lo, hi = self._interval(t)
        if t == self.sym:
            return lo, hi
        # refine by facts that compare exactly this term with a bound we can evaluate
        for f in self.facts:
            if f[0] not in ("eq", "ne"):
                continue
            c = f[1]
            if c == t and isinstance(f[2], int) and not isinstance(f[2], bool) and not (isinstance(t, tuple) and t and t[0] in ("bin", "fcmp") and t[1] in ("Eq", "Ne", "Lt", "Le", "Gt", "Ge")):
                # a `match` on the value itself: t == k / t != k
                k = B(f[2])
                if f[0] == "eq":
                    lo, hi = k, k
                else:
                    if lo is not None and self.dom.le(k, lo) and self.dom.le(lo, k):
                        lo = lo + B(1)
                    if hi is not None and self.dom.le(k, hi) and self.dom.le(hi, k):
                        hi = hi - B(1)
                continue
            if isinstance(c, tuple) and c and c[0] == "call" and str(c[1]).rsplit("::", 1)[-1] in ("is_negative", "is_positive") and c[2] and c[2][0] == t and f[2] in (0, 1):
                # x.is_negative() is x < 0, x.is_positive() is x > 0
                truth = (f[0] == "eq") == bool(f[2])
                if str(c[1]).endswith("is_negative"):
                    if truth and self._better_hi(B(-1), hi):
                        hi = B(-1)
                    elif not truth and self._better_lo(B(0), lo):
                        lo = B(0)
                else:
                    if truth and self._better_lo(B(1), lo):
                        lo = B(1)
                    elif not truth and self._better_hi(B(0), hi):
                        hi = B(0)
                continue
            if isinstance(c, tuple) and c and c[0] == "discr" and isinstance(c[1], tuple) and c[1] and c[1][0] == "call" and str(c[1][1]).endswith("::checked_sub") and len(c[1][2]) >= 2 and c[1][2][0] == t and f[2] in (0, 1):
                # x.checked_sub(y) is Some exactly when x >= y
                some = (f[0] == "eq") == (f[2] == 1)
                ylo, yhi = self._partner(c[1][2][1])
                if ylo is not None:
                    if some and self._better_lo(ylo, lo):
                        lo = ylo
                    elif not some and self._better_hi(yhi - B(1), hi):
                        hi = yhi - B(1)
                continue
            if isinstance(c, tuple) and c and c[0] == "bin" and c[1] in ("Eq", "Ne"):
                # disequality at an end point of the interval tightens it
                truth = (f[0] == "eq") == bool(f[2])
                neq = (c[1] == "Ne") == truth
                for (x, y) in ((c[2], c[3]), (c[3], c[2])):
                    if x != t:
                        continue
                    ylo, yhi = self._partner(y)
                    if ylo is None:
                        continue
                    if neq:
                        if lo is not None and self.dom.le(ylo, lo) and self.dom.le(lo, ylo) and self.dom.le(yhi, ylo):
                            lo = lo + B(1)
                        if hi is not None and self.dom.le(yhi, hi) and self.dom.le(hi, yhi) and self.dom.le(yhi, ylo):
                            hi = hi - B(1)
                    else:
                        if self._better_lo(ylo, lo):
                            lo = ylo
                        if self._better_hi(yhi, hi):
                            hi = yhi
                continue
            if not (isinstance(c, tuple) and c and c[0] == "bin" and c[1] in ("Lt", "Le", "Gt", "Ge")):
                continue
            truth = (f[0] == "eq") == bool(f[2])
            op = c[1] if truth else {"Lt": "Ge", "Le": "Gt", "Gt": "Le", "Ge": "Lt"}[c[1]]
            for (x, y, flip) in ((c[2], c[3], False), (c[3], c[2], True)):
                if x != t:
                    continue
                o = op if not flip else {"Lt": "Gt", "Le": "Ge", "Gt": "Lt", "Ge": "Le"}[op]
                ylo, yhi = self._partner(y)
                if ylo is None:
                    continue
                if o == "Lt" and self._better_hi(yhi - B(1), hi):
                    hi = yhi - B(1)
                elif o == "Le" and self._better_hi(yhi, hi):
                    hi = yhi
                elif o == "Gt" and self._better_lo(ylo + B(1), lo):
                    lo = ylo + B(1)
                elif o == "Ge" and self._better_lo(ylo, lo):
                    lo = ylo
        return lo, hi

    def _linear(self, t, sign, atoms, const):
        """flatten a +/- chain into atom coefficients and a constant (None when a coefficient other than +-1 arises)"""
        if isinstance(t, tuple) and t and t[0] == "bin" and t[1] in ("Add", "Sub"):
            const = self._linear(t[2], sign, atoms, const)
            if const is None:
                return None
            return self._linear(t[3], sign if t[1] == "Add" else -sign, atoms, const)
        if isinstance(t, tuple) and t and t[0] == "int":
            return const + (B(t[1]) if sign > 0 else -B(t[1]))
        if t == self.sym:
            return const + (B(0, 1) if sign > 0 else -B(0, 1))
        atoms[t] = atoms.get(t, 0) + sign
        return const

    def _relational(self, t):
        """x - y (+ constants) under a path fact that orders x and y: the difference is bounded by the fact, not only by the
        two intervals (`if a >= b { a - b } else { a + M - b }`)"""
        atoms = {}
        const = self._linear(t, 1, atoms, B(0))
        if const is None:
            return None
        atoms = {a: c for a, c in atoms.items() if c != 0}
        pos = [a for a, c in atoms.items() if c == 1]
        neg = [a for a, c in atoms.items() if c == -1]
        if len(pos) != 1 or len(neg) != 1 or len(atoms) != 2:
            return None
        x, y = pos[0], neg[0]
        xlo, xhi = self._partner(x)
        ylo, yhi = self._partner(y)
        if None in (xlo, xhi, ylo, yhi):
            return None
        dlo, dhi = xlo - yhi, xhi - ylo
        found = False
        for f in self.facts:
            c = f[1]
            if f[0] not in ("eq", "ne") or not (isinstance(c, tuple) and c and c[0] == "bin" and c[1] in ("Lt", "Le", "Gt", "Ge") and f[2] in (0, 1)):
                continue
            truth = (f[0] == "eq") == bool(f[2])
            op = c[1] if truth else {"Lt": "Ge", "Le": "Gt", "Gt": "Le", "Ge": "Lt"}[c[1]]
            if (c[2], c[3]) == (y, x):
                op = {"Lt": "Gt", "Le": "Ge", "Gt": "Lt", "Ge": "Le"}[op]
            elif (c[2], c[3]) != (x, y):
                continue
            found = True
            if op == "Ge" and self._better_lo(B(0), dlo):
                dlo = B(0)
            elif op == "Gt" and self._better_lo(B(1), dlo):
                dlo = B(1)
            elif op == "Le" and self._better_hi(B(0), dhi):
                dhi = B(0)
            elif op == "Lt" and self._better_hi(B(-1), dhi):
                dhi = B(-1)
        if not found:
            return None
        return (dlo + const, dhi + const)

    def _partner(self, y):
        """interval of the other side of a comparison fact: obligations met while evaluating it are not
        recorded here (the term is evaluated in its own right wherever the program computes it)"""
        saved = self.obligations
        self.obligations = []
        try:
            return self._interval(y)
        finally:
            self.obligations = saved

    def _better_hi(self, new, old):
        return old is None or self.dom.le(new, old)

    def _better_lo(self, new, old):
        return old is None or self.dom.le(old, new)

    def _interval(self, t):
        if t in self.base:
            return self.base[t]
        if t == self.sym:
            return (B(0, 1), B(0, 1))
        h = t[0]
        if h == "int":
            return (B(t[1]), B(t[1]))
        if h == "cast" and t[1] == "IntToInt":
            lo, hi = self.interval(t[3])
            tr = self._type_range(t[2])
            if lo is None or tr is None:
                return tr if tr else (None, None)
            fits = self.dom.le(tr[0], lo) and self.dom.le(hi, tr[1])
            self.obligations.append(("cast %s as %s is value-preserving: [%s, %s] within the type" % (tstr(t[3]), t[2], lo, hi), fits, t))
            return (lo, hi) if fits else tr
        if h == "bin":
            op = t[1]
            if op in ("Add", "Sub"):
                alo, ahi = self.interval(t[2])
                blo, bhi = self.interval(t[3])
                if None in (alo, ahi, blo, bhi):
                    return (None, None)
                lo, hi = (alo + blo, ahi + bhi) if op == "Add" else (alo - bhi, ahi - blo)
                rel = self._relational(t)
                if rel is not None:
                    if self._better_lo(rel[0], lo):
                        lo = rel[0]
                    if self._better_hi(rel[1], hi):
                        hi = rel[1]
                return (lo, hi)
            if op == "Mul":
                alo, ahi = self.interval(t[2])
                blo, bhi = self.interval(t[3])
                if None in (alo, ahi, blo, bhi):
                    return (None, None)
                # both non-negative: monotone
                if self.dom.le(B(0), alo) and self.dom.le(B(0), blo):
                    lo, hi = alo.mul(blo), ahi.mul(bhi)
                    if lo is not None and hi is not None:
                        return (lo, hi)
                return (None, None)
            if op == "Rem":
                alo, ahi = self.interval(t[2])
                blo, bhi = self.interval(t[3])
                if None in (blo, bhi) or not self.dom.le(B(1), blo):
                    return (None, None)
                # truncating remainder by a positive divisor: |r| < divisor, sign of the dividend
                if alo is not None and self.dom.le(B(0), alo):
                    return (B(0), bhi - B(1))
                return (-(bhi - B(1)), bhi - B(1))
            if op == "Div":
                alo, ahi = self.interval(t[2])
                blo, bhi = self.interval(t[3])
                if None in (alo, ahi, blo, bhi):
                    return (None, None)
                if self.dom.le(B(0), alo) and self.dom.le(B(1), blo):
                    return (B(0), ahi)
                return (None, None)
        cs = self._checked_sub_payload(t)
        if cs is not None:
            # the payload of x.checked_sub(y) is x - y, and it exists only when x >= y
            alo, ahi = self.interval(cs[0])
            blo, bhi = self.interval(cs[1])
            if None in (alo, ahi, blo, bhi):
                return (None, None)
            lo = alo - bhi
            return (lo if self.dom.le(B(0), lo) else B(0), ahi - blo)
        if h == "call":
            for suf, fn in self.summaries.items():
                if str(t[1]).endswith(suf):
                    r = fn(self, t)
                    if r is not None:
                        return r[0]
            nm = str(t[1])
            if nm.endswith("::rem_euclid") and len(t[2]) >= 2:
                blo, bhi = self.interval(t[2][1])
                if blo is not None and self.dom.le(B(1), blo):
                    return (B(0), bhi - B(1))
            if (nm.endswith("From<u32>>::from") or nm.endswith("convert::From::from") or nm.endswith("::from")) and len(t[2]) >= 1 and self._is_int_conv(t):
                return self.interval(t[2][0])
        ty = self.I.tys.get(t)
        tr = self._type_range(ty) if ty else None
        if tr:
            return tr
        self.unknown.append(t)
        return (None, None)

    # ---- congruence modulo S --------------------------------------------------------------------
    def cong(self, t):
        if t in self.cong_base:
            return self.cong_base[t]
        if t == self.sym:
            return Poly.const(0)
        h = t[0]
        if h == "int":
            return Poly.const(t[1])
        cs = self._checked_sub_payload(t)
        if cs is not None:
            a, b = self.cong(cs[0]), self.cong(cs[1])
            return None if a is None or b is None else a - b
        if h == "cast" and t[1] == "IntToInt":
            # only meaningful when the cast is value-preserving (obligation recorded by interval())
            return self.cong(t[3])
        if h == "bin":
            op = t[1]
            if op in ("Add", "Sub", "Mul"):
                a, b = self.cong(t[2]), self.cong(t[3])
                if a is None or b is None:
                    return None
                return a + b if op == "Add" else a - b if op == "Sub" else a * b
            if op == "Rem":
                # x % S' where S' is (a value-preserving cast of) the symbol
                d = self._strip_conv(t[3])
                if d == self.sym:
                    return self.cong(t[2])
        if h == "call":
            for suf, fn in self.summaries.items():
                if str(t[1]).endswith(suf):
                    r = fn(self, t)
                    if r is not None:
                        return r[1]
            nm = str(t[1])
            if nm.endswith("::rem_euclid") and len(t[2]) >= 2 and self._strip_conv(t[2][1]) == self.sym:
                return self.cong(t[2][0])
            if nm.endswith("::from") and len(t[2]) >= 1 and self._is_int_conv(t):
                return self.cong(t[2][0])
        return None

    def _checked_sub_payload(self, t):
        """(x, y) when t is the Some-payload of x.checked_sub(y)"""
        if isinstance(t, tuple) and len(t) == 3 and t[0] == "proj" and t[1] == 0 and isinstance(t[2], tuple) and t[2] and t[2][0] == "down" and t[2][2] == 1:
            c = t[2][1]
            if isinstance(c, tuple) and c and c[0] == "call" and str(c[1]).endswith("::checked_sub") and len(c[2]) >= 2:
                return c[2][0], c[2][1]
        return None

    def _strip_conv(self, d):
        while isinstance(d, tuple) and d and (d[0] == "cast" or (d[0] == "call" and str(d[1]).endswith("::from") and self._is_int_conv(d))):
            d = d[3] if d[0] == "cast" else d[2][0]
        return d

    def _is_int_conv(self, t):
        """a lossless integer widening <T as From<U>>::from: the result type is an integer type and so is the argument"""
        ty = self.I.tys.get(t)
        a = t[2][0] if t[2] else None
        aty = self.I.tys.get(a) if a is not None else None
        if a == self.sym:
            aty = aty or "u32"
        return ty in INT_RANGE and (aty in INT_RANGE or a == self.sym or (isinstance(a, tuple) and a and a[0] in ("proj", "load", "param", "cast", "bin")))
