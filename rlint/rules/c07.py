"""C07 — Rational: canonical-form discipline, operator families, Eq/Hash/Ord coherence, sign of
norm, cross-multiplication identities.  DESIGN.md §4 C07."""
import re as _re
from .. import util
from ..absint import tstr, mk_int, subterms, strip_mem
from ..core import Anchor
from ..polyid import Poly, Translator

PID = "C07"
LEVEL = "other"
CRATES = ["rlib_rational", "rlib_gcd"]
RELEASE = True
NO_HIDDEN_STATE = ['rlib_rational', 'rlib_gcd']   # driver rule STATE: these crates are plain data structures / functions
ARMED = True
ENGINES = ["E3", "E7", "E4c"]
TECHNIQUE = "construction-site rule (every Rational aggregate is normalised, has denominator ONE, or is a sign-preserving rebuild), resolved-callee family agreement of the 16 operator impls, derive/impl coherence table, sign post-condition of norm from its branch structure, polynomial normal-form identities for the arguments handed to the normalising constructor"
LEVEL_TEXT = (
    "Decides the structural conditions under which structural equality/hash coincide with numeric equality and the operators return "
    "the exact value: every construction site yields a canonical value (through norm, or with denominator ONE, or by negating only "
    "the numerator of a canonical value); norm divides both fields by the same gcd and negates both exactly when the denominator "
    "is negative; each of + - * / hands the normalising constructor a numerator/denominator pair satisfying the cross-multiplication "
    "identity as polynomials; all assigning / by-value forms resolve to the by-reference impl of the SAME trait; PartialEq/Eq/Hash "
    "are derived on the same fields and cmp is sign((self - rhs).a). 'Lowest terms' (needs gcd's arithmetic meaning) and floor/ceil "
    "(rounding of truncating division) are not decided."
)
LEVEL_NOTE = "trusted: rustc MIR, exporter, operator impls of the Integer trait are the integer operations; gcd(a,b) > 0 for b != 0 (C11 Q2 gives >= 0); no overflow of cross products (the property's bound)"
EXPLANATION = (
    "N1 every hand-written Rational aggregate is (a) normalised before it escapes (`new`: aggregate -> norm(&mut r) -> return), (b) built "
    "with b = ONE, or (c) Neg: a negated, b moved unchanged; every binary operator returns Self::new(..). N2 OpAssign<&Self> = "
    "self.clone() Op rhs of the same family stored back to *self; Op<Self> and OpAssign<Self> (Copy forms) resolve to the by-reference "
    "impl of the same trait (never to themselves). N3 PartialEq, Eq, Hash derived (same field set); Ord::cmp = cmp(&(self.clone() - rhs).a, "
    "&ZERO); PartialOrd = Some(cmp). N4 norm: both fields divided by the same g = gcd(a, b); the b < 0 branch stores b := -b and a := -a, "
    "the other branch stores nothing. N5 with x=a1/b1, y=a2/b2: the (num, den) handed to new satisfy num*(b1*b2) = (a1*b2 ± a2*b1)*den, "
    "num*(b1*b2) = (a1*a2)*den, num*(b1*a2) = (a1*b2)*den as polynomial identities. NOT decided: lowest terms, floor/ceil."
)
UNDECIDED = ["results are in lowest terms (needs the arithmetic meaning of gcd)", "floor/ceil rounding identities of truncating division"]
ASSUMPTIONS = ["denominators are non-zero", "no overflow of cross products (property's magnitude bound)"]
FIXTURES = [
    ("c07_bad_mul_raw", "bad", ["N1"]),
    ("c07_bad_subassign_adds", "bad", ["N2"]),
    ("c07_bad_manual_eq", "bad", ["N3"]),
    ("c07_bad_norm_neg_b_only", "bad", ["N4"]),
    ("c07_bad_sub_formula", "bad", ["N5"]),
]

OPS = {"Add": "add", "Sub": "sub", "Mul": "mul", "Div": "div"}


def _known_one(st, v):
    """the path's facts say v == T::ONE (an equality test against the constant, in either operand order)"""
    def un(x):
        return x[1][1] if isinstance(x, tuple) and x and x[0] == "ref" and x[1][0] == "constval" else x

    for f in st.facts:
        t = f[1]
        if f[0] != "eq" or not (isinstance(t, tuple) and t and t[0] == "call"):
            continue
        nm = str(t[1]).rsplit("::", 1)[-1]
        if nm not in ("eq", "ne") or "PartialEq" not in str(t[1]):
            continue
        args = [un(x) for x in t[2] if not (isinstance(x, tuple) and x and x[0] == "mem")]
        if len(args) != 2:
            continue
        equal = bool(f[2]) if nm == "eq" else not bool(f[2])
        is_one = lambda x: isinstance(x, tuple) and x and x[0] == "assoc" and x[2] == "ONE"
        if equal and ((args[0] == v and is_one(args[1])) or (args[1] == v and is_one(args[0]))):
            return True
    return False


def _impls(crate, adt_key):
    out = []
    for imp in crate.impls:
        if imp.get("self_adt") == adt_key:
            out.append(imp)
    return out


def _norm_functional(col, crate, norm, helpers, A, B):
    """the normaliser written as a function `fn normalized(self) -> Self`: on every path the result is
    (a / g, b / g) with g = gcd(a, b) of the argument's own fields, both negated exactly when the path's facts say
    the reduced denominator is negative, neither otherwise"""
    fk = util.fkey
    I = util.analyser(helpers, features=("fncall", "comb", "opassign"))(norm)
    p1 = ("param", 1, I.names.get(1))
    a0, b0 = ("proj", A, p1), ("proj", B, p1)

    def args(t):
        return [x[1][1] if isinstance(x, tuple) and x and x[0] == "ref" and x[1][0] == "constval" else x for x in t[2] if not (isinstance(x, tuple) and x and x[0] == "mem")]

    def is_g(t):
        while isinstance(t, tuple) and t and t[0] == "call" and str(t[1]).endswith("clone"):
            t = args(t)[0]
        if not (isinstance(t, tuple) and t and t[0] == "call" and str(t[1]).split("::")[-1] == "gcd"):
            return False
        ga = []
        for x in args(t):
            while isinstance(x, tuple) and x and x[0] == "call" and str(x[1]).endswith("clone"):
                x = args(x)[0]
            ga.append(x)
        return sorted(map(repr, ga)) == sorted(map(repr, [a0, b0]))

    def reduced(t, f0):
        return isinstance(t, tuple) and t and t[0] == "call" and str(t[1]).endswith("Div::div") and len(args(t)) == 2 and args(t)[0] == f0 and is_g(args(t)[1])

    def negated(t, f0):
        return isinstance(t, tuple) and t and t[0] == "call" and str(t[1]).endswith("Neg::neg") and reduced(args(t)[0], f0)

    seen = set()
    for st in I.final_states:
        r = util.ret_term(st)
        if not (r[0] == "agg" and isinstance(r[1], tuple) and r[1][0] == "adt" and len(r[2]) == 2):
            col.violation("N4", "%s|divide-both" % fk(norm), norm.loc(), "the normaliser does not return a Rational built from its argument's fields (%s)" % tstr(r)[:100])
            continue
        ra, rb = r[2][A], r[2][B]
        # sign of the reduced denominator on this path
        neg = None
        strict_seen = False
        for f in sorted(st.facts, key=lambda f_: 0 if isinstance(f_[1], tuple) and f_[1] and f_[1][0] == "call" and str(f_[1][1]).endswith(("::lt", "::ge")) else 1):
            t = f[1]
            if isinstance(t, tuple) and t and t[0] == "discr" and isinstance(t[1], tuple) and t[1] and t[1][0] == "call" and str(t[1][1]).endswith("Ord::cmp"):
                ca = args(t[1])
                if len(ca) == 2 and reduced(ca[0], b0) and isinstance(ca[1], tuple) and ca[1][0] == "assoc" and ca[1][2] == "ZERO":
                    if f[0] == "eq" and f[2] in (-1, 255):
                        neg = True
                    elif (f[0] == "ne" and f[2] in (-1, 255)) or (f[0] == "eq" and f[2] in (0, 1)):
                        neg = False
            if isinstance(t, tuple) and t and t[0] == "call" and str(t[1]).endswith(("PartialOrd::lt", "PartialOrd::ge", "PartialOrd::le", "PartialOrd::gt")) and f[0] == "eq":
                ca = args(t)
                if len(ca) == 2 and reduced(ca[0], b0) and isinstance(ca[1], tuple) and ca[1][0] == "assoc" and ca[1][2] == "ZERO":
                    weak = str(t[1]).endswith(("::le", "::gt"))   # b <= 0 / b > 0: the same test, a denominator is never zero
                    if weak and strict_seen:
                        continue   # (a `debug_assert!(b > 0)` after the repair is not the branch)
                    strict_seen = strict_seen or not weak
                    neg = bool(f[2]) if str(t[1]).endswith(("::lt", "::le")) else not bool(f[2])
        key = "%s|%s" % (fk(norm), "negative-branch" if neg else "non-negative-branch")
        if neg is None:
            col.violation("N4", "%s|sign-test" % fk(norm), norm.loc(), "the normaliser does not branch on the sign of the reduced denominator")
            continue
        seen.add(neg)
        if neg and negated(ra, a0) and negated(rb, b0):
            col.ok("N4", norm.loc(), key, "b/g < 0: returns (-(a/g), -(b/g))")
        elif not neg and reduced(ra, a0) and reduced(rb, b0):
            col.ok("N4", norm.loc(), key, "b/g >= 0: returns (a/g, b/g)")
        else:
            col.violation("N4", key, norm.loc(), "the normaliser returns (%s, %s) on the path with the reduced denominator %s: expected both fields divided by g = gcd(a, b) and both negated exactly when it is negative" % (tstr(ra)[:70], tstr(rb)[:70], "negative" if neg else "non-negative"))
    if seen == {True, False}:
        col.ok("N4", norm.loc(), "%s|divide-both|functional" % fk(norm), "a/g, b/g with g = gcd(a, b) on both branches", nontrivial=False)
    else:
        col.violation("N4", "%s|divide-both" % fk(norm), norm.loc(), "expected a negative-denominator path and a non-negative one in the normaliser")


def _deep(t, p):
    if t == p:
        return True
    return isinstance(t, tuple) and any(_deep(x, p) for x in t)


def check(col, prog, tier, profile, fixture=None):
    crate = prog.crate(fixture or "rlib_rational")
    fk = util.fkey
    adt = util.need_adt(crate, "Rational")
    names = [f["name"] for f in util.fields_of(adt)]
    A, B = names.index("a"), names.index("b")
    new = util.need_body(crate, "Rational::<T>::new")
    # the normaliser is recognised by what it does (a private, non-recursive method reachable from new() that
    # takes the gcd of the two fields), under whatever name
    norm = util.resolve_role(crate, new, "norm", lambda b_: not util.self_recursive(b_) and any(str((t_["fn"].get("resolved") or t_["fn"]).get("path") or t_["fn"].get("path")).split("::")[-1] == "gcd" for _bb, t_ in b_.calls()), "the normalising helper behind Rational::new", named_ok=lambda _b: True)
    helpers = util.private_helpers(crate, "Rational", exclude=[new, norm]) + [f for f in crate.bodies if not f.is_closure and f.kind == "Fn" and f.container is None and f.vis != "pub" and not util.self_recursive(f)]
    # forwarding operator impls on reference receivers (`impl Add<&Rational> for &Rational { self.clone() + rhs }`)
    # are hops on the way to the primary by-reference impl: inlined
    fwd = []
    for imp_ in crate.impls:
        if str(imp_.get("self_ty") or "").startswith("&") and "Rational<" in str(imp_.get("self_ty")) and (imp_.get("trait") or "").split("::")[-1] in OPS:
            fwd += [crate.by_key[it_["key"]] for it_ in imp_["items"] if it_["key"] in crate.by_key]
    helpers = helpers + [f_ for f_ in fwd if not util.self_recursive(f_)]
    An = util.analyser(helpers, features=("fncall", "comb"))  # closures handed to private helpers / Option combinators are followed
    col.rule("N1", "every Rational construction is normalised, has b = ONE, or negates only the numerator; operators return Self::new", floor=8)
    col.rule("N2", "assigning / Copy operator forms resolve to the by-reference impl of the same family", floor=12)
    col.rule("N3", "PartialEq/Eq/Hash derived on the same fields; cmp = sign((self - rhs).a); partial_cmp = Some(cmp)", floor=5)
    col.rule("N4", "norm divides both fields by the same gcd and negates both iff b < 0; gcd is Euclid's loop on the absolute values", floor=3)
    col.rule("N5", "cross-multiplication identities of + - * / as polynomial normal forms", floor=4)

    # ---------------- N1 aggregates
    clone_ok = util.structural_clone_bodies(crate, adt)   # a hand-written Clone verified to copy field by field
    for b in crate.bodies:
        imp = crate.impl_of(b)
        if (imp is not None and imp.get("derived")) or b.key in clone_ok:
            continue
        sites = [(bb, idx) for bb, idx, s in b.statements() if s["k"] == "assign" and s["rv"]["k"] == "agg" and s["rv"]["ak"]["k"] == "adt" and s["rv"]["ak"]["def"] == adt["key"]]
        if not sites:
            continue
        if b.key == norm.key:
            continue   # a normaliser written as a function builds its result itself: judged by N4
        I = An(b)
        for st in I.final_states:
            ret = util.ret_term(st)
            evs = st.event_list()
            key = "%s|aggregate" % fk(b)
            loc = b.loc(sites[0][0], sites[0][1])
            if ret[0] == "out":
                # value mutated by a call: must be norm
                nc = [e for e in evs if e.kind == "call" and (e.fn.get("resolved") or e.fn).get("def") == norm.key and e.extra.get("uid") == ret[1]]
                if nc:
                    col.ok("N1", loc, key, "aggregate flows through norm before it is returned")
                else:
                    col.violation("N1", key, loc, "%s builds a Rational that is modified by something other than norm before escaping" % b.path)
                continue
            if ret[0] == "call" and ret[1] in (norm.path, norm.key) or (ret[0] == "call" and any(e.kind == "call" and e.res == ret and (e.fn.get("resolved") or e.fn).get("def") == norm.key for e in evs)):
                col.ok("N1", loc, key, "the aggregate is handed to the normaliser and its result returned")
                continue
            if ret[0] == "load" and ret[2] == ("deref", ("param", 1, I.names.get(1))) and not [e for e in evs if e.kind == "store"]:
                col.ok("N1", loc, key, "returns a copy of self (an existing value)")
                continue
            if ret[0] == "agg" and isinstance(ret[1], tuple) and ret[1][0] == "adt":
                bv, av = ret[2][B], ret[2][A]
                if (bv[0] == "assoc" and bv[2] == "ONE") or _known_one(st, bv):
                    col.ok("N1", loc, key, "denominator is ONE")
                    continue
                # Neg: b is the operand's own b, a is its negation
                p1 = ("param", 1, I.names.get(1))
                if bv == ("proj", B, p1) and av[0] == "call" and str(av[1]).endswith("Neg::neg") and any(s == ("proj", A, p1) for s in subterms(av)):
                    col.ok("N1", loc, key, "sign-preserving rebuild: -a over the unchanged positive b")
                    continue
                col.violation("N1", key, loc, "%s returns a raw Rational{%s, %s} that was not normalised: structural equality and hashing no longer coincide with numeric equality" % (b.path, tstr(av), tstr(bv)))
            else:
                col.violation("N1", key, loc, "%s: cannot follow the constructed Rational to the return value (%s)" % (b.path, tstr(ret)))

    # operators return Self::new and N5 identities
    byref = {}
    for imp in _impls(crate, adt["key"]):
        tr = (imp.get("trait") or "").split("::")[-1]
        if tr in OPS and imp.get("trait_args") and imp["trait_args"][-1].startswith("&"):
            for it in imp["items"]:
                if it["name"] == OPS[tr]:
                    byref[tr] = crate.by_key[it["key"]]
    if sorted(byref) != sorted(OPS):
        raise Anchor("expected by-reference impls of Add/Sub/Mul/Div for Rational, found %s" % sorted(byref))
    for tr, b in sorted(byref.items()):
        I = An(b)
        for st in I.final_states:
            ret = util.ret_term(st)
            evs = st.event_list()
            nc = [e for e in evs if e.kind == "call" and (e.fn.get("resolved") or e.fn).get("def") == new.key]
            key = "%s|returns-new" % fk(b)
            if not (len(nc) == 1 and ret == nc[0].res):
                col.violation("N1", key, b.loc(), "%s does not return the result of the normalising constructor Self::new" % b.path)
                continue
            col.ok("N1", b.loc(nc[0].bb), key, "returns Self::new(num, den)")
            T = Translator()
            num, den = T.poly(nc[0].args[0]), T.poly(nc[0].args[1])
            s_, r_ = ("param", 1, I.names.get(1)), ("deref", ("param", 2, I.names.get(2)))
            a1, b1 = T.poly(("proj", A, s_)), T.poly(("proj", B, s_))
            a2, b2 = Poly.var(("load", None, strip_mem(("field", r_, A)))), Poly.var(("load", None, strip_mem(("field", r_, B))))
            if tr == "Add":
                lhs, rhs = num * (b1 * b2), (a1 * b2 + a2 * b1) * den
            elif tr == "Sub":
                lhs, rhs = num * (b1 * b2), (a1 * b2 - a2 * b1) * den
            elif tr == "Mul":
                lhs, rhs = num * (b1 * b2), (a1 * a2) * den
            else:
                lhs, rhs = num * (b1 * a2), (a1 * b2) * den
            key = "%s|identity" % fk(b)
            # the envelope: the pair handed to the constructor is a product of at most two operand fields per term (the
            # documented cross-multiplication); a common extra factor is reduced away by norm but overflows sooner
            deg = max([sum(e for _v, e in k) for pl in (num, den) for k in pl.t] or [0])
            if lhs == rhs and not den.is_zero() and deg > 2:
                col.violation("N5", key, b.loc(nc[0].bb), "%s hands Self::new the pair (%s, %s): the value is right but the products have degree %d in the operands' fields instead of 2, so they leave the integer type for operands well inside the envelope in which the documented cross-multiplication is exact" % (b.path, num, den, deg))
                continue
            if lhs == rhs and not den.is_zero():
                col.ok("N5", b.loc(nc[0].bb), key, "num/den = (%s) / (%s) satisfies the cross-multiplication identity" % (num, den))
            else:
                col.violation("N5", key, b.loc(nc[0].bb), "%s hands Self::new the pair (%s, %s), which is not the exact %s of the operands: residual %s" % (b.path, num, den, {"Add": "sum", "Sub": "difference", "Mul": "product", "Div": "quotient"}[tr], lhs - rhs))

    # ---------------- N4 (continued): the gcd the normaliser divides by — the property's files include rlib/gcd
    gc = prog.crates.get("rlib_gcd") if not fixture else None
    if gc is not None:
        from . import c11

        gb = util.need_body(gc, "gcd")
        c11.rule_gcd(col, gb, c11.gcd_analyser(prog, gc), rid="N4")
        # what gcd and norm stand on for the primitive integer types (ZERO, ONE, abs / into_abs of rlib_num_traits)
        c11.rule_integer_prims(col, prog, rid="N6")

    # ---------------- N2 families
    for imp in _impls(crate, adt["key"]):
        tr = (imp.get("trait") or "").split("::")[-1]
        base = tr[: -len("Assign")] if tr.endswith("Assign") else tr
        if base not in OPS:
            continue
        targs = imp.get("trait_args") or []
        rhs_ref = bool(targs) and targs[-1].startswith("&")
        assign = tr.endswith("Assign")
        if not assign and rhs_ref:
            continue  # the primary impls, handled above
        name = OPS[base] + ("_assign" if assign else "")
        b = crate.by_key[[it["key"] for it in imp["items"] if it["name"] == name][0]]
        I = An(b)
        for st in I.final_states:
            calls = [e for e in st.event_list() if e.kind == "call" and not e.extra.get("inlined") and (e.extra.get("name") in (OPS[x] for x in OPS) or (e.extra.get("name") or "").endswith("_assign"))]
            key = "%s|family" % fk(b)
            ok = len(calls) == 1
            detail = "%d operator calls" % len(calls)
            if ok:
                e = calls[0]
                tdef = (e.fn.get("resolved") or e.fn).get("def")
                ctr = (e.fn.get("trait") or "").split("::")[-1]
                if tdef == b.key:
                    ok = False
                    detail = "calls itself (unconditional recursion)"
                elif assign and rhs_ref:
                    # *self = self.clone() Op rhs
                    ok = ctr == base and tdef == byref[base].key
                    selfp = ("deref", ("param", 1, I.names.get(1)))
                    stores = [x for x in st.event_list() if x.kind == "store" and x.place == selfp]
                    # the left operand is the old *self (cloned, or moved out with mem::replace / mem::take, which
                    # leave a placeholder that the final store overwrites)
                    ok = ok and stores and stores[-1].val == e.res and e.args[0] == ("load", ("m0",), selfp) and e.args[1] in (("param", 2, I.names.get(2)), ("ref", ("deref", ("param", 2, I.names.get(2)))))
                    ok = ok and all(st_.val == e.res or (st_.val[0] in ("assoc", "call") and st_ is not stores[-1]) for st_ in stores)
                    detail = "calls %s::%s" % (ctr, e.extra.get("name"))
                elif assign:
                    # Copy form: self.op_assign(&rhs) of the by-ref assign impl
                    ok = ctr == tr and "&" in "".join(e.fn.get("args") or []) and e.args[0] == ("ref", ("deref", ("param", 1, I.names.get(1))))
                    ok = ok and e.extra["argvals"][1] == ("param", 2, I.names.get(2))
                    detail = "calls %s::%s" % (ctr, e.extra.get("name"))
                else:
                    p2_ = ("param", 2, I.names.get(2))
                    rhs_ok = e.extra["argvals"][1] == p2_ or e.args[1] == ("ref", ("constval", p2_))
                    ok = ctr == base and tdef == byref[base].key and e.args[0] == ("param", 1, I.names.get(1)) and rhs_ok and util.ret_term(st) == e.res
                    detail = "calls %s::%s" % (ctr, e.extra.get("name"))
            if ok:
                col.ok("N2", b.loc(), key, "%s -> %s" % (tr, detail))
            else:
                col.violation("N2", key, b.loc(), "%s does not delegate to the by-reference %s impl on (self, rhs): %s" % (b.path, base, detail))

    # ---------------- N3
    eq_ok, eq_why = util.structural_eq(crate, adt)
    hash_ok, hash_why = util.structural_hash(crate, adt)
    has_eq = any(i.get("self_adt") == adt["key"] and str(i.get("trait") or "").endswith("cmp::Eq") for i in crate.impls)
    for tr, good, why_ in (("PartialEq", eq_ok, eq_why), ("Eq", eq_ok and has_eq, eq_why if has_eq else "no Eq impl"), ("Hash", hash_ok, hash_why)):
        key = "Rational|%s-derived" % tr
        if good:
            col.ok("N3", "%s:%d" % (adt["span"]["file"], adt["span"]["line"]), key, "structural over fields a, b (%s)" % why_, nontrivial=False)
        else:
            col.violation("N3", key, "%s:%d" % (adt["span"]["file"], adt["span"]["line"]), "%s for Rational is not the structural one (%s): equality and hashing must both be field by field on the canonical form to stay coherent" % (tr, why_))
    sub = byref["Sub"]
    for b in crate.bodies:
        imp = crate.impl_of(b)
        if imp is None or imp.get("self_adt") != adt["key"]:
            continue
        tr = (imp.get("trait") or "").split("::")[-1]
        if tr == "Ord" and b.name == "cmp":
            I = An(b)
            for st in I.final_states:
                ret = util.ret_term(st)
                ok = ret[0] == "call" and str(ret[1]).endswith("Ord::cmp")
                if ok:
                    args = [x for x in ret[2] if not (isinstance(x, tuple) and x and x[0] == "mem")]
                    lhs = args[0][1][1] if args[0][0] == "ref" and args[0][1][0] == "constval" else args[0]
                    if args[0][0] == "ref" and args[0][1][0] == "field" and args[0][1][1][0] == "constval":
                        # `diff.sign()` with the helper inlined: &(diff).a
                        lhs = ("proj", args[0][1][2], args[0][1][1][1])
                    rhs = args[1][1][1] if args[1][0] == "ref" and args[1][1][0] == "constval" else args[1]
                    ok = lhs[0] == "proj" and lhs[1] == A and lhs[2][0] == "call" and bool(_re.search(r"Sub<&Rational<\w+>>>::sub$", str(lhs[2][1]))) and rhs[0] == "assoc" and rhs[2] == "ZERO"
                    if ok:
                        sargs = lhs[2][2]
                        ok = sargs[0][0] == "load" and sargs[0][2] == ("deref", ("param", 1, I.names.get(1))) and sargs[1] in (("param", 2, I.names.get(2)), ("ref", ("deref", ("param", 2, I.names.get(2)))))
                key = "%s|sign-of-difference" % fk(b)
                if not ok and ret[0] == "agg" and isinstance(ret[1], tuple) and ret[1][0] == "adt" and ret[1][3] == "Equal":
                    # a fast path: the operands compare equal (structural equality on the canonical form is numeric
                    # equality, judged above), so the difference is zero
                    p1_, p2_ = ("param", 1, I.names.get(1)), ("param", 2, I.names.get(2))
                    for f in st.facts:
                        t = f[1]
                        if f[0] == "eq" and f[2] == 1 and isinstance(t, tuple) and t and t[0] == "call" and "PartialEq" in str(t[1]) and str(t[1]).endswith("::eq"):
                            ments = [any(x == p for x in subterms(t)) or any(_deep(t, p) for _ in (0,)) for p in (p1_, p2_)]
                            if all(ments) and eq_ok:
                                ok = True
                    if ok:
                        col.ok("N3", b.loc(), key + "|equal-fast-path", "self == rhs -> Equal")
                        continue
                if ok:
                    col.ok("N3", b.loc(), key, "cmp = (self - rhs).a.cmp(&ZERO)")
                else:
                    col.violation("N3", key, b.loc(), "Ord::cmp is not the sign of the numerator of (self - rhs): order is not the numeric order / not consistent with equality (%s)" % tstr(ret))
        if tr == "PartialOrd" and b.name == "partial_cmp":
            I = An(b)
            for st in I.final_states:
                ret = util.ret_term(st)
                ok = ret[0] == "agg" and ret[1][3] == "Some" and ret[2][0][0] == "call" and str(ret[2][0][1]).endswith("Ord>::cmp")
                if ok:
                    # ... of self with rhs, in this order (`self.cmp(self)` says every pair is equal)
                    p1_, p2_ = ("param", 1, I.names.get(1)), ("param", 2, I.names.get(2))
                    ca = [x for x in ret[2][0][2] if not (isinstance(x, tuple) and x and x[0] == "mem")]
                    ok = len(ca) == 2 and ca[0] in (p1_, ("ref", ("deref", p1_))) and ca[1] in (p2_, ("ref", ("deref", p2_)))
                key = "%s|some-cmp" % fk(b)
                if ok:
                    col.ok("N3", b.loc(), key, "partial_cmp = Some(cmp)")
                else:
                    col.violation("N3", key, b.loc(), "partial_cmp must be Some(self.cmp(rhs))")

    # ---------------- N4
    by_value = not str(norm.locals[1]["ty"]).startswith("&")
    if by_value:
        _norm_functional(col, crate, norm, helpers, A, B)
    I = An(norm)
    selfp = ("deref", ("param", 1, I.names.get(1)))
    fa, fb = ("field", selfp, A), ("field", selfp, B)
    for st in ([] if by_value else I.final_states):
        evs = st.event_list()
        g = [e for e in evs if e.kind == "call" and str(e.callee).split("::")[-1] == "gcd"]
        da = [e for e in evs if e.kind == "call" and e.extra.get("name") == "div_assign"]
        if len(g) > 1:
            # further gcd calls after the divisions (a debug_assert!(gcd(a, b) == ONE) post-condition) are not the divisor
            used = [e for e in g if any((d_.extra.get("argvals") or [None, None])[1] == e.res for d_ in da)]
            g = used or g[:1]
        okdiv = len(g) == 1 and len(da) == 2 and {e.args[0] for e in da} == {("ref", fa), ("ref", fb)} and all(e.extra["argvals"][1] == g[0].res for e in da)
        okdiv = okdiv and {strip_mem(x) for x in g[0].args} == {("load", None, fa), ("load", None, fb)}
        if not okdiv and len(g) == 1 and not da and _known_one(st, g[0].res) and {strip_mem(x) for x in g[0].args} == {("load", None, fa), ("load", None, fb)}:
            okdiv = True  # gcd == ONE on this path: dividing both fields by one is skipped
        # the sign test is the FIRST comparison of b with ZERO on the path (assertions after the repair restate the result)
        neg = None
        truth_of = {f[1]: bool(f[2]) for f in st.facts if f[0] == "eq" and f[2] in (0, 1)}
        for e in evs:
            if neg is not None:
                break
            if e.kind != "call" or not str(e.callee).endswith(("PartialOrd::lt", "PartialOrd::ge", "PartialOrd::le", "PartialOrd::gt")) or e.res not in truth_of:
                continue
            args = [x for x in e.res[2] if not (isinstance(x, tuple) and x and x[0] == "mem")]   # (the result term: operands as values)
            if len(args) == 2 and args[0] == ("ref", fb) and args[1][0] == "ref" and args[1][1][0] == "constval" and args[1][1][1][0] == "assoc" and args[1][1][1][2] == "ZERO":
                # (b <= 0 / b > 0 are the same test: a denominator is never zero)
                neg = truth_of[e.res] if str(e.callee).endswith(("::lt", "::le")) else not truth_of[e.res]
        final_a, final_b = I.load(st.mem, fa), I.load(st.mem, fb)
        after_div = da[-1].state[1] if da else None
        if not g and not da and not any(e.kind == "store" for e in evs):
            # nothing done on this path: right when the denominator is known to be ONE (gcd(a, 1) = 1, and 1 > 0)
            unit = False
            for e in evs:
                if e.kind == "call" and str(e.callee).endswith(("PartialEq::eq", "PartialEq::ne")) and e.res in truth_of:
                    as_ = [x for x in e.res[2] if not (isinstance(x, tuple) and x and x[0] == "mem")]
                    is_one = lambda x: x[0] == "ref" and x[1][0] == "constval" and x[1][1][0] == "assoc" and x[1][1][2] == "ONE"
                    if len(as_) == 2 and ((as_[0] == ("ref", fb) and is_one(as_[1])) or (as_[1] == ("ref", fb) and is_one(as_[0]))):
                        unit = unit or (truth_of[e.res] == str(e.callee).endswith("::eq"))
            if unit:
                col.ok("N4", norm.loc(), "%s|unit-denominator" % fk(norm), "b == 1: already in lowest terms with a positive denominator", nontrivial=False)
                continue
        key = "%s|%s" % (fk(norm), "negative-branch" if neg else "non-negative-branch")
        if not okdiv:
            col.violation("N4", "%s|divide-both" % fk(norm), norm.loc(), "norm must divide both fields by the same g = gcd(a, b)")
            continue
        col.ok("N4", norm.loc(), "%s|divide-both|%s" % (fk(norm), neg), "a /= g; b /= g with g = gcd(a, b)", nontrivial=False)
        if neg is None:
            col.violation("N4", "%s|sign-test" % fk(norm), norm.loc(), "norm does not branch on b < ZERO")
            continue
        stores = [e for e in evs if e.kind == "store"]
        if neg:
            def is_neg_of(v, pl):
                return v[0] == "call" and str(v[1]).endswith("Neg::neg") and any(s[0] == "load" and s[2] == pl for s in subterms(v)) and not any(s[0] == "call" and str(s[1]).endswith("Neg::neg") for s in subterms(v[2]))
            ok = is_neg_of(final_a, fa) and is_neg_of(final_b, fb)
            if ok:
                col.ok("N4", norm.loc(), key, "b < 0: a := -a and b := -b")
            else:
                col.violation("N4", key, norm.loc(), "in the b < 0 branch norm must negate BOTH fields (got a := %s, b := %s): the value changes sign or the denominator stays negative" % (tstr(final_a), tstr(final_b)))
        else:
            if not stores:
                col.ok("N4", norm.loc(), key, "b >= 0: nothing else changes")
            else:
                col.violation("N4", key, norm.loc(), "norm modifies the value although the denominator is already non-negative")
