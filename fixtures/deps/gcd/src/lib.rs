use rlib_num_traits::*;

pub fn gcd<T: Integer>(a: T, b: T) -> T {
    let mut a = a.into_abs();
    let mut b = b.into_abs();
    while b != T::ZERO {
        a %= &b;
        std::mem::swap(&mut a, &mut b);
    }
    a
}

pub fn lcm<T: Integer>(a: T, b: T) -> T {
    let b_abs = b.abs();
    a.abs() / &gcd(a, b) * &b_abs
}

pub fn egcd<T: Integer>(a: T, b: T, c: T) -> Option<(T, T)> {
    if a == T::ZERO {
        if c.clone() % &b != T::ZERO {
            return None;
        }
        return Some((T::ZERO, c / &b));
    }
    let (y0, x0) = egcd(b.clone() % &a, a.clone(), c)?;
    Some((x0 - &((b / &a) * &y0), y0))
}

pub fn crt<T: Integer + std::ops::Neg<Output = T>>(a1: T, m1: T, a2: T, m2: T) -> Option<T> {
    let g = gcd(m1.clone(), m2.clone());
    let (x, _) = egcd(m1.clone(), -m2.clone(), a2 - &a1)?;
    let m2 = m2 / &g;
    let x = (x % &m2 + &m2) % &m2;
    Some(m1 * &x + &a1)
}
