pub fn iter_neighbours_4(n: usize, m: usize, i: usize, j: usize) -> impl Iterator<Item = (usize, usize)> {
    let n = n as isize;
    let m = m as isize;
    let i = i as isize;
    let j = j as isize;
    [(0, 1), (-1, 0), (0, -1), (1, 0)]
        .into_iter()
        .filter(move |&(x, y)| i + x >= 0 && i + x < n && j + y >= 0 && j + y < m)
        .map(move |(x, y)| ((i + x) as usize, (j + y) as usize))
}

pub fn iter_neighbours_4d(n: usize, m: usize, i: usize, j: usize) -> impl Iterator<Item = (usize, usize)> {
    let n = n as isize;
    let m = m as isize;
    let i = i as isize;
    let j = j as isize;
    [(-1, 1), (-1, -1), (1, -1), (1, 1)]
        .into_iter()
        .filter(move |&(x, y)| i + x >= 0 && i + x < n && j + y >= 0 && j + y < m)
        .map(move |(x, y)| ((i + x) as usize, (j + y) as usize))
}

pub fn iter_neighbours_8(n: usize, m: usize, i: usize, j: usize) -> impl Iterator<Item = (usize, usize)> {
    let n = n as isize;
    let m = m as isize;
    let i = i as isize;
    let j = j as isize;
    [(0, 1), (-1, 1), (-1, 0), (-1, -1), (0, -1), (1, -1), (1, 0), (1, 1)]
        .into_iter()
        .filter(move |&(x, y)| i + x >= 0 && i + x < n && j + y >= 0 && j + y < m)
        .map(move |(x, y)| ((i + x) as usize, (j + y) as usize))
}
