#[derive(Clone, Debug)]
pub struct DSU {
    p: Vec<usize>,
    sz: Vec<usize>,
}

impl DSU {
    pub fn new(n: usize) -> Self {
        Self {
            p: (0..n).collect(),
            sz: vec![1; n],
        }
    }

    pub fn reset(&mut self, n: usize) {
        self.p.resize(n, 0);
        for i in 0..n {
            self.p[i] = i;
        }
        self.sz.resize(n, 0);
        for i in 0..n {
            self.sz[i] = 1;
        }
    }

    pub fn par(&mut self, v: usize) -> usize {
        if self.p[v] != v {
            self.p[v] = self.par(self.p[v]);
        }
        self.p[v]
    }

    pub fn un(&mut self, mut u: usize, mut v: usize) -> bool {
        u = self.par(u);
        v = self.par(v);
        if u == v {
            return false;
        }
        let (small, large) = if self.sz[u] > self.sz[v] { (v, u) } else { (u, v) };
        self.link(large, small);
        true
    }

    fn link(&mut self, child: usize, root: usize) {
        self.p[child] = root;
        self.sz[root] += self.sz[child];
    }

    pub fn check(&mut self, u: usize, v: usize) -> bool {
        self.par(u) == self.par(v)
    }

    pub fn size(&mut self, v: usize) -> usize {
        let v = self.par(v);
        self.sz[v]
    }
}
