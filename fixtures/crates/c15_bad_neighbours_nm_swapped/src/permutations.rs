pub struct PermutationIter<T> {
    data: Vec<T>,
    first: bool,
}

pub fn iter_permutations<T: Ord + Clone>(mut data: Vec<T>) -> impl Iterator<Item = Vec<T>> {
    data.sort();
    PermutationIter { data, first: true }
}

pub fn next_permutation<T: Ord>(data: &mut [T]) -> bool {
    for i in (1..data.len()).rev() {
        if data[i - 1] < data[i] {
            let mut j = i;
            while j + 1 < data.len() && data[j + 1] > data[i - 1] {
                j += 1;
            }
            data.swap(i - 1, j);
            data[i..].reverse();
            return true;
        }
    }
    data.reverse();
    false
}

impl<T: Ord + Clone> Iterator for PermutationIter<T> {
    type Item = Vec<T>;

    fn next(&mut self) -> Option<Self::Item> {
        if self.first {
            self.first = false;
            return Some(self.data.clone());
        }
        if next_permutation(&mut self.data) {
            Some(self.data.clone())
        } else {
            None
        }
    }
}
