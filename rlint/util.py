"""Shared helpers for rule packs (anchor lookup, role inference, site keys)."""
from . import absint, cfg as cfgmod, zones
from .absint import tstr
from .core import Anchor

_cache = {}


def _kwkey(v):
    try:
        hash(v)
        return v
    except TypeError:
        return ("id", id(v))


def analyse(body, **kw):
    # (the key holds the option values, not only their names: two analysers with different inline sets or features must
    # not share results)
    k = (id(body), tuple(sorted((n, _kwkey(v)) for n, v in kw.items())))
    r = _cache.get(k)
    if r is None or r[0] is not body:
        I = absint.analyse(body, **kw)
        _cache[k] = (body, I)
        return I
    return r[1]


NEEDED = []   # (crate, body) pairs a rule pack asked for by name: the entry points it judges


def need_body(crate, name):
    b = crate.body(name)
    if b is None:
        raise Anchor("function %s not found in crate %s" % (name, crate.name))
    NEEDED.append((crate, b))
    return b


def rule_entry_names(col, rid="ENTRY"):
    """A public free function that a pack judges by name must be what callers of that name get: another public free function of
    the same name elsewhere in the crate (a wrapper placed where the re-export used to be) either forwards to it unchanged or
    is an implementation nobody has looked at."""
    seen = set()
    col.rule(rid, "no second public free function carries the name of a judged entry point, except a plain forwarder to it", floor=0)
    for crate, b in NEEDED:
        if b.kind != "Fn" or b.container is not None or b.vis != "pub" or b.key in seen:
            continue
        seen.add(b.key)
        for o in crate.bodies:
            if o.key == b.key or o.is_closure or o.kind != "Fn" or o.container is not None or o.vis != "pub" or o.name != b.name:
                continue
            I = analyse(o)
            fwd = bool(I.final_states)
            for st in I.final_states:
                calls = [e for e in st.event_list() if e.kind == "call"]
                own = [e for e in calls if (e.fn.get("resolved") or e.fn).get("def") == b.key]
                params = [("param", i + 1, I.names.get(i + 1)) for i in range(o.arg_count)]
                fwd = fwd and len(calls) == 1 and len(own) == 1 and list(own[0].args) == params and ret_term(st) == own[0].res
            key = "%s|same-name|%s" % (fkey(b), fkey(o))
            if fwd:
                col.ok(rid, o.loc(), key, "forwards to %s unchanged" % b.path, nontrivial=False)
            else:
                col.violation(rid, key, o.loc(), "%s is a second public function named `%s`: callers of that name may get it instead of %s, and it is not a plain forwarder to it (the rules of this property were applied to %s only)" % (o.path, b.name, b.path, b.path))


def opt_body(crate, name):
    return crate.body(name)


def need_adt(crate, name):
    a = crate.adt(name)
    if a is None:
        raise Anchor("type %s not found in crate %s" % (name, crate.name))
    return a


def fields_of(adt, variant=0):
    return adt["variants"][variant]["fields"]


def field_index_by_type(adt, pred):
    return [i for i, f in enumerate(fields_of(adt)) if pred(f["ty"])]


def methods_of(crate, adt_path_suffix):
    """bodies that are associated fns of inherent impls whose self type is the ADT"""
    out = []
    for b in crate.bodies:
        if b.is_closure:
            continue
        imp = crate.impl_of(b)
        if imp is None:
            continue
        st = imp["self_ty"]
        base = st.split("<")[0]
        if base == adt_path_suffix or base.endswith("::" + adt_path_suffix):
            out.append(b)
    return out


def self_recursive(body):
    for bb, t in body.calls():
        fn = t["fn"]
        if fn.get("def") == body.key or (fn.get("resolved") or {}).get("def") == body.key:
            return True
    return False


def callee_key(t):
    fn = t["fn"]
    if "indirect" in fn:
        return None
    r = fn.get("resolved")
    return (r or fn).get("def")


def calls_to(body, key):
    return [(bb, t) for bb, t in body.calls() if callee_key(t) == key or t["fn"].get("def") == key]


def fkey(body):
    """stable key of a function for violation keys (no line numbers)"""
    return body.path


def is_field_place(pl, field_idx, base=None):
    return pl[0] == "field" and pl[2] == field_idx and (base is None or pl[1] == base)


def index_into_field(pl, field_idx):
    """pl == <something>.field[idx] -> idx term else None"""
    if pl[0] == "index" and pl[1][0] == "field" and pl[1][2] == field_idx:
        return pl[2]
    return None


def events_of(st, kind=None):
    return [e for e in st.event_list() if kind is None or e.kind == kind]


def ret_term(st):
    return st.env.get(0)


def entails(I, facts, op, a, b):
    return zones.entails(facts, op, a, b, I.tys)


def lin_equal(a, b):
    la, lb = zones.linearize(a), zones.linearize(b)
    d = zones.lin_sub(la, lb)
    return not d[0] and d[1] == 0


def reachable_calls(program, roots, follow=lambda fn: True):
    """call-graph closure over exported bodies; returns dict key -> body and the list of
    external (non-exported) callees met"""
    seen = {}
    ext = {}
    work = list(roots)
    while work:
        b = work.pop()
        if b.key in seen:
            continue
        seen[b.key] = b
        # closures defined in b are reachable with it
        for c in b.crate.bodies:
            if c.is_closure and c.parent == b.key and c.key not in seen:
                work.append(c)
        # items referenced without being called directly: fn items passed as values (thread_local! init
        # functions, callbacks), named constants / statics with initialiser bodies, promoted constants, and
        # items nested inside b (anonymous constants and their closures)
        for c in _referenced_bodies(b):
            if c.key not in seen:
                work.append(c)
        for bb, t in b.calls():
            fn = t["fn"]
            if "indirect" in fn:
                ext.setdefault("<indirect>", []).append((b, bb))
                continue
            k = (fn.get("resolved") or fn).get("def")
            tgt = program.by_key.get(k)
            if tgt is None:
                # unresolved trait method: all impls in the program are candidates
                cands = []
                if fn.get("trait") and not fn.get("resolved"):
                    nm = fn.get("name")
                    for cr in program.crates.values():
                        for imp in cr.impls:
                            if (imp.get("trait_key") == fn.get("trait_key")) if (imp.get("trait_key") and fn.get("trait_key")) else (imp.get("trait") == fn["trait"]):
                                for it in imp["items"]:
                                    if it["name"] == nm and it["key"] in program.by_key:
                                        cands.append(program.by_key[it["key"]])
                if cands:
                    work.extend(cands)
                else:
                    ext.setdefault(k or fn.get("path"), []).append((b, bb))
            else:
                work.append(tgt)
    return seen, ext


_ref_cache = {}


def _referenced_bodies(b):
    """bodies of the same crate whose path occurs in an operand / type / promoted text of b, or that are
    lexically nested in b (over-approximation: a mention is treated as a possible use)"""
    r = _ref_cache.get(id(b))
    if r is not None and r[0] is b:
        return r[1]
    import json as _json
    import re as _re

    txt = _json.dumps([b.blocks, b.j.get("promoted")])
    out = []
    for c in b.crate.bodies:
        if c is b:
            continue
        if c.path.startswith(b.path + "::") and not c.is_closure:
            out.append(c)
            continue
        if c.is_closure:
            continue
        p = c.path
        i = txt.find(p)
        while i >= 0:
            j = i + len(p)
            before = txt[i - 1] if i > 0 else " "
            after = txt[j] if j < len(txt) else " "
            if not (before.isalnum() or before in "_:") and not (after.isalnum() or after == "_" or txt[j:j + 2] == "::"):
                out.append(c)
                break
            i = txt.find(p, j)
    _ref_cache[id(b)] = (b, out)
    return out


# ---- private helpers: judged in the context of their callers -------------------------------------
def reach_private(crate, b, within=None):
    """bodies of the crate reachable from b through direct calls (transitively), b excluded; `within` restricts
    the walk to a set of body keys"""
    out, work, seen = [], [b], {b.key}
    while work:
        x = work.pop()
        for cb in [x] + list(crate.closures_of(x)):
            for bb, t in cb.calls():
                k = callee_key(t)
                y = crate.by_key.get(k) if k else None
                if y is None or y.key in seen or y.is_closure:
                    continue
                if within is not None and y.key not in within:
                    continue
                seen.add(y.key)
                out.append(y)
                work.append(y)
    return out


def resolve_role(crate, entry, name, pred, what, candidates=None, named_ok=None):
    """the body playing a private role: the one with the historical name if it still satisfies `pred`, else the
    unique non-public body reachable from the public entry point(s) that does (roles are recognised by what
    they do; private names are free to change)"""
    entries = entry if isinstance(entry, (list, tuple)) else [entry]
    for e in entries:
        pref = e.path.rsplit("::", 1)[0]
        b = crate.body("%s::%s" % (pref, name)) if name else None
        if b is not None and (named_ok or pred)(b):
            return b
    found = []
    for e in entries:
        for y in reach_private(crate, e):
            if y.vis != "pub" and pred(y) and y.key not in {f.key for f in found} and (candidates is None or y.key in candidates):
                found.append(y)
    if len(found) == 1:
        return found[0]
    raise Anchor("cannot identify %s: %s" % (what, "no candidate reachable from %s" % ", ".join(e.name for e in entries) if not found else "candidates %s" % [f.name for f in found]))


def private_helpers(crate, adt_suffix, exclude=()):
    """non-public, non-recursive inherent methods / associated fns of the ADT that are not among the
    role functions `exclude` (bodies): extracted helpers are inlined into the analysis of their callers"""
    ex = {b.key for b in exclude if b is not None}
    return [b for b in methods_of(crate, adt_suffix) if b.vis != "pub" and b.key not in ex and not self_recursive(b)]


def analyser(helpers, **kw):
    inl = frozenset(h.key for h in helpers)
    if not inl:
        return lambda b: analyse(b, **kw)
    return lambda b: analyse(b, inline=inl, **kw)


def helper_callees(crate, b, helpers):
    """helpers reachable from b through direct calls (transitively through other helpers)"""
    hk = {h.key: h for h in helpers}
    out, work = {}, [b]
    while work:
        x = work.pop()
        for cb in [x] + list(crate.closures_of(x)):
            for bb, t in cb.calls():
                k = callee_key(t)
                if k in hk and k not in out:
                    out[k] = hk[k]
                    work.append(hk[k])
    return list(out.values())


def closures_with_helpers(crate, b, helpers):
    out = list(crate.closures_of(b))
    for h in helper_callees(crate, b, helpers):
        out.extend(crate.closures_of(h))
    return out


def allowed_writers(crate, allowed_names, helpers):
    """names of functions that may write: the given ones plus private helpers all of whose callers may"""
    allowed = set(allowed_names)
    callers = {}
    for b in crate.bodies:
        root = b
        while root.is_closure and crate.by_key.get(root.parent) is not None:
            root = crate.by_key[root.parent]
        for bb, t in b.calls():
            callers.setdefault(callee_key(t), set()).add(root.name)
    changed = True
    while changed:
        changed = False
        for h in helpers:
            if h.name not in allowed and callers.get(h.key) and callers[h.key] <= allowed:
                allowed.add(h.name)
                changed = True
    return allowed



_READ_ONLY_METHODS = {"len", "is_empty", "iter", "deref", "index", "as_slice", "as_ptr", "get", "first", "last", "contains", "into_iter", "clone", "to_vec", "eq", "ne", "borrow", "as_ref", "chunks", "windows", "capacity", "split_at", "starts_with", "ends_with", "binary_search", "enumerate"}


def mut_borrow_read_only(body, bb0, idx0):
    """The `&mut place` taken by statement (bb0, idx0) is never written through: the reference (and its
    reborrows / moves into other locals) is only read, reborrowed as shared, or handed to std methods that take
    `&self`.  Conservative: any other use (assignment through it, index_mut / deref_mut, a call of an unknown
    function, storing it in an aggregate) answers False."""
    st0 = body.blocks[bb0]["stmts"][idx0]
    aliases = {st0["place"]["l"]} if not st0["place"]["p"] else None
    if aliases is None:
        return False
    changed = True

    def rooted(pl):
        return pl["l"] in aliases

    def op_local(o):
        return o["place"]["l"] if isinstance(o, dict) and o.get("k") in ("copy", "move") and not o["place"]["p"] else None

    for _ in range(6):
        if not changed:
            break
        changed = False
        for bb, idx, s in body.statements():
            if s["k"] != "assign" or (bb, idx) == (bb0, idx0):
                continue
            rv = s["rv"]
            src = None
            if rv["k"] == "use":
                src = op_local(rv.get("op"))
            elif rv["k"] == "ref" and rv["place"]["l"] in aliases and rv["bk"] != "shared" and all(e[0] == "deref" for e in rv["place"]["p"]):
                src = rv["place"]["l"]
            elif rv["k"] == "cast":
                src = op_local(rv.get("op"))
            if src in aliases and not s["place"]["p"] and s["place"]["l"] not in aliases:
                aliases.add(s["place"]["l"])
                changed = True
    for bb, idx, s in body.statements():
        if s["k"] != "assign":
            continue
        pl = s["place"]
        if rooted(pl) and any(e[0] == "deref" for e in pl["p"]):
            return False  # write through the reference
        rv = s["rv"]
        if rv["k"] == "ref" and rooted(rv["place"]) and rv["bk"] != "shared" and not all(e[0] == "deref" for e in rv["place"]["p"]):
            return False  # &mut (*r).something: a mutable view of a part
        if rv["k"] == "agg" and any(op_local(o) in aliases for o in rv.get("ops", [])):
            return False
    for bb, blk in enumerate(body.blocks):
        t = blk["term"]
        if t["k"] != "call":
            if t["k"] == "asm" and any(op_local(o.get("op")) in aliases for o in t.get("operands", [])):
                return False
            continue
        for a in t["args"]:
            if op_local(a) in aliases:
                if t["fn"].get("name") not in _READ_ONLY_METHODS or "indirect" in t["fn"]:
                    return False
    return True


def cell_origin(evs, cell):
    """the caller place a memory cell stands for (`helper(&mut local)` inlined with the "mutlocal" feature): the
    i-th argument of the inlined call with the cell's uid"""
    if not (isinstance(cell, tuple) and cell and cell[0] == "cell"):
        return None
    for e in evs:
        if e.kind == "call" and e.extra.get("inlined") and e.extra.get("uid") == cell[1] and cell[2] < len(e.args):
            a = e.args[cell[2]]
            if isinstance(a, tuple) and a and a[0] == "ref":
                return a[1]
    return None


IMPURE_PREFIX = ("std::time", "std::env", "std::io", "std::fs", "std::net", "std::process", "std::thread", "std::sync", "std::cell", "std::hash::RandomState", "std::collections::hash_map::RandomState")


def impure_constructs(b):
    """what makes a function body more than a function of its arguments: statics, thread-locals, clocks / IO / interior
    mutability from std, unsafe code, inline asm (names, for the report)"""
    bad = []
    if b.j.get("unsafe"):
        bad.append("unsafe fn")
    for ub in b.j.get("unsafe_blocks", []):
        if ub.get("source") != "CompilerGenerated":
            bad.append("unsafe block")
    for bb, blk in enumerate(b.blocks):
        if blk["cleanup"]:
            continue
        if blk["term"]["k"] == "asm":
            bad.append("inline asm")
        for s in blk["stmts"]:
            if s["k"] == "assign":
                rv = s["rv"]
                if rv["k"] == "tlref":
                    bad.append("thread-local")
                for o in [rv.get("op"), rv.get("a"), rv.get("b")] + list(rv.get("ops", [])):
                    if isinstance(o, dict) and o.get("k") == "const" and "static" in o:
                        bad.append("static")
        t = blk["term"]
        if t["k"] == "call" and "indirect" not in t["fn"]:
            p = (t["fn"].get("resolved") or t["fn"]).get("path") or ""
            p2 = t["fn"].get("path") or ""
            if p.startswith(IMPURE_PREFIX) or p2.startswith(IMPURE_PREFIX) or "SystemTime" in p or "Instant" in p:
                bad.append("call %s" % (p or p2))
            for a in t["args"]:
                if a.get("k") == "const" and "static" in a:
                    bad.append("static")
    return sorted(set(bad))
