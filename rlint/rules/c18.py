"""C18 — f80: x87 stack discipline and result expressions of every asm! block, comparison family,
numeric equality, constants.  DESIGN.md §4 C18."""
from .. import util, x87
from ..absint import tstr, mk_int, subterms
from ..core import Anchor

PID = "C18"
LEVEL = "other"
CRATES = ["rlib_f80"]
RELEASE = True
NUMERIC_EQ = ["f80"]   # == is the numeric comparison (X3), not the comparison of the bytes
ARMED = True
ENGINES = ["E8", "E3", "E10"]
TECHNIQUE = "abstract interpretation of the Intel-syntax templates of every asm! block on a symbolic x87 stack (balanced stack, stored expression equals the operator's specification with operands in order, memory widths match the Rust types, flag conditions false on unordered), resolved-callee rules for the comparison/assign families, who-implements rules for PartialEq/Eq, decoding of the constant byte patterns"
LEVEL_TEXT = (
    "Decides for every inline-assembly block of the crate that, interpreted on an abstract x87 stack, it computes the intended "
    "expression with the operands in the intended order (a op b, not b op a), leaves the register stack balanced, moves operands of "
    "the right width, and that <, <= are flag tests that are false on unordered (NaN); that >, >= are the argument-swapped <, <=, no "
    "comparison is the boolean negation of another, partial_cmp is the (le, ge) table, == is numeric (defined through the comparisons, "
    "not byte-wise) and Eq is not implemented; that assigning operators delegate to the matching operator, abs/Default are as "
    "specified and ZERO/ONE decode to 0.0 and 1.0. Correct rounding to a 64-bit significand is the FPU's behaviour under its "
    "precision-control word and is not visible in the source: NOT decided."
)
LEVEL_NOTE = "trusted: Intel SDM semantics of fld/fstp/fadd../fcomi/fucomi/fcmovcc/setcc as encoded in rlint/x87.py; x86-64 with the x87 unit in extended-precision mode; rustc's asm! operand binding"
EXPLANATION = (
    "X1 per asm block: parse the template, run it on symbols; the stack depth returns to 0 and never exceeds 8; each memory store's "
    "value equals the specification (add: a+b, sub: a-b, mul, div: a/b, neg: -a, min/max by case analysis on the ordering, widening "
    "and narrowing conversions) with a = first parameter; operand widths TBYTE/QWORD match [u8;10]/f80/f64; for lt/le the condition "
    "written to al is 'a < b' / 'a <= b' with value false when unordered, the output register is eax and only bit 0 is used. X2 "
    "gt/ge = lt/le with swapped arguments; no comparison method is the negation of another; on every path of partial_cmp the comparison outcomes (less/equal/greater/unordered) "
    "consistent with the path's facts about lt/le/gt/ge all map to Less/Equal/Greater/None, and all four are decided. X3 PartialEq is hand-written through the comparison family (never on the bytes), no "
    "Eq impl. X4 OpAssign = *self = self.op(rhs) of the matching operator; abs = if self < 0 { -self } else { self }; Default = ZERO. "
    "X5 the byte arrays of ZERO and ONE decode (sign, exponent bias 0x3FFF, explicit integer bit) to 0.0 and 1.0. NOT decided: "
    "correct rounding of the arithmetic and of the conversions."
)
UNDECIDED = ["results are the exact real result rounded to a 64-bit significand (FPU precision-control behaviour)", "f80 -> f64 rounds correctly"]
ASSUMPTIONS = ["x86-64, x87 in extended-precision round-to-nearest mode (f80_init on Windows)"]
FIXTURES = [
    ("c18_bad_sub_reversed", "bad", ["X1"]),
    ("c18_bad_lt_leaks_stack", "bad", ["X1"]),
    ("c18_bad_lt_setb", "bad", ["X1"]),
    ("c18_bad_from_f64_width", "bad", ["X1"]),
    ("c18_bad_le_not_gt", "bad", ["X2"]),
    ("c18_bad_derive_eq", "bad", ["X3"]),
    ("c18_bad_subassign_add", "bad", ["X4"]),
    ("c18_bad_one_bytes", "bad", ["X5"]),
]

SPEC_BIN = {"add": "add", "sub": "sub", "mul": "mul", "div": "div"}


def _root_of_operand(body, op):
    """follow a pointer operand back to the local it points into: (local, description)"""
    if op.get("k") not in ("copy", "move"):
        return None
    l = op["place"]["l"]
    for _ in range(8):
        d = None
        for bb, idx, s in body.statements():
            if s["k"] == "assign" and s["place"]["l"] == l and not s["place"]["p"]:
                d = ("rv", s["rv"])
        for bb, t in body.calls():
            if t["dest"]["l"] == l and not t["dest"]["p"]:
                d = ("call", t)
        if d is None:
            return None
        kind, x = d
        if kind == "call":
            if x["fn"].get("name") in ("as_ptr", "as_mut_ptr") and x["args"] and x["args"][0]["k"] in ("copy", "move"):
                l = x["args"][0]["place"]["l"]
                continue
            return None
        if x["k"] in ("ref", "rawptr"):
            pl = x["place"]
            if pl["p"] and pl["p"][0][0] == "deref" and pl["l"] > body.arg_count:
                # reborrow through a local reference: keep following it
                l = pl["l"]
                continue
            return pl["l"], pl
        if x["k"] in ("use", "cast") and x["op"]["k"] in ("copy", "move"):
            l = x["op"]["place"]["l"]
            continue
        return None
    return None


def _width_of_type(ty):
    ty = ty.replace("std::mem::MaybeUninit<", "").rstrip(">") if ty.startswith("std::mem::MaybeUninit<") else ty
    ty = ty.lstrip("&").replace("mut ", "")
    return {"f80": 10, "[u8; 10]": 10, "f64": 8, "f32": 4, "u32": 4, "u64": 8}.get(ty)


def check(col, prog, tier, profile, fixture=None):
    crate = prog.crate(fixture or "rlib_f80")
    sfx = "" if profile == "dev" else "@" + profile
    fk = util.fkey
    col.rule("X1" + sfx, "every asm block: balanced x87 stack, stored expression = specification, widths match, conditions false on unordered", floor=9)
    col.rule("X2" + sfx, "comparison family: gt/ge swapped lt/le, no negations, partial_cmp table", floor=4)
    col.rule("X3" + sfx, "== is numeric (through the comparisons), not derived on bytes; no Eq", floor=2)
    col.rule("X4" + sfx, "assigning operators delegate to the matching operator; abs; Default = ZERO", floor=6)
    col.rule("X5" + sfx, "ZERO / ONE byte patterns decode to 0.0 and 1.0", floor=2)

    # non-public, asm-free, non-recursive helper functions are judged inlined into their callers
    helpers = [m for m in crate.bodies if not m.is_closure and m.kind in ("Fn", "AssocFn") and m.vis != "pub" and not util.self_recursive(m)
               and not (crate.impl_of(m) or {}).get("of_trait") and not any(blk["term"]["k"] == "asm" for blk in m.blocks)]
    A = util.analyser(helpers)
    nblocks = 0
    HELPER_REL.clear()
    for b in crate.bodies:
        asm = [(i, blk["term"]) for i, blk in enumerate(b.blocks) if blk["term"]["k"] == "asm"]
        if not asm:
            continue
        for bb, t in asm:
            nblocks += 1
            key = "%s|asm" % fk(b)
            loc = b.loc(bb)
            lines = x87.render_template(t["template"])
            try:
                m = x87.Machine().run(lines)
            except x87.AsmError as e:
                col.violation("X1" + sfx, key + "|machine", loc, "%s: %s" % (b.path, e))
                continue
            # what the block promises the compiler (options) against what its instructions do
            opts = str(t.get("options") or "")
            touches_mem = any("[" in ln for ln in lines)
            promise = None
            if "NOMEM" in opts and touches_mem:
                promise = "is declared `nomem` but reads or writes memory through its pointer operands: the compiler may drop or reorder the stores that initialise them (wrong results in optimised builds only)"
            elif "READONLY" in opts and m.stores:
                promise = "is declared `readonly` but stores through a pointer operand: the compiler may assume the destination is unchanged"
            elif "PRESERVES_FLAGS" in opts and m.flags is not None:
                promise = "is declared `preserves_flags` but executes a compare that sets EFLAGS"
            if promise:
                col.violation("X1" + sfx, key + "|options", loc, "the asm block of %s %s" % (b.path, promise))
                continue
            if m.stack:
                col.violation("X1" + sfx, key + "|unbalanced", loc, "%s leaves %d value(s) on the x87 register stack: after eight such calls every result turns into NaN (stack overflow)" % (b.path, len(m.stack)))
                continue
            # operand roles
            roles = {}
            for n, o in enumerate(t["operands"]):
                if o["k"] != "in":
                    continue
                r = _root_of_operand(b, o["op"])
                if r is None:
                    continue
                l, pl = r
                roles[n] = (l, b.locals[l]["ty"], pl)
            nm = b.name
            imp = crate.impl_of(b)
            trait = ((imp or {}).get("trait") or "").split("::")[-1]
            if b.vis != "pub" and not (imp or {}).get("of_trait") and nm not in SPEC_BIN and nm not in ("min", "max", "lt", "le", "from"):
                # an asm body moved into a private helper: it is specified by the one public operation that hands its
                # own operands over in order and returns the helper's result
                fronts = []
                for cb_ in crate.bodies:
                    if cb_.is_closure or cb_.key == b.key or not util.calls_to(cb_, b.key):
                        continue
                    Ic_ = util.analyse(cb_)
                    through = bool(Ic_.final_states)
                    for st_ in Ic_.final_states:
                        ce = [e for e in util.events_of(st_, "call") if (e.fn.get("resolved") or e.fn).get("def") == b.key]
                        def same_operand(a_, i_):
                            # the i-th operand itself, or (a helper working on the raw bytes) its only field, by value or by reference
                            p_ = ("param", i_ + 1, Ic_.names.get(i_ + 1))
                            forms = [p_, ("proj", 0, p_), ("ref", ("field", ("deref", p_), 0)), ("load", ("m0",), ("field", ("deref", p_), 0)), ("ref", ("field", ("local", i_ + 1), 0)), ("ref", ("local", i_ + 1)), ("load", ("m0",), ("deref", p_)), ("ref", ("deref", p_))]
                            return a_ in forms

                        rt_ = util.ret_term(st_)
                        through = through and len(ce) == 1 and len(ce[0].args) == b.arg_count and all(same_operand(a_, i_) for i_, a_ in enumerate(ce[0].args)) and cb_.arg_count == b.arg_count
                        through = through and (rt_ == ce[0].res or (rt_[0] == "agg" and tuple(rt_[2]) == (ce[0].res,)))
                    fronts.append((cb_, through))
                if len(fronts) == 1 and fronts[0][1]:
                    fb_ = fronts[0][0]
                    nm = fb_.name
                    trait = ((crate.impl_of(fb_) or {}).get("trait") or "").split("::")[-1]
                elif b.arg_count == 2 and m.regs.get("al") and not m.stores:
                    # a private comparison primitive shared by several operators (`is_below(a, b)`): it is specified by the
                    # relation its flag test computes on (first argument, second argument); the operators built on it are
                    # judged by what they answer for less / equal / greater / unordered (X2, X3)
                    nm = "<relation>"
            P1, P2 = 1, 2

            def sym(v):
                """rewrite ('mem', operand, width) into ('P', local)"""
                if isinstance(v, tuple) and v and v[0] == "mem":
                    r_ = roles.get(v[1])
                    return ("P", r_[0] if r_ else "?%d" % v[1])
                if isinstance(v, tuple):
                    return tuple(sym(x) if isinstance(x, tuple) else x for x in v)
                return v

            ok = True
            why = ""
            # widths
            for (opn, w, _v) in m.stores + [(v[1], v[2], None) for ln, stk in m.trace for v in stk if isinstance(v, tuple) and v and v[0] == "mem"]:
                r_ = roles.get(opn)
                if r_ is None:
                    continue
                want = _width_of_type(r_[1])
                if want is not None and want != w:
                    ok = False
                    why = "operand %d is a %s (%d bytes) but is accessed as %d bytes" % (opn, r_[1], want, w)
            a, c = ("P", P1), ("P", P2)
            if ok and trait in ("Add", "Sub", "Mul", "Div") and nm in SPEC_BIN:
                want = ("op", SPEC_BIN[nm], a, c)
                got = [sym(v) for (_o, _w, v) in m.stores]
                ok = got == [want]
                why = "stores %s, expected self %s rhs" % (got, nm)
            elif ok and trait == "Neg":
                got = [sym(v) for (_o, _w, v) in m.stores]
                ok = got == [("neg", a)]
                why = "stores %s, expected -self" % got
            elif ok and nm in ("min", "max") and trait == "":
                v = sym(m.stores[0][2]) if len(m.stores) == 1 else None
                res = {o: x87.eval_select(v, o, a, c) for o in ("lt", "gt", "eq", "un")} if v is not None else {}
                if nm == "min":
                    ok = res.get("lt") == a and res.get("gt") == c and res.get("eq") in (a, c)
                else:
                    ok = res.get("lt") == c and res.get("gt") == a and res.get("eq") in (a, c)
                why = "selects %s" % res
            elif ok and nm in ("lt", "le", "<relation>"):
                cond = m.regs.get("al")
                outs = [o for o in t["operands"] if o["k"] == "out"]
                okreg = len(outs) == 1 and outs[0]["reg"].strip('"') in ("eax", "al", "rax", "ax")
                r_ = x87.relation_between((cond[0], sym(cond[1])), a, c) if cond else None
                if nm == "<relation>":
                    ok = okreg and r_ is not None and r_[0] in ("lt", "le", "gt", "ge") and not m.stores
                    if ok:
                        rel = r_[0] if not r_[1] else {"lt": "gt", "gt": "lt", "le": "ge", "ge": "le"}[r_[0]]
                        HELPER_REL[b.key] = rel
                else:
                    ok = okreg and r_ == (nm, False) and not m.stores
                why = "al := %s on (self, rhs)%s" % (r_, "" if okreg else "; output register is not eax")
                # only bit 0 of the register is used
                I = A(b)
                for st in I.final_states:
                    ret = util.ret_term(st)
                    bit0 = ret[0] == "bin" and ret[1] in ("Gt", "Ne") and ret[3] == mk_int(0) and ret[2][0] == "bin" and ret[2][1] == "BitAnd" and ret[2][3] == mk_int(1)
                    # an 8-bit output bound to `al` is exactly what setcc writes (0 or 1): the whole value may be tested
                    whole_al = len(outs) == 1 and outs[0]["reg"].strip('"') == "al" and ret[0] == "bin" and ((ret[1] in ("Gt", "Ne") and ret[3] == mk_int(0)) or (ret[1] == "Eq" and ret[3] == mk_int(1))) and isinstance(ret[2], tuple) and ret[2] and ret[2][0] == "asmout"
                    if not bit0 and not whole_al:
                        ok = False
                        why = "the result is %s: bits of eax above al are undefined after setcc al, only bit 0 may be used" % tstr(ret)
            elif ok and nm == "from":
                # conversions: one load of the source width, one store of the destination width
                got = [sym(v) for (_o, _w, v) in m.stores]
                ok = len(got) == 1 and got[0] == a
                why = "stores %s, expected the loaded argument" % got
            elif ok:
                ok = False
                why = "no specification for an asm block in %s" % b.path
            if ok:
                col.ok("X1" + sfx, loc, key, "%s; depth max %d, balanced" % ("; ".join(lines), m.maxdepth))
            else:
                col.violation("X1" + sfx, key, loc, "%s: the x87 block does not compute the specified result: %s" % (b.path, why), {"lines": lines})
            # ... and the block is the function: no path returns without having executed it (an early return in front of
            # the block - `if rhs.is_nan() { return self }` - answers from a test of its own, which nothing here judges)
            if len(asm) == 1:
                from .. import cfg as _cfg
                seen_, todo_ = {0}, [0]
                bypass = None
                while todo_:
                    x_ = todo_.pop()
                    if x_ == bb:
                        continue
                    tk_ = b.blocks[x_]["term"]
                    if tk_["k"] == "return":
                        bypass = x_
                        break
                    for y_ in _cfg.successors(tk_):
                        if y_ not in seen_:
                            seen_.add(y_)
                            todo_.append(y_)
                if bypass is None:
                    col.ok("X1" + sfx, loc, key + "|on-every-path", "every return of %s lies behind the block" % b.name, nontrivial=False)
                else:
                    col.violation("X1" + sfx, key + "|bypassed", b.loc(bypass), "%s returns on a path that never executes its x87 block: that answer comes from a test written by hand, not from the comparison/selection the block was judged to compute" % b.path)
    # conversions between f64 and f80 are the x87 load/store pair (checked above as X1 blocks); a conversion written as
    # bit manipulation is an algorithm of its own (subnormals, NaN payloads, rounding) that no rule here decides
    for fb in crate.bodies:
        imp_ = crate.impl_of(fb)
        if imp_ is None or fb.is_closure or fb.name != "from" or not str(imp_.get("trait") or "").endswith("convert::From"):
            continue
        tys = {str(imp_.get("self_ty")), str((imp_.get("trait_args") or [""])[-1])}
        if tys != {"f80", "f64"}:
            continue
        has_asm = any(blk["term"]["k"] == "asm" for blk in fb.blocks) or any(any(blk["term"]["k"] == "asm" for blk in h_.blocks) for h_ in util.reach_private(crate, fb))
        key = "%s|x87-conversion" % fk(fb)
        if has_asm:
            col.ok("X1" + sfx, fb.loc(), key, "conversion goes through the FPU (fld/fstp of the two widths)", nontrivial=False)
        else:
            col.violation("X1" + sfx, key, fb.loc(), "%s is not the x87 load/store pair: a hand-written widening/narrowing of the bit pattern is not verified here (subnormal exponents, NaN payloads and rounding are exactly where such code goes wrong)" % fb.path)
    # operators that carry no x87 block at all must be a recognised exact equivalent
    required = [("Add", "add"), ("Sub", "sub"), ("Mul", "mul"), ("Div", "div"), ("Neg", "neg")]
    for tr_, nm_ in required:
        ob = None
        for b_ in crate.bodies:
            imp_ = crate.impl_of(b_)
            if imp_ is not None and (imp_.get("trait") or "").split("::")[-1] == tr_ and b_.name == nm_ and imp_["self_ty"] == "f80":
                # the by-value operator is the one specified; reference forms added beside it are extra API
                import re as _re

                byref = bool(_re.search(r"&('\w+ )?f80>", b_.path))
                if ob is None or not byref:
                    ob = b_
        if ob is None:
            col.violation("X1" + sfx, "f80|%s|missing" % tr_, "-", "f80 does not implement %s" % tr_)
            continue
        if any(blk["term"]["k"] == "asm" for blk in ob.blocks):
            continue
        I_ = A(ob)
        verdict = None
        for st in I_.final_states:
            r = util.ret_term(st)
            p1 = ("param", 1, I_.names.get(1))
            if nm_ == "neg" and r[0] == "call" and str(r[1]).endswith("Sub>::sub") and r[2][1] == p1 and (r[2][0][0] == "assoc" and r[2][0][2] == "ZERO" or r[2][0] == ("fconst", 0.0, "f64")):
                verdict = "negation is computed as ZERO - self: -(+0) is then +0 instead of -0 (and a NaN keeps its sign); use fchs, a sign-bit flip or multiplication by -1"
            elif nm_ == "neg" and r[0] == "call" and str(r[1]).endswith("Mul>::mul") and p1 in r[2][:2]:
                other = [x for x in r[2][:2] if x != p1]
                if other and other[0][0] == "call" and any(s_ == ("fconst", -1.0, "f64") for s_ in subterms(other[0])):
                    continue  # self * -1 is exact for every operand incl. zeros
                verdict = "unrecognised implementation of negation: %s" % tstr(r)[:120]
            else:
                verdict = "%s is implemented without an x87 block by %s, which is not a recognised exact equivalent" % (ob.path, tstr(r)[:120])
        key = "%s|no-asm" % fk(ob)
        if verdict:
            col.violation("X1" + sfx, key, ob.loc(), verdict)
        else:
            col.ok("X1" + sfx, ob.loc(), key, "exact equivalent without asm")
    if not fixture and nblocks < 9:
        col.violation("X1" + sfx, "asm-block-count", "-", "expected at least 9 asm blocks on this target (4 arithmetic, lt, min, max, 2 conversions; neg/le may be exact equivalents), found %d" % nblocks)

    # ---------------- X2
    def body_of(tr, nm):
        for b in crate.bodies:
            imp = crate.impl_of(b)
            if imp is not None and (imp.get("trait") or "").split("::")[-1] == tr and b.name == nm and "f80" == imp["self_ty"]:
                return b
        return None

    lt, le, gt, ge, pc = (body_of("PartialOrd", n) for n in ("lt", "le", "gt", "ge", "partial_cmp"))
    if None in (lt, le, gt, ge, pc):
        raise Anchor("f80 must implement lt, le, gt, ge, partial_cmp explicitly")
    def answers(b_):
        """(T, F): outcomes for which b_ can answer true / false, by its paths (comparison primitives: lt/le/gt/ge and the
        verified private relation helpers); None when a path's answer cannot be read"""
        I_ = A(b_)
        q1_, q2_ = ("param", 1, I_.names.get(1)), ("param", 2, I_.names.get(2))

        def op_(p_):
            return lambda x: x is not None and (x == p_ or x == ("ref", ("deref", p_)) or x == ("load", ("m0",), ("deref", p_)) or x == ("deref", p_))

        keys_ = {k_: v_ for k_, v_ in {lt.key: "lt", le.key: "le", gt.key: "gt", ge.key: "ge"}.items() if k_ != b_.key}
        keys_.update(HELPER_REL)
        T, F = set(), set()
        if not I_.final_states:
            return None
        for st_ in I_.final_states:
            oc = _outcomes(st_, op_(q1_), op_(q2_), keys_)
            r = util.ret_term(st_)
            if r == mk_int(1):
                tset = set(oc)
            elif r == mk_int(0):
                tset = set()
            else:
                tset = None
                for e in st_.event_list():
                    d_ = (e.fn.get("resolved") or e.fn).get("def") if e.kind == "call" else None
                    if e.kind == "call" and e.res == r and d_ in keys_ and len(e.args) >= 2:
                        x, y = e.args[0], e.args[1]
                        av = list(e.extra.get("argvals") or []) + [None, None]
                        sset = set(_PRIM[keys_[d_]])
                        if (op_(q1_)(x) or op_(q1_)(av[0])) and (op_(q2_)(y) or op_(q2_)(av[1])):
                            tset = oc & sset
                        elif (op_(q2_)(x) or op_(q2_)(av[0])) and (op_(q1_)(y) or op_(q1_)(av[1])):
                            tset = oc & {_FLIP[k_] for k_ in sset}
            if tset is None:
                return None
            T |= tset
            F |= set(oc) - tset
        return T, F

    def has_asm(b_):
        return any(blk["term"]["k"] == "asm" for blk in b_.blocks)

    for b, base in ((gt, lt), (ge, le)):
        if HELPER_REL and not has_asm(b):
            tf = answers(b)
            key = "%s|swapped-%s" % (fk(b), base.name)
            if tf is not None and tf[0] == _PRIM[b.name] and not (tf[0] & tf[1]):
                col.ok("X2" + sfx, b.loc(), key, "%s answers true exactly for %s (through the shared comparison primitive)" % (b.name, sorted(tf[0])))
                continue
        I = A(b)
        for st in I.final_states:
            ret = util.ret_term(st)
            calls = [e for e in st.event_list() if e.kind == "call"]
            s_, r_ = ("param", 1, I.names.get(1)), ("param", 2, I.names.get(2))
            same = lambda a_, p_: a_ == p_ or a_ == ("ref", ("deref", p_))   # (`rhs` and `&*rhs` are the same reference)
            ok = len(calls) == 1 and (calls[0].fn.get("resolved") or calls[0].fn).get("def") == base.key and len(calls[0].args) == 2 and same(calls[0].args[0], r_) and same(calls[0].args[1], s_) and ret == calls[0].res
            key = "%s|swapped-%s" % (fk(b), base.name)
            if ok:
                col.ok("X2" + sfx, b.loc(), key, "%s(a, b) = %s(b, a)" % (b.name, base.name))
            else:
                neg = any(s[0] == "un" and s[1] == "Not" for s in subterms(ret)) or (ret[0] == "bin" and ret[1] == "Eq" and ret[3] == mk_int(0))
                col.violation("X2" + sfx, key, b.loc(), "%s is not %s with swapped arguments%s" % (b.path, base.name, ": it is a boolean negation of another comparison, which is true for NaN operands" if neg else ""))
    for b in (lt, le):
        if HELPER_REL and not has_asm(b):
            # lt / le built on a shared private comparison primitive: true exactly for less / less-or-equal
            tf = answers(b)
            key = "%s|not-a-negation" % fk(b)
            if tf is not None and tf[0] == _PRIM[b.name] and not (tf[0] & tf[1]):
                col.ok("X2" + sfx, b.loc(), key, "%s answers true exactly for %s (through the shared comparison primitive)" % (b.name, sorted(tf[0])))
            else:
                col.violation("X2" + sfx, key, b.loc(), "%s does not answer true exactly for the outcomes %s of the comparison (it answers true for %s)" % (b.path, sorted(_PRIM[b.name]), sorted(tf[0]) if tf else "?"))
            continue
        I = A(b)
        for st in I.final_states:
            ret = util.ret_term(st)
            calls = [e for e in st.event_list() if e.kind == "call" and (e.fn.get("resolved") or e.fn).get("def") in (lt.key, le.key, gt.key, ge.key)]
            neg = (ret[0] == "un" and ret[1] == "Not") or (ret[0] == "bin" and ret[1] == "Eq" and ret[3] == mk_int(0) and calls) or (ret[0] == "bin" and ret[1] in ("Eq", "Ne") and calls)
            key = "%s|not-a-negation" % fk(b)
            if neg:
                col.violation("X2" + sfx, key, b.loc(), "%s is the boolean negation of another comparison: a <= b == !(a > b) is false for NaN, so NaN <= x becomes true" % b.path)
            else:
                col.ok("X2" + sfx, b.loc(), key, "own flag test", nontrivial=False)
    I = A(pc)
    p1_, p2_ = ("param", 1, I.names.get(1)), ("param", 2, I.names.get(2))

    def opnd(p_):
        return lambda x: x is not None and (x == p_ or x == ("ref", ("deref", p_)) or x == ("load", ("m0",), ("deref", p_)) or x == ("deref", p_))

    keys = {lt.key: "lt", le.key: "le", gt.key: "gt", ge.key: "ge"}
    keys.update(HELPER_REL)
    want_of = {"L": "Less", "E": "Equal", "G": "Greater", "U": "None"}
    covered = set()
    bad = None
    table = {}
    for st in I.final_states:
        ret = util.ret_term(st)
        if ret[0] == "agg" and ret[1][3] == "None":
            out = "None"
        elif ret[0] == "agg" and ret[1][3] == "Some":
            v = ret[2][0]
            out = {-1: "Less", 255: "Less", 0: "Equal", 1: "Greater"}.get(v[1]) if v[0] == "int" else (v[1][3] if v[0] == "agg" else tstr(v))
        else:
            out = tstr(ret)
        oc = _outcomes(st, opnd(p1_), opnd(p2_), keys)
        table["".join(sorted(oc))] = out
        for o in oc:
            covered.add(o)
            if want_of[o] != out:
                bad = (o, out)
    if bad is None and covered == {"L", "E", "G", "U"}:
        col.ok("X2" + sfx, pc.loc(), "%s|table" % fk(pc), "partial_cmp: less -> Less, equal -> Equal, greater -> Greater, unordered -> None on every path (%s)" % table)
    else:
        col.violation("X2" + sfx, "%s|table" % fk(pc), pc.loc(), "partial_cmp does not map less/equal/greater/unordered to Less/Equal/Greater/None: %s (paths by possible outcomes: %s)" % ("outcome %s returns %s" % bad if bad else "outcomes %s never decided" % sorted({"L", "E", "G", "U"} - covered), table))

    # ---------------- X3
    eqimp = None
    has_eq = False
    adt = util.need_adt(crate, "f80")
    for imp in crate.impls:
        if imp.get("self_adt") == adt["key"]:
            tr = (imp.get("trait") or "").split("::")[-1]
            if tr == "PartialEq":
                eqimp = imp
            if tr == "Eq":
                has_eq = True
    if eqimp is None:
        raise Anchor("f80 has no PartialEq impl")
    loc = "%s:%d" % (eqimp["span"]["file"], eqimp["span"]["line"])
    if eqimp.get("derived"):
        col.violation("X3" + sfx, "f80|PartialEq-derived", loc, "PartialEq for f80 is derived on the byte array: -0.0 != +0.0 and NaN == NaN, inconsistent with partial_cmp")
    else:
        b = crate.by_key[[i["key"] for i in eqimp["items"] if i["name"] == "eq"][0]]
        I = A(b)
        fam = {lt.key, le.key, gt.key, ge.key, pc.key} | set(HELPER_REL)
        okk = True
        for st in I.final_states:
            calls = [e for e in st.event_list() if e.kind == "call"]
            if not calls and util.ret_term(st)[0] != "int":
                okk = False
            for e in calls:
                if (e.fn.get("resolved") or e.fn).get("def") not in fam:
                    okk = False
        # ... and it is true exactly for the outcome `equal`: on every path, among the outcomes (less / equal / greater /
        # unordered) the path's comparison facts leave possible, the answer is true for `equal` and for nothing else
        Ie = I
        q1, q2 = ("param", 1, Ie.names.get(1)), ("param", 2, Ie.names.get(2))

        def opnd_e(p_):
            return lambda x: x is not None and (x == p_ or x == ("ref", ("deref", p_)) or x == ("load", ("m0",), ("deref", p_)) or x == ("deref", p_))

        keys_e = {lt.key: "lt", le.key: "le", gt.key: "gt", ge.key: "ge", pc.key: "partial_cmp"}
        keys_e.update(HELPER_REL)
        exact = bool(Ie.final_states)
        saw_equal = False
        for st in Ie.final_states:
            oc = _outcomes(st, opnd_e(q1), opnd_e(q2), keys_e)
            r = util.ret_term(st)
            if r == mk_int(1):
                tset = set(oc)
            elif r == mk_int(0):
                tset = set()
            else:
                tset = None
                for e in st.event_list():
                    if e.kind == "call" and e.res == r and (e.fn.get("resolved") or e.fn).get("def") in keys_e and keys_e[(e.fn.get("resolved") or e.fn).get("def")] != "partial_cmp" and len(e.args) >= 2:
                        x, y = e.args[0], e.args[1]
                        av = list(e.extra.get("argvals") or []) + [None, None]
                        sset = set(_PRIM[keys_e[(e.fn.get("resolved") or e.fn).get("def")]])
                        if (opnd_e(q1)(x) or opnd_e(q1)(av[0])) and (opnd_e(q2)(y) or opnd_e(q2)(av[1])):
                            tset = oc & sset
                        elif (opnd_e(q2)(x) or opnd_e(q2)(av[0])) and (opnd_e(q1)(y) or opnd_e(q1)(av[1])):
                            tset = oc & {_FLIP[k_] for k_ in sset}
            if tset is None or tset != (oc & {"E"}):
                exact = False
            saw_equal = saw_equal or "E" in (tset or set())
        if okk and not (exact and saw_equal):
            col.violation("X3" + sfx, "%s|exactly-equal" % fk(b), b.loc(), "== for f80 is not true exactly when the operands compare equal: some path answers true for a less/greater/unordered pair, or false for an equal one (e.g. `a <= b || b <= a` is true for every ordered pair)")
        elif okk:
            col.ok("X3" + sfx, b.loc(), "%s|exactly-equal" % fk(b), "true exactly for the outcome `equal` on every path", nontrivial=False)
        if okk:
            col.ok("X3" + sfx, b.loc(), "%s|numeric" % fk(b), "== is built from the numeric comparisons")
        else:
            col.violation("X3" + sfx, "%s|numeric" % fk(b), b.loc(), "== for f80 is not defined through the numeric comparison family (byte-wise equality distinguishes -0/+0 and equates NaN with itself)")
    if has_eq:
        col.violation("X3" + sfx, "f80|implements-Eq", loc, "f80 implements Eq although NaN != NaN: equality is not reflexive")
    else:
        col.ok("X3" + sfx, loc, "f80|no-Eq", "Eq is not implemented", nontrivial=False)

    # ---------------- X4
    for tr, am, om in (("AddAssign", "add_assign", "add"), ("SubAssign", "sub_assign", "sub"), ("MulAssign", "mul_assign", "mul"), ("DivAssign", "div_assign", "div")):
        b = body_of(tr, am)
        want = body_of(tr[: -len("Assign")], om)
        if b is None or want is None:
            raise Anchor("missing %s / %s impl for f80" % (tr, om))
        I = A(b)
        selfp = ("deref", ("param", 1, I.names.get(1)))
        for st in I.final_states:
            calls = [e for e in st.event_list() if e.kind == "call"]
            stores = [e for e in st.event_list() if e.kind == "store" and e.place == selfp]
            ok = len(calls) == 1 and (calls[0].fn.get("resolved") or calls[0].fn).get("def") == want.key and calls[0].args == (("load", ("m0",), selfp), ("param", 2, I.names.get(2))) and len(stores) == 1 and stores[0].val == calls[0].res
            key = "%s|delegates" % fk(b)
            if ok:
                col.ok("X4" + sfx, b.loc(), key, "*self = self.%s(rhs)" % om)
            else:
                col.violation("X4" + sfx, key, b.loc(), "%s must be *self = self.%s(rhs) (calls %s)" % (b.path, om, [c.callee for c in calls]))
    ab = util.need_body(crate, "f80::abs")
    I = A(ab)
    negb = body_of("Neg", "neg")
    okabs = bool(I.final_states)
    p1 = ("param", 1, I.names.get(1))
    keys_abs = {lt.key: "lt", le.key: "le", gt.key: "gt", ge.key: "ge", pc.key: "partial_cmp"}

    def is_self(x):
        return x is not None and (x == p1 or x == ("ref", ("local", 1)) or (isinstance(x, tuple) and x and x[0] == "ref" and x[1] == ("constval", p1)))

    zero_names = _zero_const_names(crate, A)

    def is_zero(x):
        if x is None or not isinstance(x, tuple) or not x:
            return False
        for s_ in [x] + list(subterms(x)):
            if s_[0] == "assoc" and (s_[2] == "ZERO" or s_[2] in zero_names):
                return True
            if s_[0] == "cst" and (str(s_[1]).endswith("::ZERO") or str(s_[1]).rsplit("::", 1)[-1] in zero_names):
                return True
            if s_[0] == "call" and str(s_[1]).endswith("::from") and s_[2] and ((s_[2][0][0] == "fconst" and s_[2][0][1] == 0.0) or (s_[2][0][0] in ("cst", "int") and "0" in str(s_[2][0][1]))):
                return True
        return False

    seen_neg = seen_id = False
    for st in I.final_states:
        ret = util.ret_term(st)
        oc = _outcomes(st, is_self, is_zero, keys_abs)
        is_neg = ret[0] == "call" and str(ret[1]).endswith("Neg>::neg") and ret[2][0] == p1
        if is_neg:
            seen_neg = True
            okabs = okabs and oc == {"L"}
        elif ret == p1:
            seen_id = True
            okabs = okabs and "L" not in oc
        else:
            okabs = False
    okabs = okabs and seen_neg and seen_id
    if okabs:
        col.ok("X4" + sfx, ab.loc(), "%s|abs" % fk(ab), "if self < 0 { -self } else { self }")
    else:
        col.violation("X4" + sfx, "%s|abs" % fk(ab), ab.loc(), "abs must return -self exactly when self compares below zero and self otherwise (zeros and NaN unchanged)")
    db = body_of("Default", "default")
    if db is not None:
        I = A(db)
        okd = all(util.ret_term(st)[0] == "assoc" and util.ret_term(st)[2] == "ZERO" for st in I.final_states)
        if okd:
            col.ok("X4" + sfx, db.loc(), "%s|zero" % fk(db), "Default = ZERO")
        else:
            col.violation("X4" + sfx, "%s|zero" % fk(db), db.loc(), "Default for f80 must be ZERO")

    # ---------------- X5
    for cname, want in (("ZERO", 0.0), ("ONE", 1.0)):
        cb = None
        for b in crate.bodies:
            if b.kind.startswith("AssocConst") and b.name == cname:
                cb = b
        if cb is None:
            raise Anchor("constant %s not found" % cname)
        bs = _const_bytes(crate, A, cb)
        val = _decode80(bs) if bs is not None else None
        key = "%s|decodes" % fk(cb)
        if val is not None and val == want:
            col.ok("X5" + sfx, cb.loc(), key, "bytes decode to %s" % want)
        else:
            col.violation("X5" + sfx, key, cb.loc(), "the byte pattern of f80::%s decodes to %s, not %s" % (cname, val, want))


def _const_bytes(crate, A, cb, depth=0):
    """the ten bytes of an f80 constant item, following references to other constant items of the crate
    (`const ZERO: Self = Self::POSITIVE_ZERO`)"""
    if cb is None or depth > 4:
        return None
    # what the compiler evaluated the constant to, when the exporter could read it (ten raw bytes): independent of how
    # the initialiser is spelled (`Self(ZERO_BITS)`, `Self([0; F80_BYTES])`, a chain of named constants)
    for k_ in getattr(crate, "consts", []):
        if k_.get("key") == cb.key and isinstance(k_.get("bytes"), list) and len(k_["bytes"]) >= 10 and not any(k_["bytes"][10:]):
            return list(k_["bytes"][:10])   # (the struct is padded to its alignment; the value is the first ten bytes)
    I = A(cb)
    for st in I.final_states:
        ret = util.ret_term(st)
        if ret[0] == "agg" and ret[2] and ret[2][0][0] == "agg":
            bs = [x[1] for x in ret[2][0][2] if x[0] == "int"]
            if len(bs) == 10:
                return bs
        if ret[0] == "agg" and ret[2] and ret[2][0][0] == "repeat" and ret[2][0][1][0] == "int" and str(ret[2][0][2] if not isinstance(ret[2][0][2], tuple) else ret[2][0][2][1]) == "10":
            return [ret[2][0][1][1]] * 10
        if ret[0] in ("assoc", "cst"):
            nm = ret[2] if ret[0] == "assoc" else str(ret[1]).rsplit("::", 1)[-1]
            for b in crate.bodies:
                if "Const" in str(b.kind) and b.name == nm and b.key != cb.key:
                    r = _const_bytes(crate, A, b, depth + 1)
                    if r is not None:
                        return r
    return None


def _zero_const_names(crate, A):
    """names of the crate's f80 constant items whose bytes decode to +0.0"""
    out = set()
    for b in crate.bodies:
        if "Const" in str(b.kind):
            try:
                bs = _const_bytes(crate, A, b)
            except Exception:  # noqa: BLE001
                bs = None
            if bs is not None and _decode80(bs) == 0.0 and not (bs[9] & 0x80):
                out.add(b.name)
    return out


HELPER_REL = {}   # private asm comparison primitive -> the relation it computes on (arg 1, arg 2)
_PRIM = {"lt": {"L"}, "le": {"L", "E"}, "gt": {"G"}, "ge": {"G", "E"}, "eq": {"E"}, "ne": {"L", "G", "U"}}
_FLIP = {"L": "G", "G": "L", "E": "E", "U": "U"}


def _outcomes(st, is_a, is_b, keys):
    """possible outcomes (L less, E equal, G greater, U unordered) of comparing operand a with operand b that are
    consistent with the path's facts about calls of the comparison family (lt/le/gt/ge/eq/partial_cmp on (a, b)
    or (b, a)); `keys`: def key -> primitive name"""
    out = {"L", "E", "G", "U"}
    calls = {}
    for e in st.event_list():
        if e.kind == "call":
            d = (e.fn.get("resolved") or e.fn).get("def")
            if d in keys and len(e.args) >= 2:
                x, y = e.args[0], e.args[1]
                xv = (e.extra.get("argvals") or [None, None])[0]
                yv = (e.extra.get("argvals") or [None, None])[1] if len(e.extra.get("argvals") or []) > 1 else None
                if (is_a(x) or is_a(xv)) and (is_b(y) or is_b(yv)):
                    calls[e.res] = (keys[d], False)
                elif (is_b(x) or is_b(xv)) and (is_a(y) or is_a(yv)):
                    calls[e.res] = (keys[d], True)
    for f in st.facts:
        t = f[1]
        if f[0] not in ("eq", "ne"):
            continue
        if t in calls and calls[t][0] != "partial_cmp":
            prim, flip = calls[t]
            truth = (f[0] == "eq") == bool(f[2])
            sset = _PRIM[prim]
            if flip:
                sset = {_FLIP[x] for x in sset}
            out &= sset if truth else ({"L", "E", "G", "U"} - sset)
            continue
        # Option<Ordering> returned by partial_cmp: discr 0 = None (unordered); payload -1/0/1
        if isinstance(t, tuple) and t and t[0] == "discr" and t[1] in calls and calls[t[1]][0] == "partial_cmp":
            is_some = (f[0] == "eq") == (f[2] == 1) if f[2] in (0, 1) else None
            if is_some is True:
                out -= {"U"}
            elif is_some is False:
                out &= {"U"}
            continue
        for res, (prim, flip) in calls.items():
            if prim != "partial_cmp":
                continue
            pay = ("proj", 0, ("down", res, 1))
            tt = t[1] if isinstance(t, tuple) and t and t[0] == "discr" else t
            if tt == pay and f[2] in (-1, 0, 1, 255):
                k = {-1: "L", 255: "L", 0: "E", 1: "G"}[f[2]]
                if flip:
                    k = _FLIP[k]
                if f[0] == "eq":
                    out &= {k}
                else:
                    out -= {k}
    return out


def _decode80(bs):
    mant = int.from_bytes(bytes(b & 0xFF for b in bs[:8]), "little")
    se = (bs[8] & 0xFF) | ((bs[9] & 0xFF) << 8)
    sign = -1.0 if se & 0x8000 else 1.0
    exp = se & 0x7FFF
    if exp == 0 and mant == 0:
        return 0.0 * sign if sign > 0 else -0.0
    if exp == 0x7FFF:
        return float("inf") * sign if mant == 1 << 63 else float("nan")
    if not (mant >> 63):
        return None  # pseudo-denormal / unnormal: not a canonical encoding
    return sign * (mant / float(1 << 63)) * (2.0 ** (exp - 16383))
