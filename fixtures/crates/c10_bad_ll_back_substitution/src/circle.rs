use rlib_show::show_struct;

use crate::util::EPS;

use super::point::Point;

#[derive(Copy, Clone, Default, Debug)]
pub struct Circle {
    pub c: Point,
    pub r: f64,
}

#[derive(Copy, Clone, Debug, PartialEq, Eq)]
pub enum PointPosition {
    Inside,
    Border,
    Outside,
}

impl Circle {
    pub fn new(c: Point, r: f64) -> Self {
        Self { c, r }
    }

    pub fn position(&self, p: &Point) -> PointPosition {
        let d = ((self.c - p).len() - self.r) / self.r;
        if d < -EPS {
            PointPosition::Inside
        } else if d > EPS {
            PointPosition::Outside
        } else {
            PointPosition::Border
        }
    }
}

show_struct!(Circle, c, r);
