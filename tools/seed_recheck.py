#!/usr/bin/env python3
"""Development aid: re-run the quick check of filed seeded changes (seeded/<name>) on scratch worktrees and refresh the
`caught` / `rules_fired` / `check_exit_code` fields of their meta.json.  usage: tools/seed_recheck.py <seed> [history text]"""
import json, os, re, subprocess, sys, tempfile, shutil

VERIF = os.path.dirname(os.path.dirname(os.path.abspath(__file__)))
name = sys.argv[1]
hist = sys.argv[2] if len(sys.argv) > 2 else None
d = os.path.join(VERIF, "seeded", name)
meta = json.load(open(os.path.join(d, "meta.json")))
pid = meta["property"]
w = tempfile.mkdtemp(prefix="recheck.", dir="/tmp")
try:
    subprocess.run(["git", "-C", "/repo", "worktree", "add", "-q", "--detach", w + "/repo", "HEAD"], check=True)
    subprocess.run(["git", "apply", os.path.join(d, "patch.diff")], cwd=w + "/repo", check=True)
    env = dict(os.environ, VERIF_REPO=w + "/repo", VERIF_EVIDENCE_DIR=w + "/ev")
    r = subprocess.run([os.path.join(VERIF, "bin/vcheck"), pid, "--tier", "quick", "--no-fixtures"], cwd=VERIF, env=env, capture_output=True, text=True)
    log = r.stdout
    open(os.path.join(d, "vcheck.quick.log"), "w").write(log.replace(w + "/ev", "/verif/evidence"))
    meta["check_exit_code"] = r.returncode
    meta["caught"] = r.returncode == 1 and ("VIOLATION property=%s" % pid) in log
    meta["rules_fired"] = sorted(set(re.findall(r"^\s+\S+: ([\w.@]+): \[", log, re.M)))
    if hist:
        meta["history"] = hist
    json.dump(meta, open(os.path.join(d, "meta.json"), "w"), indent=1)
    print(name, "caught" if meta["caught"] else "MISSED", meta["rules_fired"])
finally:
    subprocess.run(["git", "-C", "/repo", "worktree", "remove", "--force", w + "/repo"])
    shutil.rmtree(w, ignore_errors=True)
