pub struct BitsIter<'a, const N: usize> {
    data: &'a [u64; N],
    idx: usize,
}

impl<'a, const N: usize> BitsIter<'a, N> {
    pub fn new(data: &'a [u64; N]) -> Self {
        Self { data, idx: 0 }
    }
}

impl<const N: usize> std::iter::Iterator for BitsIter<'_, N> {
    type Item = usize;
    fn next(&mut self) -> Option<Self::Item> {
        while self.idx < self.data.len() * 64 && (self.data[self.idx / 64] >> (self.idx % 64)) == 0 {
            self.idx = (self.idx + 64) & !(63usize);
        }
        if self.idx >= self.data.len() * 64 {
            None
        } else {
            self.idx += (self.data[self.idx / 64] >> (self.idx % 64)).trailing_zeros() as usize;
            self.idx += 1;
            Some(self.idx - 1)
        }
    }
}
