use std::collections::{BTreeMap, BTreeSet, HashMap, HashSet};

use rlib_num_traits::FixedSizeInteger as _;

use crate::traits::{Show, ShowPretty, ShowSettings};

macro_rules! show_int {
    ($tp:ty, $inf_tp:ident, $inf:ident) => {
        impl Show for $tp {
            #[allow(unused_comparisons)]
            fn show(&self, settings: &ShowSettings) -> String {
                if (self.unsigned_abs() as $inf_tp) < settings.$inf {
                    self.to_string()
                } else if *self < 0 {
                    "-inf".into()
                } else {
                    "inf".into()
                }
            }
        }
    };
}

show_int!(i8, u32, inf_32);
show_int!(u8, u32, inf_32);
show_int!(i16, u32, inf_32);
show_int!(u16, u32, inf_32);
show_int!(i32, u32, inf_32);
show_int!(u32, u32, inf_32);
show_int!(i64, u64, inf_64);
show_int!(u64, u64, inf_64);
show_int!(isize, u64, inf_64);
show_int!(usize, u64, inf_64);
show_int!(i128, u128, inf_128);
show_int!(u128, u128, inf_128);

impl Show for f32 {
    fn show(&self, settings: &ShowSettings) -> String {
        format!("{:.precision$}", self, precision = settings.float_precision)
    }
}

impl Show for f64 {
    fn show(&self, settings: &ShowSettings) -> String {
        format!("{:.precision$}", self, precision = settings.float_precision)
    }
}

impl Show for &str {
    fn show(&self, _settings: &ShowSettings) -> String {
        format!("\"{}\"", self)
    }
}

impl Show for str {
    fn show(&self, settings: &ShowSettings) -> String {
        (&self).show(settings)
    }
}

impl Show for String {
    fn show(&self, settings: &ShowSettings) -> String {
        self.as_str().show(settings)
    }
}

impl Show for char {
    fn show(&self, _settings: &ShowSettings) -> String {
        format!("'{}'", self)
    }
}

impl Show for bool {
    fn show(&self, _settings: &ShowSettings) -> String {
        if *self { "true" } else { "false" }.to_string()
    }
}

impl<T: Show> Show for [T] {
    fn show(&self, settings: &ShowSettings) -> String {
        let mut res = "[".to_string();
        let mut first = true;
        for item in self.iter() {
            if !first {
                res.push_str(", ");
            }
            res.push_str(&format!(
                "{: >width$}",
                item.show(settings),
                width = settings.item_width
            ));
            first = false;
        }
        res.push(']');
        res
    }
}

impl<T: Show, const N: usize> Show for [T; N] {
    fn show(&self, settings: &ShowSettings) -> String {
        self.as_slice().show(settings)
    }
}

impl<T: Show> Show for Vec<T> {
    fn show(&self, settings: &ShowSettings) -> String {
        (self[..]).show(settings)
    }
}

impl<T: Show> ShowPretty for [Vec<T>] {
    fn show_pretty(&self, settings: &ShowSettings) -> String {
        let mut widths: Vec<usize> = Vec::new();
        let mut mat = Vec::new();
        for row in self.iter() {
            mat.push(row.iter().map(|x| x.show(settings)).collect::<Vec<_>>());
            for (i, x) in mat.last().unwrap().iter().enumerate() {
                if i >= widths.len() {
                    widths.push(settings.item_width);
                }
                widths[i] = widths[i].max(x.len());
            }
        }
        let mut lines = Vec::new();
        for (i, row) in mat.iter().enumerate() {
            let pref = if i == 0 { '[' } else { ' ' };
            let suf = if i + 1 == mat.len() { ']' } else { ',' };
            let row = row
                .iter()
                .enumerate()
                .map(|(j, x)| format!("{:>width$}", x, width = widths[j]))
                .collect::<Vec<_>>()
                .join(", ");
            lines.push(format!("{}[{}]{}", pref, row, suf));
        }
        lines.join("\n")
    }
}

macro_rules! show_map {
    ($tp:ty) => {
        impl<K: Show, V: Show> Show for $tp {
            fn show(&self, settings: &ShowSettings) -> String {
                let mut res = "{".to_string();
                let mut first = true;
                for (k, v) in self.iter() {
                    if !first {
                        res.push_str(", ");
                    }
                    res.push_str(&format!(
                        "({: >width$}, {: >width$})",
                        k.show(settings),
                        v.show(settings),
                        width = settings.item_width
                    ));
                    first = false;
                }
                res.push('}');
                res
            }
        }

        impl<K: Show, V: Show> ShowPretty for $tp {
            fn show_pretty(&self, settings: &ShowSettings) -> String {
                let mut widths = [settings.item_width, settings.item_width];
                let mut items = Vec::new();
                for (k, v) in self.iter() {
                    let item = [k.show(settings), v.show(settings)];
                    for i in 0..2 {
                        widths[i] = widths[i].max(item[i].len());
                    }
                    items.push(item);
                }
                let mut lines = Vec::new();
                for (i, row) in items.iter().enumerate() {
                    let pref = if i == 0 { '{' } else { ' ' };
                    let suf = if i + 1 == items.len() { '}' } else { ',' };
                    let row = format!(
                        "{:<k_width$}: {:<v_width$}",
                        row[0],
                        row[1],
                        k_width = widths[0],
                        v_width = widths[1]
                    );
                    lines.push(format!("{}{}{}", pref, row, suf));
                }
                lines.join("\n")
            }
        }
    };
}

show_map!(BTreeMap<K, V>);
show_map!(HashMap<K, V>);

macro_rules! show_set {
    ($tp:ty) => {
        impl<T: Show> Show for $tp {
            fn show(&self, settings: &ShowSettings) -> String {
                let mut res = "{".to_string();
                let mut first = true;
                for item in self.iter() {
                    if !first {
                        res.push_str(", ");
                    }
                    res.push_str(&format!(
                        "{: >width$}",
                        item.show(settings),
                        width = settings.item_width
                    ));
                    first = false;
                }
                res.push('}');
                res
            }
        }
    };
}

show_set!(BTreeSet<T>);
show_set!(HashSet<T>);

macro_rules! show_tuple {
    ($t:ident,) => {};
    ($t1:ident, $($t:ident,)*) => {
        impl<$t1: Show, $($t: Show,)*> Show for ($t1, $($t,)*) {
            fn show(&self, settings: &ShowSettings) -> String {
                let mut res = "(".to_string();
                #[allow(non_snake_case)]
                let ($t1, $($t,)*) = self;
                res.push_str(&$t1.show(settings));
                $(
                    res.push_str(", ");
                    res.push_str(&$t.show(settings));
                )*
                res.push(')');
                res
            }
        }

        show_tuple!($($t,)*);
    }
}

show_tuple!(A, B, C, D, E, F, G, H, I, J, K, L,);
