use std::ops::{Index, IndexMut};

use rlib_io::{Readable, Reader, Writable, Writer};

#[derive(Clone)]
pub struct Tensor<T, const D: usize> {
    dims: [usize; D],
    data: Vec<T>,
}

impl<T, const D: usize> Tensor<T, D> {
    pub fn from_vec(dims: [usize; D], data: Vec<T>) -> Self {
        assert!(!dims.contains(&0));
        let data: Vec<T> = data.into_iter().take(dims.iter().product()).collect();
        assert_eq!(dims.iter().product::<usize>(), data.len());
        Self { dims, data }
    }

    pub fn get_index(&self, idx: [usize; D]) -> usize {
        let mut result = 0;
        let mut sz = 1;
        for i in (0..D).rev() {
            assert!(idx[i] < self.dims[i]);
            result += sz * idx[i];
            sz *= self.dims[i];
        }
        result
    }

    pub fn dims(&self) -> &[usize; D] {
        &self.dims
    }

    pub fn dim(&self, i: usize) -> usize {
        self.dims[i]
    }

    pub fn iter(&self) -> std::slice::Iter<'_, T> {
        self.data.iter()
    }

    pub fn iter_mut(&mut self) -> std::slice::IterMut<'_, T> {
        self.data.iter_mut()
    }
}

impl<T, const D: usize> IntoIterator for Tensor<T, D> {
    type Item = T;
    type IntoIter = std::vec::IntoIter<T>;

    fn into_iter(self) -> Self::IntoIter {
        self.data.into_iter()
    }
}

impl<T: Clone, const D: usize> Tensor<T, D> {
    pub fn new(dims: [usize; D], value: T) -> Self {
        assert!(!dims.contains(&0));
        Self {
            dims,
            data: vec![value; dims.iter().product()],
        }
    }

    pub fn from_slice(dims: [usize; D], data: &[T]) -> Self {
        assert!(!dims.contains(&0));
        assert_eq!(dims.iter().product::<usize>(), data.len());
        Self {
            dims,
            data: data.to_vec(),
        }
    }
}

impl<T, const D: usize> Index<[usize; D]> for Tensor<T, D> {
    type Output = T;

    fn index(&self, idx: [usize; D]) -> &Self::Output {
        &self.data[self.get_index(idx)]
    }
}

impl<T, const D: usize> IndexMut<[usize; D]> for Tensor<T, D> {
    fn index_mut(&mut self, idx: [usize; D]) -> &mut Self::Output {
        let idx = self.get_index(idx);
        &mut self.data[idx]
    }
}

impl<T: PartialEq, const D: usize> PartialEq for Tensor<T, D> {
    fn eq(&self, other: &Self) -> bool {
        self.dims == other.dims && self.data == other.data
    }
}

impl<T: Readable, const D: usize> Tensor<T, D> {
    pub fn read(dims: [usize; D], reader: &mut Reader) -> Self {
        assert!(!dims.contains(&0));
        Self {
            dims,
            data: reader.read_vec(dims.iter().product()),
        }
    }
}

impl<T: Writable, const D: usize> Writable for Tensor<T, D> {
    fn write(&self, writer: &mut Writer) {
        let mut idx = [0; D];
        loop {
            writer.write(&self[idx]);
            if let Some(pos) = idx.iter().zip(self.dims.iter()).rposition(|(i1, i2)| i1 + 1 != *i2) {
                if pos + 1 == D {
                    writer.write_char(' ');
                } else {
                    for _ in 0..(D - pos - 1) {
                        writer.write_char('\n');
                    }
                }
                idx[pos] += 1;
                idx[pos + 1..].fill(0);
            } else {
                break;
            }
        }
    }
}

impl<T: std::fmt::Debug, const D: usize> std::fmt::Debug for Tensor<T, D> {
    fn fmt(&self, f: &mut std::fmt::Formatter<'_>) -> std::fmt::Result {
        let mut idx = [0; D];
        write!(f, "{}", (0..D).map(|_| '[').collect::<String>())?;
        loop {
            write!(f, "{:?}", self[idx])?;
            if let Some(pos) = idx.iter().zip(self.dims.iter()).rposition(|(i1, i2)| i1 + 1 != *i2) {
                if pos + 1 == D {
                    write!(f, ", ")?;
                } else {
                    for _ in 0..(D - pos - 1) {
                        write!(f, "]")?;
                    }
                    write!(f, ", ")?;
                    for _ in 0..(D - pos - 1) {
                        write!(f, "[")?;
                    }
                }
                idx[pos] += 1;
                idx[pos + 1..].fill(0);
            } else {
                break;
            }
        }
        write!(f, "{}", (0..D).map(|_| ']').collect::<String>())?;
        Ok(())
    }
}
