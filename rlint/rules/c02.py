"""C02 — segment-tree boundary searches: anatomy of both searches on every path.  DESIGN.md §4 C02."""
from .. import util, zones
from ..absint import tstr, mk_int, subterms
from ..core import Anchor
from . import c01
from .c01 import P, is_call_to

PID = "C02"
LEVEL = "other"
CRATES = ["rlib_segtree"]
RELEASE = True
NO_HIDDEN_STATE = ['rlib_segtree']   # driver rule STATE: these crates are plain data structures / functions
ARMED = True
ENGINES = ["E1", "E3", "E4a"]
TECHNIQUE = "path-sensitive term-flow abstract interpretation of lower_bound_internal / lower_bound_rev_internal: operand order and guard facts at the predicate call, carry provenance between sibling calls, leaf-only Some, visiting order, entry arguments; inductive range containment shared with C01"
LEVEL_TEXT = (
    "Structural anatomy of both searches decided on every path in both profiles: the predicate only ever sees merge(carry, node) "
    "(forward) / merge(node, carry) (reverse) and only under the full-cover guard l==vl && r==vr; the carry handed to the second "
    "child is the one returned by the first; a found index is only produced at a leaf and equals the leaf position; the forward "
    "search visits left before right and stops at the first hit (mirrored for reverse); pending modifications are pushed before "
    "every descent and nothing else writes the tree; the public entries start from the identity carry at the root. That the returned "
    "index is the smallest/largest satisfying one for arbitrary monotone predicates is not decided as a value statement."
)
LEVEL_NOTE = "trusted: rustc MIR, exporter, std axioms; T::default() of a user item being the identity of its merge is the user's obligation (checked for the six built-in items)"
EXPLANATION = (
    "R1/R3/R4 (shared with C01) on the two search functions. B1: at every call of the predicate the argument is merge(carry, data[i]) "
    "in the forward search and merge(data[i], carry) in the reverse search, and the facts of the path at that call contain l==vl and "
    "r==vr. B2: the predicate-false exit returns the merged value (not the incoming carry); the second child receives the carry "
    "returned by the first child; the second child's result is returned unchanged. B3: Some(idx) is built only under vl==vr and "
    "predicate true, with idx == vl. B4: forward visits the left child before the right one and returns the left result as soon as "
    "it is Some; reverse mirrored. B5: entries pass T::default() as carry and (l, n-1) / (0, r) on the root (0,0,n-1); the Default "
    "impls of the six built-in items are identities of their merge (MAX for min, MIN for max, default for sums, len default). B6: the "
    "searches write the tree only through push_at. NOT decided: minimality/maximality of the returned index as a value statement."
)
UNDECIDED = ["'smallest r' / 'largest l' as a value statement for arbitrary monotone predicates"]
ASSUMPTIONS = ["the user item's Default is the identity of its merge", "no usize overflow in index arithmetic"]
FIXTURES = [
    ("c02_bad_merge_args_swapped", "bad", ["B1"]),
    ("c02_bad_guard_half", "bad", ["B1"]),
    ("c02_bad_return_stale_carry", "bad", ["B2"]),
    ("c02_bad_right_gets_old_carry", "bad", ["B2"]),
    ("c02_bad_right_first", "bad", ["B4"]),
    ("c02_bad_entry_carry", "bad", ["B5"]),
    ("c02_bad_root_reject", "bad", ["B5"]),
    ("c02_good_range_guard", "good", []),
]

SEARCHES = (("lower_bound_internal", "fwd"), ("lower_bound_rev_internal", "rev"))


def _opt_state(st, opt):
    """what the path facts say about an Option value: 'some' / 'none' / None.  Read from discriminant tests and from
    is_some / is_none calls (by name: `is_none() == false` is a hit, `is_some() == false` is not)"""
    verdict = None
    for f in st.facts:
        t = f[1]
        if f[0] not in ("eq", "ne") or not isinstance(t, tuple) or not t:
            continue
        v = None
        if t[0] == "discr" and t[1] == opt and f[2] in (0, 1):
            v = "some" if (f[2] == 1) == (f[0] == "eq") else "none"
        elif t[0] == "bin" and t[1] in ("Eq", "Ne") and f[2] in (0, 1) and {t[2][0], t[3][0]} == {"discr", "int"}:
            # is_some() / is_none() as the interpreter's axioms state them: discr(x) == 1, discr(x) == 0
            d, k = (t[2], t[3]) if t[2][0] == "discr" else (t[3], t[2])
            if d[1] != opt or k[1] not in (0, 1):
                continue
            truth = (f[0] == "eq") == bool(f[2])
            if t[1] == "Ne":
                truth = not truth
            v = "some" if truth == (k[1] == 1) else "none"
        elif t[0] == "call" and str(t[1]).rsplit("::", 1)[-1] in ("is_some", "is_none") and "Option" in str(t[1]) and f[2] in (0, 1):
            args = [x for x in t[2] if not (isinstance(x, tuple) and x and x[0] == "mem")]
            a = args[0] if args else None
            while isinstance(a, tuple) and len(a) == 2 and a[0] == "ref":
                a = a[1]
            if isinstance(a, tuple) and a and a[0] == "constval":
                a = a[1]
            if a != opt:
                continue
            truth = (f[0] == "eq") == bool(f[2])
            v = "some" if truth == str(t[1]).endswith("is_some") else "none"
        if v is not None:
            if verdict is not None and verdict != v:
                return None
            verdict = v
    return verdict


def _merge_operands(t):
    """t = merge(&a, &b, mem) -> (a_desc, b_desc) where desc is ('val', term) or ('place', place)"""
    if not (isinstance(t, tuple) and t and t[0] == "call" and str(t[1]).endswith("SegtreeItem::merge")):
        return None
    out = []
    for a in t[2][:2]:
        if a[0] == "ref" and a[1][0] == "constval":
            out.append(("val", a[1][1]))
        elif a[0] == "ref":
            out.append(("place", a[1]))
        else:
            out.append(("other", a))
    return out


def check(col, prog, tier, profile, fixture=None):
    crate = prog.crate(fixture or "rlib_segtree")
    R = c01.seg_roles(crate)
    sfx = "" if profile == "dev" else "@" + profile
    fk = util.fkey
    names = [s[0] for s in SEARCHES]
    col.rule("R1" + sfx, "push_at(own node) precedes every recursive call in both searches", floor=4)
    col.rule("R3" + sfx, "geometry of the recursive calls of both searches; push_at hands over (node, left child, right child)", floor=5)
    col.rule("R4" + sfx, "search ranges stay inside the node range with one end pinned (inductive)", floor=6)
    col.rule("B1" + sfx, "the predicate sees merge(carry,node) / merge(node,carry) only under l==vl && r==vr", floor=2)
    col.rule("B2" + sfx, "carry discipline: false-exit returns the merged value; second child gets the first child's carry; its result is returned unchanged", floor=6)
    col.rule("B3" + sfx, "Some(idx) only at a leaf under predicate true, idx == vl", floor=2)
    col.rule("B4" + sfx, "visiting order: near child first, stop at the first hit", floor=4)
    col.rule("B5" + sfx, "entries: identity carry, root (0,0,n-1), (l,n-1)/(0,r); built-in Defaults are merge identities", floor=8)
    col.rule("B6" + sfx, "searches write the tree only through push_at", floor=2)

    col.rule("R7" + sfx, "built-in lazy items the searches run over: push applies md to both children then resets; modify updates v and md; merge md=default", floor=12)
    col.rule("R8" + sfx, "Combinator forwards every method component-wise", floor=7)
    from . import c01_items

    c01_items.check_items(col, crate, sfx)
    c01.rule_push_before_descend(col, R, "R1", names, sfx)
    c01.rule_geometry(col, R, "R3", names, sfx)
    # the searches descend through push_at: a pending modification must reach the children in order (seeded change C02-j)
    c01.rule_helpers_geometry(col, R, "R3", sfx, only={"push_at", "merge_at", "rebuild_empty"})   # the node aggregates the searches read are merge(left child, right child)
    c01.rule_routing(col, R, "R4", sfx, only=set(names))
    c01.rule_build_empty(col, R, "R3", sfx)   # the aggregates the searches read in a tree made by new(n, value)

    for nm, direction in SEARCHES:
        b = R.fn[nm]
        I = c01.analyse(b)
        node, vl, vr = c01.infer_positions(I, b)
        VP, VA = (lambda k: c01.VP(I, b, k)), (lambda ev: c01.VA(b, ev))
        Pi, Pvl, Pvr = VP(node), VP(vl), VP(vr)
        q = [p for p in range(1, c01.VN(b)) if p not in (node, vl, vr) and c01.VTY(b, p) == "usize"]
        if len(q) != 2:
            raise Anchor("%s: cannot identify the query bounds" % b.path)
        Pl, Pr = VP(q[0]), VP(q[1])
        # carry parameter: the by-value non-usize, non-reference parameter (virtual positions: a struct of usize fields
        # standing for (i, vl, vr) is read field by field, see c01.VA)
        cpos = [p for p in range(1, c01.VN(b)) if not c01.VTY(b, p).startswith("&") and c01.VTY(b, p) != "usize"]
        byref = False
        if not cpos:
            # the carry handed down by `&mut T` (one exclusive reference besides self): the running aggregate is what
            # the reference points to; "returned carry" is what the call leaves there
            cpos = [p for p in range(1, c01.VN(b)) if c01.VTY(b, p).startswith("&mut ")]
            byref = True
        if len(cpos) != 1:
            raise Anchor("%s: cannot identify the carry parameter" % b.path)
        cpos = cpos[0]
        Pc = VP(cpos)
        Cpl = ("deref", Pc)
        M0 = ("load", ("m0",), Cpl)

        def left_by(mem, ev):
            """the carry in memory `mem` is what call `ev` left behind the reference, not written since"""
            v = I.load(mem, Cpl)
            return v[0] == "load" and v[1][0] == "after" and v[1][2] == ev.extra.get("uid")

        # per mode: the carry operand of merge, the carry a recursive call is given, what a call returns
        carry_operand = ("place", Cpl) if byref else ("val", Pc)
        if byref:
            gets_incoming = lambda ev: VA(ev)[cpos] == ("ref", Cpl) and I.load(ev.state[1], Cpl) == M0
            gets_carry_of = lambda ev, first: VA(ev)[cpos] == ("ref", Cpl) and left_by(ev.state[1], first)
            found_of = lambda ev: ev.res
            returns_call = lambda st, ret, ev: ret == ev.res and left_by(st.mem, ev)
        else:
            gets_incoming = lambda ev: VA(ev)[cpos] == Pc
            gets_carry_of = lambda ev, first: VA(ev)[cpos] == ("proj", 0, first.res)
            found_of = lambda ev: ("proj", 1, ev.res)
            returns_call = lambda st, ret, ev: ret == ev.res
        near = 1 if direction == "fwd" else 2  # child offset visited first
        far = 2 if direction == "fwd" else 1
        child = lambda ev: 1 if util.lin_equal(VA(ev)[node], ("bin", "Add", ("bin", "Mul", Pi, mk_int(2)), mk_int(1))) else 2
        datai = ("index", ("field", ("deref", P(I, 1)), R.DATA), Pi)
        npred = 0
        for st in I.final_states:
            evs = st.event_list()
            preds = [e for e in evs if e.kind == "call" and e.extra.get("name") in ("call", "call_mut", "call_once") and "ops::Fn" in (e.extra.get("trait") or "")]
            recs = [e for e in evs if is_call_to(e, b)]
            ret = util.ret_term(st)
            # ---- B1
            for e in preds:
                npred += 1
                seen = None
                fresh = True
                for s in subterms(e.res):
                    mo = _merge_operands(s)
                    if mo:
                        seen = mo
                        if byref:
                            mm = [x for x in s[2] if isinstance(x, tuple) and x and x[0] == "mem"]
                            fresh = bool(mm) and I.load(mm[0][1], Cpl) == M0
                want = [carry_operand, ("place", datai)] if direction == "fwd" else [("place", datai), carry_operand]
                facts = e.state[0]
                eqf = lambda x, y: ("eq", ("bin", "Eq", x, y), 1) in facts or ("eq", ("bin", "Eq", y, x), 1) in facts or ("eq", ("bin", "Ne", x, y), 0) in facts or ("eq", ("bin", "Ne", y, x), 0) in facts
                guard = eqf(Pl, Pvl) and eqf(Pr, Pvr)
                key = "%s|predicate-argument" % fk(b)
                if seen == want and fresh and guard:
                    col.ok("B1" + sfx, b.loc(e.bb), key, "f(merge(%s)) under l==vl && r==vr" % ("carry, data[i]" if direction == "fwd" else "data[i], carry"))
                elif seen != want or not fresh:
                    col.violation("B1" + sfx, key, b.loc(e.bb), "the predicate of the %s search is shown %s; it must see merge(%s): for non-commutative merges the aggregate is not the in-order merge of the range" % ("forward" if direction == "fwd" else "reverse", tstr(e.res), "carry, node" if direction == "fwd" else "node, carry"))
                else:
                    col.violation("B1" + sfx, "%s|predicate-guard" % fk(b), b.loc(e.bb), "the predicate is evaluated on a node that is not known to be fully covered (l==vl && r==vr): elements outside the query range are folded in")
            # ---- B2 / B3 on exits without recursion
            if not recs:
                if byref:
                    pair = (I.load(st.mem, Cpl), ret) if ret[0] == "agg" and ret[1][0] == "adt" else None
                else:
                    pair = ret[2] if ret[0] == "agg" and ret[1] == "tuple" and len(ret[2]) == 2 else None
                if pair is not None:
                    carry_out, found = pair
                    is_none = found[0] == "agg" and found[1][3] == "None"
                    mo = _merge_operands(carry_out)
                    if is_none:
                        key = "%s|false-exit-returns-merged" % fk(b)
                        if mo:
                            col.ok("B2" + sfx, b.loc(), key, "returns (merge(..), None)" if not byref else "leaves merge(..) behind the carry reference and returns None")
                        else:
                            col.violation("B2" + sfx, key, b.loc(), "on the predicate-false exit the search returns %s as carry instead of the merged value: the node's elements are dropped from the running aggregate" % tstr(carry_out))
                    else:
                        idx = found[2][0] if found[0] == "agg" and found[2] else None
                        ptrue = any(f[0] == "eq" and f[2] == 1 and isinstance(f[1], tuple) and f[1][0] == "call" and "ops::Fn" in str(f[1][1]) for f in st.facts)
                        leaf = ("eq", ("bin", "Eq", Pvl, Pvr), 1) in st.facts or ("eq", ("bin", "Eq", Pvr, Pvl), 1) in st.facts
                        key = "%s|found-at-leaf" % fk(b)
                        if idx == Pvl and ptrue and leaf:
                            col.ok("B3" + sfx, b.loc(), key, "Some(vl) under vl==vr and predicate true")
                        else:
                            col.violation("B3" + sfx, key, b.loc(), "Some(%s) is produced %s" % (tstr(idx) if idx else "?", "off a leaf" if not leaf else "without the predicate being true" if not ptrue else "with an index that is not the leaf position"))
                else:
                    col.violation("B2" + sfx, "%s|exit-shape" % fk(b), b.loc(), "an exit of %s without recursion returns %s: neither (carry, found) nor an Option beside a carry reference" % (b.path, tstr(ret)))
                continue
            # ---- B2 / B4 with recursion
            order = [child(e) for e in recs]
            first = recs[0]
            key = "%s|first-call-gets-incoming-carry" % fk(b)
            if gets_incoming(first):
                col.ok("B2" + sfx, b.loc(first.bb), key, "the first child searched continues from the incoming carry")
            else:
                col.violation("B2" + sfx, key, b.loc(first.bb), "the first child searched is given carry %s instead of the incoming one: what was accumulated left of this node is missing from the aggregate shown to the predicate" % tstr(VA(first)[cpos]))
            if len(recs) == 2:
                second = recs[1]
                ok_order = order == [near, far]
                key = "%s|near-child-first" % fk(b)
                if ok_order:
                    col.ok("B4" + sfx, b.loc(first.bb), key, "%s child before %s child" % (("left", "right") if direction == "fwd" else ("right", "left")))
                else:
                    col.violation("B4" + sfx, key, b.loc(first.bb), "the %s search visits the children in the wrong order: the first satisfying index is not the one returned" % ("forward" if direction == "fwd" else "reverse"))
                key = "%s|second-child-gets-returned-carry" % fk(b)
                if gets_carry_of(second, first):
                    col.ok("B2" + sfx, b.loc(second.bb), key, "carry = first child's returned carry")
                else:
                    col.violation("B2" + sfx, key, b.loc(second.bb), "the second child is searched with carry %s instead of the carry returned by the first child: the first child's elements are missing from the aggregate shown to the predicate" % tstr(VA(second)[cpos]))
                none_first = _opt_state(st, found_of(first)) == "none"
                key = "%s|second-result-returned" % fk(b)
                if returns_call(st, ret, second) and none_first:
                    col.ok("B2" + sfx, b.loc(second.bb), key, "first child had no hit; second child's result returned unchanged")
                else:
                    col.violation("B2" + sfx, key, b.loc(second.bb), "after searching both children the result of the second is not returned unchanged (or the first child's hit was ignored)")
            elif len(recs) == 1:
                # single call: either the near child hit (Some) and is returned, or the near child was skipped
                e = first
                if order[0] == near:
                    hit = _opt_state(st, found_of(e)) == "some"
                    okr = ret == e.res or (ret[0] == "agg" and ret[2] == (("proj", 0, e.res), ("proj", 1, e.res))) or (byref and _same_option(st, ret, e.res))
                    key = "%s|stop-at-first-hit" % fk(b)
                    if hit and okr:
                        col.ok("B4" + sfx, b.loc(e.bb), key, "near child's Some is returned at once")
                    else:
                        col.violation("B4" + sfx, key, b.loc(e.bb), "the search does not return the near child's hit as found")
                else:
                    key = "%s|far-only" % fk(b)
                    okc = gets_incoming(e) and returns_call(st, ret, e)
                    if okc:
                        col.ok("B2" + sfx, b.loc(e.bb), key, "near child outside the range: far child searched with the incoming carry, result returned unchanged")
                    else:
                        col.violation("B2" + sfx, key, b.loc(e.bb), "when the near child is outside the query range the far child must be searched with the incoming carry and its result returned")
            else:
                col.violation("B4" + sfx, "%s|calls-per-path" % fk(b), b.loc(first.bb), "%s searches %d subtrees on one path: each node has two children" % (b.path, len(recs)))
        if npred == 0:
            col.violation("B1" + sfx, "%s|no-predicate-call" % fk(b), b.loc(), "the search never evaluates the predicate")
        # ---- B6
        writes = []
        for st in I.final_states:
            for e in st.event_list():
                if e.kind == "store" and any(s[0] == "field" and s[2] == R.DATA for s in subterms(e.place)):
                    writes.append(e)
                if e.kind == "call" and not is_call_to(e, R.fn["push_at"]) and not is_call_to(e, b):
                    for a in e.args:
                        if a[0] == "ref" and any(s[0] == "field" and s[2] == R.DATA for s in subterms(a)):
                            ty = e.extra["argtys"][e.args.index(a)]
                            if ty.startswith("&mut"):
                                writes.append(e)
        key = "%s|no-direct-writes" % fk(b)
        if not writes:
            col.ok("B6" + sfx, b.loc(), key, "the tree is modified only through push_at")
        else:
            col.violation("B6" + sfx, key, b.loc(writes[0].bb), "%s modifies the tree other than through push_at" % b.path)

    # ---- B5 entries
    for pub, internal, direction in (("lower_bound", "lower_bound_internal", "fwd"), ("lower_bound_rev", "lower_bound_rev_internal", "rev")):
        b = R.fn[pub]
        tgt = R.fn[internal]
        # an entry point written through another (non-role) public method of Segtree is judged with that method inlined
        rolekeys = {x.key for x in R.fn.values()}
        pubh = [m_ for m_ in util.methods_of(crate, "Segtree") if m_.vis == "pub" and m_.key not in rolekeys and not util.self_recursive(m_)]
        I = R.A_with(pubh)(b)
        It = c01.analyse(tgt)
        cpos = [p for p in range(1, c01.VN(tgt)) if not c01.VTY(tgt, p).startswith("&") and c01.VTY(tgt, p) != "usize"]
        byref_t = not cpos
        if byref_t:
            cpos = [p for p in range(1, c01.VN(tgt)) if c01.VTY(tgt, p).startswith("&mut ")]
        if len(cpos) != 1:
            raise Anchor("%s: cannot identify the carry parameter" % tgt.path)
        cpos = cpos[0]
        cpos_raw = c01._expansion(tgt)[cpos][0]
        for st in I.final_states:
            evs = st.event_list()
            if not any(is_call_to(ev, tgt) for ev in evs) and not _out_of_range_path(I, st, R, 2):
                col.violation("B5" + sfx, "%s|answers-without-search" % fk(b), b.loc(), "%s has a path that returns %s without running %s: the answer must be the search's" % (b.path, tstr(util.ret_term(st)), tgt.name))
            direct = [ev for ev in evs if ev.kind == "call" and ev.extra.get("name") in ("call", "call_mut", "call_once") and (ev.extra.get("trait") or "").split("::")[-1].startswith("Fn")]
            if direct:
                col.violation("B5" + sfx, "%s|predicate-outside-search" % fk(b), b.loc(direct[0].bb), "%s evaluates the predicate itself on %s: the predicate may only see the in-order merge of [l; r'] built by the search" % (b.path, tstr(direct[0].args[1]) if len(direct[0].args) > 1 else "?"))
            for ev in evs:
                if not is_call_to(ev, tgt):
                    continue
                c = c01.VA(tgt, ev)[cpos]
                if byref_t and isinstance(c, tuple) and c[0] == "ref":
                    # the carry behind a reference: the value of the referenced local when the search starts
                    c = (ev.extra.get("argvals") or [None] * (cpos_raw + 1))[cpos_raw] or c
                ok = c[0] == "call" and str(c[1]).endswith("Default::default")
                ret = util.ret_term(st)
                ok = ok and _same_option(st, ret, ev.res if byref_t else ("proj", 1, ev.res))
                key = "%s|identity-carry" % fk(b)
                if ok:
                    col.ok("B5" + sfx, b.loc(ev.bb), key, "initial carry T::default(); returns the found index")
                else:
                    col.violation("B5" + sfx, key, b.loc(ev.bb), "%s must start the search with T::default() as carry and return the search's index component" % b.path)
    _defaults(col, crate, sfx)


def _same_option(st, ret, X):
    """ret is the Option X itself, or X rebuilt on this path: None where the facts say X is None, Some(payload of
    X) where they say it is Some (what `x.map(|v| v)`, a match, or map-then-project produce)"""
    from ..absint import NONE, mk_some, mk_proj, mk_down

    if ret == X:
        return True
    d = ("discr", X)
    none = any((f[0] == "eq" and f[1] == d and f[2] == 0) or (f[0] == "ne" and f[1] == d and f[2] == 1) for f in st.facts)
    some = any((f[0] == "eq" and f[1] == d and f[2] == 1) or (f[0] == "ne" and f[1] == d and f[2] == 0) for f in st.facts)
    if none and ret == NONE:
        return True
    if some and ret == mk_some(mk_proj(mk_down(X, 1), 0)):
        return True
    return False


def _out_of_range_path(I, st, R, ipos):
    """the path condition says the index argument is outside the array (idx >= n) or the tree is empty:
    the property does not quantify over such calls, so answering without a search is not a violation"""
    idx = ("param", ipos, I.names.get(ipos))
    facts = st.facts
    ns = set()
    for f in facts:
        for t in subterms(f):
            if t[0] == "load" and t[2][0] == "field" and t[2][2] == R.N:
                ns.add(t)
    for n in ns:
        if zones.entails(facts, "Ge", idx, n, I.tys) or zones.entails(facts, "Eq", n, mk_int(0), I.tys):
            return True
    return False


def _defaults(col, crate, sfx):
    fk = util.fkey
    want = {"Min": {"v": "MAX"}, "Max": {"v": "MIN"}, "MinAdd": {"v": "MAX", "md": "default"}, "MaxAdd": {"v": "MIN", "md": "default"}, "Sum": {"v": "default"}, "SumAdd": {"v": "default", "len": "default", "md": "default"}}
    from .c01_items import _impl_bodies, _is_default, _resolve_ctor

    for nm, spec in want.items():
        impl = _impl_bodies(crate, nm, "Default")
        b = impl.get("default")
        if b is None:
            raise Anchor("no Default impl for %s" % nm)
        adt = crate.adt(nm)
        fields = [f["name"] for f in adt["variants"][0]["fields"]]
        I = util.analyse(b)
        for st in I.final_states:
            ret = util.ret_term(st)
            agg = _resolve_ctor(crate, nm, ret, st)
            ok = agg is not None
            if ok:
                for f, w in spec.items():
                    v = agg[fields.index(f)]
                    if w == "default":
                        ok = ok and _is_default(v)
                    else:
                        ok = ok and v[0] == "assoc" and v[2] == w and str(v[1]).endswith("MinMax")
            key = "%s|identity" % fk(b)
            if ok:
                col.ok("B5" + sfx, b.loc(), key, "%s::default() = %s" % (nm, spec))
            else:
                col.violation("B5" + sfx, key, b.loc(), "%s::default() is not the identity of its merge (expected %s, got %s)" % (nm, spec, tstr(ret)))
