pub mod lcg;
mod mrand;
pub mod randomable;

pub type Rng = lcg::LinearCongruentialGenerator64<6364136223846793005, 1442695040888963407>;
pub use mrand::Rand;
