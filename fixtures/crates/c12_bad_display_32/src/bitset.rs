use std::ops::*;

use crate::bits_iter::BitsIter;

#[derive(Clone, Eq, PartialEq)]
pub struct Bitset<const N: usize> {
    data: [u64; N],
}

impl<const N: usize> Bitset<N> {
    pub fn new() -> Self {
        Self { data: [0; N] }
    }

    pub fn from_u64(x: u64) -> Self {
        let mut data = [0; N];
        data[0] = x;
        Self { data }
    }

    pub fn set(&mut self, x: usize) {
        self.data[x / 64] |= 1u64 << (x % 64);
    }

    pub fn remove(&mut self, x: usize) {
        self.data[x / 64] &= !(1u64 << (x % 64));
    }

    pub fn flip(&mut self, x: usize) {
        self.data[x / 64] ^= 1u64 << (x % 64);
    }

    pub fn test(&self, x: usize) -> bool {
        ((self.data[x / 64] >> (x % 64)) & 1) > 0
    }

    pub fn clear(&mut self) {
        self.data.fill(0);
    }

    pub fn iter_bits(&self) -> BitsIter<N> {
        BitsIter::new(&self.data)
    }

    pub fn count(&self) -> usize {
        self.data.iter().map(|x| x.count_ones() as usize).sum::<usize>()
    }
}

macro_rules! bin_op {
    ($trait:ident, $func:ident) => {
        impl<const N: usize> $trait for &Bitset<N> {
            type Output = Bitset<N>;

            fn $func(self, rhs: &Bitset<N>) -> Self::Output {
                let mut result = Bitset::<N>::new();
                for (i, (x, y)) in self.data.iter().zip(rhs.data.iter()).enumerate() {
                    result.data[i] = x.$func(y);
                }
                result
            }
        }
    };
}

bin_op!(BitAnd, bitand);
bin_op!(BitOr, bitor);
bin_op!(BitXor, bitxor);

macro_rules! bin_op_assign {
    ($trait:ident, $func:ident) => {
        impl<const N: usize> $trait<&Bitset<N>> for Bitset<N> {
            fn $func(&mut self, rhs: &Bitset<N>) {
                for (x, y) in self.data.iter_mut().zip(rhs.data.iter()) {
                    x.$func(y);
                }
            }
        }
    };
}

bin_op_assign!(BitAndAssign, bitand_assign);
bin_op_assign!(BitOrAssign, bitor_assign);
bin_op_assign!(BitXorAssign, bitxor_assign);

impl<const N: usize> Not for Bitset<N> {
    type Output = Self;

    fn not(mut self) -> Self::Output {
        for x in self.data.iter_mut() {
            *x = !*x;
        }
        self
    }
}

impl<const N: usize> Default for Bitset<N> {
    fn default() -> Self {
        Self::new()
    }
}

impl<const N: usize> std::fmt::Display for Bitset<N> {
    fn fmt(&self, f: &mut std::fmt::Formatter) -> std::fmt::Result {
        write!(
            f,
            "{}",
            (0..N * 32)
                .map(|i| (self.test(i) as i32).to_string())
                .collect::<Vec<_>>()
                .join("")
        )
    }
}
impl<const N: usize> std::fmt::Debug for Bitset<N> {
    fn fmt(&self, f: &mut std::fmt::Formatter) -> std::fmt::Result {
        write!(
            f,
            "{}",
            (0..N * 64)
                .map(|i| (self.test(i) as i32).to_string())
                .collect::<Vec<_>>()
                .join("")
        )
    }
}
