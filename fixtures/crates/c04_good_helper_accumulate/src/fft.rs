use rlib_num_traits::{Float, ZeroOne};

use crate::Complex;

#[derive(Clone)]
pub struct FFT<F: Float> {
    w: Vec<Complex<F>>,
    reversed: Vec<usize>,
    bufs: [Vec<Complex<F>>; 2],
}

impl<F: Float> FFT<F> {
    pub fn new() -> Self {
        let mut res = Self {
            w: vec![Complex::ONE, Complex::ONE],
            reversed: vec![0],
            bufs: [vec![], vec![]],
        };
        res.update_n(4);
        res
    }

    pub fn update_n(&mut self, n: usize) {
        assert_eq!(n & (n - 1), 0);
        let mut cur = self.reversed.len();
        if n <= cur {
            return;
        }
        self.reversed.resize(n, 0);
        self.w.resize(n + 1, Complex::ZERO);
        while cur < n {
            for i in 0..cur {
                self.reversed[i] <<= 1;
            }
            for i in cur..(cur << 1) {
                self.reversed[i] = self.reversed[i - cur] ^ 1;
            }
            (1..=(cur << 1) - 2).rev().step_by(2).for_each(|i| {
                self.w[i] = self.w[i / 2];
            });
            let icur = F::ONE / F::from_usize(cur);
            (1..(cur << 1)).step_by(2).for_each(|i| {
                let x = F::PI * F::from_usize(i) * icur;
                self.w[i] = Complex::new(x.cos(), x.sin())
            });
            cur *= 2;
        }
        *self.w.last_mut().unwrap() = Complex::ONE;
    }

    fn fft_internal<const B: usize>(&mut self, from: usize, n: usize, inv: bool) {
        self.update_n(n);
        let v = &mut self.bufs[B][from..from + n];
        let max_n = self.reversed.len();
        let d = max_n.ilog2() - n.ilog2();

        for i in 1..n {
            if i < (self.reversed[i] >> d) {
                v.swap(i, self.reversed[i] >> d);
            }
        }

        let mut ln = 1;
        while ln < n {
            let step: isize = (if inv { -(max_n as isize) } else { max_n as isize }) / (ln as isize * 2);
            (0..n).step_by(ln << 1).for_each(|i| {
                let mut ind: isize = if inv { max_n as isize } else { 0 };
                for j in 0..ln {
                    let y = v[i + j + ln] * self.w[ind as usize];
                    ind += step;
                    v[i + j + ln] = v[i + j] - y;
                    v[i + j] += y;
                }
            });
            ln <<= 1;
        }

        if inv {
            let invn = F::ONE / F::from_usize(n);
            for x in v.iter_mut() {
                *x *= invn;
            }
        }
    }

    pub fn fft(&mut self, v: &[i32], mut n: usize) -> Vec<Complex<F>> {
        if n == 0 {
            n = 1;
            while n < v.len() {
                n <<= 1;
            }
        }

        let mut res = vec![Complex::ZERO; n];
        self.fft_into(v, n, &mut res);
        res
    }

    pub fn fft_into(&mut self, v: &[i32], mut n: usize, res: &mut [Complex<F>]) {
        if n == 0 {
            n = 1;
            while n < v.len() {
                n <<= 1;
            }
        }
        debug_assert!(v.len() <= n);
        self.bufs[0].clear();
        self.bufs[0].resize(n, Complex::ZERO);
        for (i, &x) in v.iter().enumerate() {
            self.bufs[0][i].x = F::from_i32(x);
        }
        self.fft_internal::<0>(0, n, false);
        res.iter_mut().zip(self.bufs[0].iter()).for_each(|(x, &y)| *x += y);
    }

    pub fn fft_inv(&mut self, v: &[Complex<F>]) -> Vec<i64> {
        let mut res = vec![0; v.len()];
        self.fft_inv_into(v, &mut res);
        res
    }

    pub fn fft_inv_into(&mut self, v: &[Complex<F>], res: &mut [i64]) {
        debug_assert!(!v.is_empty());
        debug_assert!((v.len() & (v.len() - 1)) == 0);
        let n = v.len();
        if n == 1 {
            if !res.is_empty() {
                res[0] += v[0].x.round().to_i64();
            }
            return;
        }
        self.update_n(n);
        let buf = &mut self.bufs[0];
        buf.clear();
        buf.resize(v.len(), Complex::ZERO);
        for (i, &x) in v.iter().enumerate() {
            buf[i] = x;
        }
        let i2 = F::ONE / F::from_usize(2);
        let max_n = self.reversed.len();
        let step = max_n / n;
        let start = max_n - (max_n >> 2);
        for i in 0..(n >> 1) {
            let j = i + n / 2;
            buf[i] = (buf[i] + buf[j] - (buf[i] - buf[j]) * self.w[start - step * i]) * i2;
        }

        buf.truncate(n >> 1);
        self.fft_internal::<0>(0, n >> 1, true);
        res.iter_mut()
            .zip(
                self.bufs[0]
                    .iter()
                    .flat_map(|c| [c.x.round().to_i64(), c.y.round().to_i64()]),
            )
            .for_each(|(x, y)| *x += y);
    }

    pub fn multiply(&mut self, a: &[i32], b: &[i32]) -> Vec<i64> {
        if a.is_empty() || b.is_empty() {
            return vec![];
        }
        let mut res = vec![0; a.len() + b.len() - 1];
        self.multiply_into(a, b, &mut res);
        res
    }

    pub fn multiply_into(&mut self, a: &[i32], b: &[i32], res: &mut [i64]) {
        if a.is_empty() || b.is_empty() {
            return;
        }
        let mut n = 2;
        while n < a.len() + b.len() - 1 {
            n *= 2;
        }

        self.bufs[0].clear();
        self.bufs[0].resize(n, Complex::ZERO);

        for (i, &x) in a.iter().enumerate() {
            self.bufs[0][i].x = F::from_i32(x);
        }
        for (i, &x) in b.iter().enumerate() {
            self.bufs[0][i].y = F::from_i32(x);
        }

        self.fft_internal::<0>(0, n, false);
        let buf = &mut self.bufs[0];

        let i8 = Complex::I / F::from_usize(8);
        for i in 0..=(n >> 1) {
            // a --fft--> a1 + a2*i
            // b --fft--> b1 + b2*i
            // fact: FFT(a)[k] = FFT(a)[n - k].conj()
            // using this we can get formulas for FFT(a) and FFT(b) from FFT(a+bi)
            // (some calculations are moved from the next for-loop for the purpose of optimization)

            let j = (n - i) & (n - 1);
            let v = (buf[i] + buf[j].conj()) * (buf[j].conj() - buf[i]) * i8;

            buf[i] = v;
            buf[j] = v.conj();
        }

        // we know that Im(c)=0 and we know fft(c)
        // let c' be (c[0]+c[1]*i)*x^0 + (c[2]+c[3]*i)*x^1 + (c[4]+c[5]*i)*x^2
        // then c'(x^2) = (c(x) + c(-x)) / 2 + (c(x) - c(-x)) / 2x * i
        // and knowing values of c at some x-s (which is precisely fft(c)), we can calculate fft(c')

        let max_n = self.reversed.len();
        let step = max_n / n;
        let start = max_n - (max_n >> 2);
        for i in 0..(n >> 1) {
            let j = i + (n >> 1);
            buf[i] = buf[i] + buf[j] - (buf[i] - buf[j]) * self.w[start - step * i];
        }

        buf.truncate(n >> 1);
        self.fft_internal::<0>(0, n >> 1, true);

        Self::accumulate_rounded(&self.bufs[0], res, a.len() + b.len() - 1);
    }

    fn accumulate_rounded(packed: &[Complex<F>], res: &mut [i64], limit: usize) {
        let coefs = packed.iter().flat_map(|c| [c.x.round().to_i64(), c.y.round().to_i64()]);
        res.iter_mut().zip(coefs).take(limit).for_each(|(x, y)| *x += y);
    }
}

/// Try some x-s and check that a(x) * b(x) == c(x)
pub fn multiply_verify(a: &[i32], b: &[i32], c: &[i64]) -> bool {
    let calc_32_at = |v: &[i32], x: i64| -> i64 {
        let mut px = 1i64;
        let mut res = 0i64;
        for &k in v.iter() {
            res = res.wrapping_add((k as i64).wrapping_mul(px));
            px = px.wrapping_mul(x);
        }
        res
    };
    let calc_64_at = |v: &[i64], x: i64| -> i64 {
        let mut px = 1i64;
        let mut res = 0i64;
        for &k in v.iter() {
            res = res.wrapping_add(k.wrapping_mul(px));
            px = px.wrapping_mul(x);
        }
        res
    };

    for x in [0i64, 1i64, -1i64, 42i64, -42i64, (1i64 << 31) + 1, -(1i64 << 31) + 1] {
        if calc_32_at(a, x).wrapping_mul(calc_32_at(b, x)) != calc_64_at(c, x) {
            return false;
        }
    }
    true
}

impl<F: Float> Default for FFT<F> {
    fn default() -> Self {
        Self::new()
    }
}
