"""E4a — difference-bound entailment over terms.

Facts (branch conditions collected by absint) are translated to constraints  x - y <= c  over
*atoms* (non-arithmetic terms) and a zero node; the closure is Floyd–Warshall; a goal is entailed
iff its negation closes to a negative cycle.  Axioms instantiated on demand for the atoms present:

  * unsigned atoms are >= 0 (type table from absint)
  * m = (a + b) / 2  with  a <= b  gives  a <= m <= b,  and  a < b  gives  m < b
  * max(a, b) >= a, b;  min(a, b) <= a, b;  and the matching upper/lower bounds
  * len(..) >= 0

Disequalities tighten:  a <= b and a != b  gives  a <= b - 1.
Anything outside the fragment is ignored as a fact (sound: fewer facts) and 'unknown' as a goal.
Machine-integer wrap-around is NOT modelled here: checked arithmetic contributes its no-overflow
assertion as a fact on the paths where execution continues; unchecked release-profile arithmetic
is assumed not to overflow (stated in the evidence as an assumption).
"""
from fractions import Fraction

INF = float("inf")
ZERO = ("zero",)

UNSIGNED = {"u8", "u16", "u32", "u64", "u128", "usize"}


def linearize(t):
    """term -> (dict atom->coef, const) or None when not integer-linear"""
    k = t[0]
    if k == "int":
        return ({}, t[1])
    if k == "bin":
        op = t[1]
        if op in ("Add", "Sub"):
            a = linearize(t[2])
            b = linearize(t[3])
            if a is None or b is None:
                return ({t: 1}, 0)
            sgn = 1 if op == "Add" else -1
            d = dict(a[0])
            for x, c in b[0].items():
                d[x] = d.get(x, 0) + sgn * c
                if d[x] == 0:
                    del d[x]
            return (d, a[1] + sgn * b[1])
        if op == "Mul":
            a = linearize(t[2])
            b = linearize(t[3])
            if a is not None and b is not None:
                if not a[0]:
                    return ({x: c * a[1] for x, c in b[0].items() if c * a[1] != 0}, a[1] * b[1])
                if not b[0]:
                    return ({x: c * b[1] for x, c in a[0].items() if c * b[1] != 0}, a[1] * b[1])
            return ({t: 1}, 0)
        if op == "Shl" and t[3][0] == "int" and 0 <= t[3][1] < 64:
            a = linearize(t[2])
            if a is not None:
                f = 1 << t[3][1]
                return ({x: c * f for x, c in a[0].items()}, a[1] * f)
        return ({t: 1}, 0)
    if k == "cast" and t[1] == "IntToInt":
        # widening or same-width casts between unsigned types keep the value
        frm, to = t[4], t[2]
        if frm in UNSIGNED and to in UNSIGNED and _bits(to) >= _bits(frm):
            return linearize(t[3])
        return ({t: 1}, 0)
    return ({t: 1}, 0)


def _bits(ty):
    return {"u8": 8, "u16": 16, "u32": 32, "u64": 64, "u128": 128, "usize": 64, "i8": 8, "i16": 16, "i32": 32, "i64": 64, "i128": 128, "isize": 64}.get(ty, 0)


def lin_sub(a, b):
    d = dict(a[0])
    for x, c in b[0].items():
        d[x] = d.get(x, 0) - c
        if d[x] == 0:
            del d[x]
    return (d, a[1] - b[1])


class Zone:
    def __init__(self, tys=None):
        self.tys = tys or {}
        self.atoms = [ZERO]
        self.ix = {ZERO: 0}
        self.raw = []  # every linear fact  sum + c <= 0  as given (for syntactic entailment)
        self.cons = []  # (i, j, c): atom_i - atom_j <= c
        self.diseq = []  # (lin) != 0
        self.closed = None
        self.unsat = False
        self.ignored = 0

    def atom(self, a):
        i = self.ix.get(a)
        if i is None:
            i = len(self.atoms)
            self.atoms.append(a)
            self.ix[a] = i
            self.closed = None
        return i

    # lin <= 0
    def add_le0(self, lin):
        d, c = lin
        items = [(x, k) for x, k in d.items() if k != 0]
        self.raw.append((frozenset(items), c))
        if not items:
            if c > 0:
                self.unsat = True
            return True
        if len(items) == 1:
            x, k = items[0]
            if k > 0:
                # k*x + c <= 0  ->  x <= floor(-c/k)
                b = (-c) // k
                self.cons.append((self.atom(x), 0, b))
            else:
                # k*x + c <= 0, k<0 -> x >= ceil(c/(-k)) -> 0 - x <= -ceil
                kk = -k
                lo = -((-c) // kk)  # ceil(c/kk)
                self.cons.append((0, self.atom(x), -lo))
            self.closed = None
            return True
        if len(items) == 2:
            (x, kx), (y, ky) = items
            if kx == -ky and kx != 0:
                if kx < 0:
                    x, y, kx = y, x, -kx
                # kx*(x - y) + c <= 0 -> x - y <= floor(-c/kx)
                self.cons.append((self.atom(x), self.atom(y), (-c) // kx))
                self.closed = None
                return True
        self.ignored += 1
        return False

    def add_cmp(self, op, a, b, truth=True):
        """add the fact (a op b) == truth"""
        if not truth:
            op = {"Lt": "Ge", "Le": "Gt", "Gt": "Le", "Ge": "Lt", "Eq": "Ne", "Ne": "Eq"}[op]
        la, lb = linearize(a), linearize(b)
        if la is None or lb is None:
            return
        d = lin_sub(la, lb)  # a - b
        nd = lin_sub(lb, la)
        if op == "Le":
            self.add_le0(d)
        elif op == "Lt":
            self.add_le0((d[0], d[1] + 1))
        elif op == "Ge":
            self.add_le0(nd)
        elif op == "Gt":
            self.add_le0((nd[0], nd[1] + 1))
        elif op == "Eq":
            self.add_le0(d)
            self.add_le0(nd)
        elif op == "Ne":
            self.diseq.append(d)
            self.closed = None

    def add_fact(self, f):
        kind, t, v = f
        if not isinstance(t, tuple):
            return
        if t[0] == "bin" and t[1] in ("Lt", "Le", "Gt", "Ge", "Eq", "Ne"):
            if kind == "eq" and v in (0, 1):
                self.add_cmp(t[1], t[2], t[3], truth=bool(v))
            elif kind == "ne" and v in (0, 1):
                self.add_cmp(t[1], t[2], t[3], truth=not bool(v))
            return
        if t[0] == "un" and t[1] == "Not":
            self.add_fact(("eq" if kind == "eq" else "ne", t[2], 1 - v if v in (0, 1) else v))
            return
        if t[0] == "discr" and isinstance(t[1], tuple) and t[1][0] == "rnext":
            e, lo, hi = t[1][1], t[1][2], t[1][3]
            some = (kind == "eq" and v == 1) or (kind == "ne" and v == 0)
            none = (kind == "eq" and v == 0) or (kind == "ne" and v == 1)
            if some:
                self.add_cmp("Le", lo, e)
                self.add_cmp("Lt", e, hi)
            return
        if t[0] == "ovf":
            # overflow flag false: the mathematical result fits; nothing to add in this fragment
            return
        # integer-valued term compared with a constant by a switch
        if kind == "eq":
            self.add_cmp("Eq", t, ("int", v))
        else:
            self.add_cmp("Ne", t, ("int", v))

    def add_facts(self, facts):
        facts = list(facts)
        plain = [f for f in facts if f[0] in ("eq", "ne")]
        for f in plain:
            self.add_fact(f)
        # implications  ('imp', trigger, consequence): fire when the trigger is a known fact
        have = set(plain)
        changed = True
        imps = [f for f in facts if f[0] == "imp"]
        while changed:
            changed = False
            for f in list(imps):
                if f[1] in have or self._fact_entailed(f[1]):
                    imps.remove(f)
                    cons = f[2] if isinstance(f[2], list) else [f[2]]
                    for c in cons:
                        if c[0] == "imp":
                            imps.append(c)
                        else:
                            self.add_fact(c)
                            have.add(c)
                    changed = True

    def _fact_entailed(self, f):
        """cheap check whether a comparison fact already follows from the closure"""
        kind, t, v = f
        if isinstance(t, tuple) and t and t[0] == "bin" and t[1] in ("Lt", "Le", "Gt", "Ge", "Eq", "Ne") and v in (0, 1):
            truth = (kind == "eq") == bool(v)
            op = t[1] if truth else {"Lt": "Ge", "Le": "Gt", "Gt": "Le", "Ge": "Lt", "Eq": "Ne", "Ne": "Eq"}[t[1]]
            try:
                return self.entails(op, t[2], t[3])
            except Exception:
                return False
        return False

    # ---- closure -------------------------------------------------------------------------------
    def _axioms(self):
        """instantiate axioms for present atoms (may add atoms)"""
        added = False
        for a in list(self.atoms):
            if a is ZERO or not isinstance(a, tuple):
                continue
            key = ("ax", a)
            if key in self._ax_done:
                continue
            self._ax_done.add(key)
            ty = self.tys.get(a)
            if ty in UNSIGNED or a[0] in ("len",):
                self.cons.append((0, self.atom(a), 0))
                added = True
            if a[0] == "max":
                for x in (a[1], a[2]):
                    self.add_cmp("Ge", a, x)
                added = True
            if a[0] == "min":
                for x in (a[1], a[2]):
                    self.add_cmp("Le", a, x)
                added = True
        return added

    def _relational_axioms(self, dist):
        """axioms that depend on already derived bounds; returns True when something was added"""
        added = False
        n = len(self.atoms)

        def le(x, y, c=0):
            # is x - y <= c entailed?
            lx, ly = linearize(x), linearize(y)
            d = lin_sub(lx, ly)
            return self._entailed_le0((d[0], d[1] - c), dist)

        for a in list(self.atoms):
            if a is ZERO or not isinstance(a, tuple):
                continue
            if a[0] == "bin" and a[1] == "Div" and a[3] == ("int", 2) and a[2][0] == "bin" and a[2][1] == "Add":
                lo, hi = a[2][2], a[2][3]
                for (p, q) in ((lo, hi), (hi, lo)):
                    key = ("mid", a, p, q)
                    if key not in self._ax_done and le(p, q):
                        self._ax_done.add(key)
                        self.add_cmp("Le", p, a)
                        self.add_cmp("Le", a, q)
                        added = True
                    key2 = ("mid<", a, p, q)
                    if key2 not in self._ax_done and le(p, q, -1):
                        self._ax_done.add(key2)
                        self.add_cmp("Lt", a, q)
                        added = True
            if a[0] in ("max", "min"):
                # max(x, y) == y and min(x, y) == x once x <= y is derivable
                for (x, y) in ((a[1], a[2]), (a[2], a[1])):
                    key = ("mmeq", a, x)
                    if key not in self._ax_done and le(x, y):
                        self._ax_done.add(key)
                        self.add_cmp("Eq", a, y if a[0] == "max" else x)
                        added = True
            if a[0] == "max":
                # max(x,y) <= z when both are
                for z in list(self.atoms):
                    if z is a:
                        continue
                    key = ("maxub", a, z)
                    if key in self._ax_done:
                        continue
                    if z is ZERO:
                        continue
                    if le(a[1], z) and le(a[2], z):
                        self._ax_done.add(key)
                        self.add_cmp("Le", a, z)
                        added = True
            if a[0] == "min":
                for z in list(self.atoms):
                    if z is a or z is ZERO:
                        continue
                    key = ("minlb", a, z)
                    if key in self._ax_done:
                        continue
                    if le(z, a[1]) and le(z, a[2]):
                        self._ax_done.add(key)
                        self.add_cmp("Ge", a, z)
                        added = True
        return added

    def _fw(self):
        n = len(self.atoms)
        d = [[INF] * n for _ in range(n)]
        for i in range(n):
            d[i][i] = 0
        for (i, j, c) in self.cons:
            if c < d[i][j]:
                d[i][j] = c
        for k in range(n):
            dk = d[k]
            for i in range(n):
                dik = d[i][k]
                if dik == INF:
                    continue
                di = d[i]
                for j in range(n):
                    v = dik + dk[j]
                    if v < di[j]:
                        di[j] = v
        return d

    def close(self):
        if self.closed is not None:
            return self.closed
        self._ax_done = getattr(self, "_ax_done", set())
        for _ in range(8):
            self._axioms()
            d = self._fw()
            if any(d[i][i] < 0 for i in range(len(self.atoms))):
                self.unsat = True
                self.closed = d
                return d
            changed = False
            # disequality tightening: x - y <= 0 and x - y != 0 -> x - y <= -1 (both directions)
            for lin in self.diseq:
                items = [(x, k) for x, k in lin[0].items() if k != 0]
                c = lin[1]
                if len(items) == 1 and abs(items[0][1]) == 1:
                    x, k = items[0]
                    i, j = (self.atom(x), 0) if k == 1 else (0, self.atom(x))
                    cc = -c if k == 1 else c
                    # i - j != cc
                    if len(d) <= max(i, j):
                        changed = True
                        continue
                    if d[i][j] == cc:
                        self.cons.append((i, j, cc - 1))
                        changed = True
                    if d[j][i] == -cc:
                        self.cons.append((j, i, -cc - 1))
                        changed = True
                elif len(items) == 2 and items[0][1] == -items[1][1] and abs(items[0][1]) == 1:
                    (x, kx), (y, ky) = items
                    if kx < 0:
                        x, y = y, x
                        c = -c if False else c
                        # lin = -x' + y' + c  with x'=orig x ... recompute: lin = y - x + c != 0
                        i, j = self.atom(x), self.atom(y)
                        cc = -c
                    else:
                        i, j = self.atom(x), self.atom(y)
                        cc = -c
                    if len(d) <= max(i, j):
                        changed = True
                        continue
                    if d[i][j] == cc:
                        self.cons.append((i, j, cc - 1))
                        changed = True
                    if d[j][i] == -cc:
                        self.cons.append((j, i, -cc - 1))
                        changed = True
            if self._relational_axioms(d):
                changed = True
            if not changed and len(d) == len(self.atoms):
                self.closed = d
                return d
        self.closed = self._fw()
        if any(self.closed[i][i] < 0 for i in range(len(self.atoms))):
            self.unsat = True
        return self.closed

    def _entailed_le0(self, lin, dist):
        d, c = lin
        items = [(x, k) for x, k in d.items() if k != 0]
        key = frozenset(items)
        for (k2, c2) in self.raw:
            if k2 == key and c <= c2:
                return True  # the same linear form with a weaker constant is a given fact
        if len(items) > 2:
            # pair atoms with opposite coefficients and replace the pair by its derived upper bound
            items = list(items)
            progress = True
            while progress and len(items) > 2:
                progress = False
                for i in range(len(items)):
                    for j in range(len(items)):
                        if i == j:
                            continue
                        (x, kx), (y, ky) = items[i], items[j]
                        if kx > 0 and ky < 0 and x in self.ix and y in self.ix and self.ix[x] < len(dist) and self.ix[y] < len(dist):
                            ub = dist[self.ix[x]][self.ix[y]]
                            if ub == INF:
                                continue
                            k = min(kx, -ky)
                            c += k * ub
                            rest = [it for n, it in enumerate(items) if n not in (i, j)]
                            if kx - k:
                                rest.append((x, kx - k))
                            if ky + k:
                                rest.append((y, ky + k))
                            items = rest
                            progress = True
                            break
                    if progress:
                        break
            d = dict(items)
        if not items:
            return c <= 0
        for x, _ in items:
            if x not in self.ix or self.ix[x] >= len(dist):
                return False
        if len(items) == 1:
            x, k = items[0]
            i = self.ix[x]
            if k > 0:
                ub = dist[i][0]
                return ub != INF and k * ub + c <= 0
            lb = -dist[0][i]
            return lb != -INF and k * lb + c <= 0
        if len(items) == 2:
            (x, kx), (y, ky) = items
            if kx == -ky:
                if kx < 0:
                    x, y, kx = y, x, -kx
                ub = dist[self.ix[x]][self.ix[y]]
                return ub != INF and kx * ub + c <= 0
            # fall back to interval bounds of each atom
        tot = c
        for x, k in items:
            i = self.ix[x]
            if k > 0:
                ub = dist[i][0]
                if ub == INF:
                    return False
                tot += k * ub
            else:
                lb = -dist[0][i]
                if lb == -INF:
                    return False
                tot += k * lb
        return tot <= 0

    # ---- queries -------------------------------------------------------------------------------
    def entails(self, op, a, b):
        """does the fact set entail (a op b)?  True / False (= not derivable)"""
        la, lb = linearize(a), linearize(b)
        for lin in (la, lb):
            for x in lin[0]:
                self.atom(x)
        dist = self.close()
        if self.unsat:
            return True
        d = lin_sub(la, lb)
        nd = lin_sub(lb, la)
        if op == "Le":
            return self._entailed_le0(d, dist)
        if op == "Lt":
            return self._entailed_le0((d[0], d[1] + 1), dist)
        if op == "Ge":
            return self._entailed_le0(nd, dist)
        if op == "Gt":
            return self._entailed_le0((nd[0], nd[1] + 1), dist)
        if op == "Eq":
            return self._entailed_le0(d, dist) and self._entailed_le0(nd, dist)
        if op == "Ne":
            return self._entailed_le0((d[0], d[1] + 1), dist) or self._entailed_le0((nd[0], nd[1] + 1), dist) or any(
                _same_lin(d, q) or _same_lin(nd, q) for q in self.diseq
            )
        raise ValueError(op)

    def bounds(self, a):
        la = linearize(a)
        for x in la[0]:
            self.atom(x)
        dist = self.close()
        items = list(la[0].items())
        if not items:
            return (la[1], la[1])
        if len(items) == 1 and items[0][1] == 1:
            i = self.ix[items[0][0]]
            lo = -dist[0][i]
            hi = dist[i][0]
            return (lo + la[1] if lo != -INF else -INF, hi + la[1] if hi != INF else INF)
        return (-INF, INF)


def _same_lin(a, b):
    return a[0] == b[0] and a[1] == b[1]


def zone_of(facts, tys=None):
    z = Zone(tys)
    z.add_facts(facts)
    return z


def entails(facts, op, a, b, tys=None):
    return zone_of(facts, tys).entails(op, a, b)
