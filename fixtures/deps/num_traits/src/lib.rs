use std::cmp::*;
use std::fmt::{Debug, Display};
use std::ops::*;

pub trait ZeroOne {
    const ZERO: Self;
    const ONE: Self;
}

pub trait MinMax {
    const MIN: Self;
    const MAX: Self;
}

pub trait Integer:
    for<'a> Add<&'a Self, Output = Self>
    + for<'a> AddAssign<&'a Self>
    + for<'a> Sub<&'a Self, Output = Self>
    + for<'a> SubAssign<&'a Self>
    + for<'a> Div<&'a Self, Output = Self>
    + for<'a> DivAssign<&'a Self>
    + for<'a> Rem<&'a Self, Output = Self>
    + for<'a> RemAssign<&'a Self>
    + for<'a> Mul<&'a Self, Output = Self>
    + for<'a> MulAssign<&'a Self>
    + ZeroOne
    + MinMax
    + PartialEq
    + Eq
    + PartialOrd
    + Ord
    + Clone
    + Sized
    + Default
    + Display
    + Debug
{
    fn abs(&self) -> Self;
    fn into_abs(self) -> Self;
}

pub trait FixedSizeInteger:
    Integer
    + Add<Self, Output = Self>
    + AddAssign<Self>
    + Sub<Self, Output = Self>
    + SubAssign<Self>
    + Div<Self, Output = Self>
    + DivAssign<Self>
    + Rem<Self, Output = Self>
    + RemAssign<Self>
    + Mul<Self, Output = Self>
    + MulAssign<Self>
    + Copy
{
    type Unsigned: Integer;
    type Signed: Integer;

    const BASE_10_LEN: usize;

    fn unsigned_abs(self) -> Self::Unsigned;
}

pub trait Float:
    Add<Output = Self>
    + AddAssign
    + Sub<Output = Self>
    + SubAssign
    + Div<Output = Self>
    + DivAssign
    + Mul<Output = Self>
    + MulAssign
    + Neg<Output = Self>
    + ZeroOne
    + PartialEq
    + PartialOrd
    + Clone
    + Copy
    + Default
    + Sized
    + Display
    + Debug
{
    const PI: Self;

    fn sin(&self) -> Self;
    fn cos(&self) -> Self;
    fn sqrt(&self) -> Self;
    fn abs(&self) -> Self;
    fn round(&self) -> Self;

    fn from_usize(x: usize) -> Self;
    fn from_i32(x: i32) -> Self;
    fn to_i64(&self) -> i64;
}

macro_rules! integer_common {
    ($it:ty, $ut:ty, $len:expr) => {
        type Unsigned = $ut;
        type Signed = $it;

        const BASE_10_LEN: usize = $len;
    };
}

macro_rules! base_10_len {
    ($ut:ty) => {{
        let mut value = <$ut>::MAX;
        let mut ans: usize = 0;
        while value != 0 {
            value /= 10;
            ans += 1;
        }
        ans
    }};
}

macro_rules! fixed_size_integer {
    ($it:ty, $ut:ty, $len:expr) => {
        impl Integer for $it {
            fn abs(&self) -> Self {
                <$it>::abs(*self)
            }
            fn into_abs(self) -> Self {
                <$it>::abs(self)
            }
        }

        impl FixedSizeInteger for $it {
            integer_common!($it, $ut, $len);

            fn unsigned_abs(self) -> Self::Unsigned {
                Self::unsigned_abs(self)
            }
        }

        impl Integer for $ut {
            fn abs(&self) -> Self {
                *self
            }
            fn into_abs(self) -> Self {
                self
            }
        }

        impl FixedSizeInteger for $ut {
            integer_common!($it, $ut, $len);

            fn unsigned_abs(self) -> Self::Unsigned {
                self
            }
        }
    };

    ($it:ty, $ut:ty) => {
        fixed_size_integer!($it, $ut, base_10_len!($ut));
    };
}

macro_rules! impl_zomm {
    ($($t:ty),*) => {
        $(
            impl ZeroOne for $t {
                const ZERO: $t = 0 as $t;
                const ONE: $t = 1 as $t;
            }

            impl MinMax for $t {
                const MIN: $t = <$t>::MIN;
                const MAX: $t = <$t>::MAX;
            }
        )*
    };
}

fixed_size_integer!(i8, u8);
fixed_size_integer!(i16, u16);
fixed_size_integer!(i32, u32);
fixed_size_integer!(i64, u64);
fixed_size_integer!(i128, u128);
fixed_size_integer!(isize, usize);

impl_zomm!(i8, u8, i16, u16, i32, u32, i64, u64, i128, u128, isize, usize);
impl_zomm!(f32, f64);

macro_rules! impl_float {
    ($t:ty, $pi:expr) => {
        impl Float for $t {
            const PI: Self = $pi;

            fn sin(&self) -> Self {
                <$t>::sin(*self)
            }
            fn cos(&self) -> Self {
                <$t>::cos(*self)
            }
            fn sqrt(&self) -> Self {
                <$t>::sqrt(*self)
            }
            fn abs(&self) -> Self {
                <$t>::abs(*self)
            }
            fn round(&self) -> Self {
                <$t>::round(*self)
            }

            fn from_usize(x: usize) -> Self {
                x as $t
            }
            fn from_i32(x: i32) -> Self {
                x as $t
            }
            fn to_i64(&self) -> i64 {
                self.round() as i64
            }
        }
    };
}

impl_float!(f32, std::f32::consts::PI);
impl_float!(f64, std::f64::consts::PI);
