pub mod circle;
pub mod line;
pub mod point;
pub mod util;
