use std::{
    cmp::*,
    ops::{Add, AddAssign, Div, DivAssign, Mul, MulAssign, Neg, Sub, SubAssign},
};

use rlib_gcd::*;
use rlib_num_traits::*;
use rlib_show::{Show, ShowSettings};

pub trait SignedInteger: Integer + Neg<Output = Self> {}
impl<T: Integer + Neg<Output = Self>> SignedInteger for T {}

#[derive(Clone, Copy, Hash, Eq)]
pub struct Rational<T> {
    pub a: T,
    pub b: T,
}

impl<T: PartialEq> PartialEq for Rational<T> {
    fn eq(&self, o: &Self) -> bool {
        self.a == o.a
    }
}

impl<T: SignedInteger> Rational<T> {
    pub fn new(a: T, b: T) -> Self {
        let mut r = Self { a, b };
        r.norm();
        r
    }

    pub fn new_int(a: T) -> Self {
        Self { a, b: T::ONE }
    }

    pub fn floor(&self) -> Self {
        if self.a >= T::ZERO {
            Self {
                a: self.a.clone() / &self.b,
                b: T::ONE,
            }
        } else {
            Self {
                a: (self.a.clone() - &self.b + &T::ONE) / &self.b,
                b: T::ONE,
            }
        }
    }

    pub fn ceil(&self) -> Self {
        if self.a >= T::ZERO {
            Self {
                a: (self.a.clone() + &self.b - &T::ONE) / &self.b,
                b: T::ONE,
            }
        } else {
            Self {
                a: self.a.clone() / &self.b,
                b: T::ONE,
            }
        }
    }

    fn norm(&mut self) {
        let g = gcd(self.a.clone(), self.b.clone());
        self.a /= &g;
        self.b /= &g;
        if self.b < T::ZERO {
            // surely there is a better way
            let mut x = T::ZERO;
            std::mem::swap(&mut x, &mut self.b);
            self.b = -x;
            let mut x = T::ZERO;
            std::mem::swap(&mut x, &mut self.a);
            self.a = -x;
        }
    }
}

impl<T: ZeroOne> ZeroOne for Rational<T> {
    const ZERO: Self = Self { a: T::ZERO, b: T::ONE };
    const ONE: Self = Self { a: T::ONE, b: T::ONE };
}

impl<T: SignedInteger> Add<&Self> for Rational<T> {
    type Output = Self;
    fn add(self, rhs: &Self) -> Self {
        Self::new(self.a * &rhs.b + &(self.b.clone() * &rhs.a), self.b * &rhs.b)
    }
}
impl<T: SignedInteger> AddAssign<&Self> for Rational<T> {
    fn add_assign(&mut self, rhs: &Self) {
        *self = self.clone() + rhs;
    }
}

impl<T: SignedInteger> Sub<&Self> for Rational<T> {
    type Output = Self;
    fn sub(self, rhs: &Self) -> Self {
        Self::new(self.a * &rhs.b - &(self.b.clone() * &rhs.a), self.b * &rhs.b)
    }
}
impl<T: SignedInteger> SubAssign<&Self> for Rational<T> {
    fn sub_assign(&mut self, rhs: &Self) {
        *self = self.clone() - rhs;
    }
}

impl<T: SignedInteger> Mul<&Self> for Rational<T> {
    type Output = Self;
    fn mul(self, rhs: &Self) -> Self {
        Self::new(self.a * &rhs.a, self.b * &rhs.b)
    }
}
impl<T: SignedInteger> MulAssign<&Self> for Rational<T> {
    fn mul_assign(&mut self, rhs: &Self) {
        *self = self.clone() * rhs;
    }
}

impl<T: SignedInteger> Div<&Self> for Rational<T> {
    type Output = Self;
    fn div(self, rhs: &Self) -> Self {
        Self::new(self.a * &rhs.b, self.b * &rhs.a)
    }
}
impl<T: SignedInteger> DivAssign<&Self> for Rational<T> {
    fn div_assign(&mut self, rhs: &Self) {
        *self = self.clone() / rhs;
    }
}

impl<T: SignedInteger> Neg for Rational<T> {
    type Output = Self;
    fn neg(self) -> Self {
        Self { a: -self.a, b: self.b }
    }
}

macro_rules! impl_copy_op {
    ($op:ty, $func:tt) => {
        impl<T: SignedInteger + Copy> $op for Rational<T> {
            type Output = Self;
            fn $func(self, rhs: Self) -> Self {
                (&self).$func(&rhs)
            }
        }
    };
}

impl_copy_op!(Add, add);
impl_copy_op!(Sub, sub);
impl_copy_op!(Mul, mul);
impl_copy_op!(Div, div);

macro_rules! impl_copy_assign_op {
    ($op:ty, $func:tt) => {
        impl<T: SignedInteger + Copy> $op for Rational<T> {
            fn $func(&mut self, rhs: Self) {
                self.$func(&rhs);
            }
        }
    };
}

impl_copy_assign_op!(AddAssign, add_assign);
impl_copy_assign_op!(SubAssign, sub_assign);
impl_copy_assign_op!(MulAssign, mul_assign);
impl_copy_assign_op!(DivAssign, div_assign);

impl<T: SignedInteger + std::fmt::Display> std::fmt::Display for Rational<T> {
    fn fmt(&self, f: &mut std::fmt::Formatter) -> std::fmt::Result {
        write!(f, "{}/{}", self.a, self.b)
    }
}
impl<T: SignedInteger + std::fmt::Debug> std::fmt::Debug for Rational<T> {
    fn fmt(&self, f: &mut std::fmt::Formatter) -> std::fmt::Result {
        write!(f, "{:?}/{:?}", self.a, self.b)
    }
}

impl<T: SignedInteger> Ord for Rational<T> {
    fn cmp(&self, rhs: &Self) -> Ordering {
        (self.clone() - rhs).a.cmp(&T::ZERO)
    }
}

impl<T: SignedInteger> PartialOrd for Rational<T> {
    fn partial_cmp(&self, rhs: &Self) -> Option<Ordering> {
        Some(self.cmp(rhs))
    }
}

impl<T: Show> Show for Rational<T> {
    fn show(&self, settings: &ShowSettings) -> String {
        format!("{}/{}", self.a.show(settings), self.b.show(settings))
    }
}
