"""C06 — Modular<M>: representation invariant, overflow-freedom, value-preserving casts and
congruence of new/+/-/neg/* for ALL moduli 2 <= M < 2^31 and ALL operands (proof of these clauses
by parametric interval x congruence abstract interpretation).  DESIGN.md §4 C06."""
from .. import util, zones
from ..absint import tstr, mk_int, subterms
from ..core import Anchor
from ..numeric import B, Dom, NumEval
from ..polyid import Poly

PID = "C06"
LEVEL = "proof"
CRATES = ["rlib_mint"]
RELEASE = True
NO_HIDDEN_STATE = ['rlib_mint']   # driver rule STATE: these crates are plain data structures / functions
DEPENDS = ["C08", "C09"]   # the property's read/write clauses run through these packs' code (rules reported as <PID>.<rule>)
ARMED = True
ENGINES = ["E3", "E4b"]
TECHNIQUE = "abstract interpretation of the MIR of Modular's constructors and operators in a parametric-interval x congruence-mod-M domain (bounds are polynomials in M decided exactly over M in [2, 2^31-1]); obligations: representation invariant at every construction site, every compiler-inserted overflow/div-by-zero assertion, every narrowing cast, congruence with the integer specification; resolved-callee family rules for the derived operators and IO"
LEVEL_TEXT = (
    "Proof, for every modulus 2 <= M < 2^31 and every operand, of these clauses of the property: the stored representative lies in "
    "[0, M) at every construction site (ZERO, ONE, new, add, sub, neg; re-establishing the invariant assumed for incoming values); no "
    "arithmetic in new/add/sub/neg/mul can overflow or divide by zero and every integer cast is value-preserving; the result of new, +, "
    "-, unary -, * is congruent to the true integer result, hence IS its canonical representative; the assigning forms, /, pow, IO and "
    "formatting are wired to these. NOT proved: functional correctness of inv (Bezout) and pow (needs a multiplicative loop invariant) "
    "beyond their representation invariant, and (x/y)*y = x."
)
LEVEL_NOTE = "trusted base: rustc MIR construction (incl. the inserted overflow assertions), the exporter, the interval/congruence evaluator (numeric.py) and its exact polynomial comparison over the range of M; property domain M in [2, 2^31)"
TRUSTED = ["rustc MIR construction and its overflow/zero-division assertions", "tools/mirdump", "rlint/numeric.py (parametric interval x congruence evaluator)", "semantics of Rust's truncating % on i64"]
EXPLANATION = (
    "M1: for each final state (path) of ZERO, ONE, new, add, sub, neg, mul the evaluator computes, from the assumptions v_in in "
    "[0, M-1] for incoming Modular values and the type range for the i64 argument, refined by the path's branch facts: (i) the "
    "interval of the stored field, required within [0, M-1]; (ii) for every overflow fact on the path the mathematical result's "
    "interval, required within the operand type; (iii) for every IntToInt cast its operand interval, required within the target "
    "type; (iv) for every division/remainder assertion that the divisor interval excludes 0 and -1; (v) the congruence class of the "
    "stored value, required equal to the specification (v, a+b, a-b, -a, a*b) modulo M. M2: OpAssign resolves to Op on (*self, rhs) "
    "and stores the result; Div = Mul with rhs.inv(); inv returns through new; pow combines only with MulAssign from ONE; read = "
    "new(reader.read::<i64>()); write/Display/Debug print exactly v; PartialEq/Eq derived on v. M3 (Bezout invariant of inv): the "
    "rule finds the pairing of the loop's remainder and coefficient variables for which r - c*self is a multiple of M on entry, checks "
    "as a polynomial identity (quotient free) that one round keeps both residuals multiples of M, that the remainders follow Euclid's "
    "step until the divisor is 0, and that new() receives the coefficient of the surviving remainder: result * self == gcd-candidate "
    "(mod M). NOT decided: that the surviving remainder is gcd(self, M) (number theory), pow as a value statement, (x/y)*y = x."
)
UNDECIDED = ["that Euclid's remainder sequence ends in gcd(self, M) (number theory; M3 proves result * self == surviving remainder (mod M), which is the inverse exactly when that gcd is 1)", "pow() equals the modular power as a value statement (its square-and-multiply scheme IS checked, M2)", "(x / y) * y = x for y coprime to M (follows from M3 and Div = Mul by inv, not re-proved)"]
ASSUMPTIONS = ["2 <= M < 2^31 (the property's domain)", "incoming Modular values satisfy the representation invariant (re-established inductively at every construction site)"]
FIXTURES = [
    ("c06_bad_new_gt", "bad", ["M1"]),
    ("c06_bad_sub_no_plus_m", "bad", ["M1"]),
    ("c06_bad_neg_zero", "bad", ["M1"]),
    ("c06_bad_new_u32_cast", "bad", ["M1"]),
    ("c06_bad_mulassign_adds", "bad", ["M1"]),
    ("c06_bad_display_i32", "bad", ["M2"]),
    ("c06_good_wide_add", "good", []),
    ("c06_bad_inv_coeff_sign", "bad", ["M3"]),
    ("c06_bad_inv_returns_other", "bad", ["M3"]),
]

M = ("gparam", "M")
DOM = Dom(2, (1 << 31) - 1)


def _modular_params(I, body):
    out = {}
    for i in range(1, body.arg_count + 1):
        ty = body.locals[i]["ty"]
        if ty.startswith("Modular<") or ty.startswith("mint::Modular<") or ty.endswith(">") and "Modular<" in ty:
            out[i] = ("proj", 0, ("param", i, I.names.get(i)))
    return out


def _summaries(crate):
    def md(ev, t):
        return ((B(0, 1), B(0, 1)), Poly.const(0))

    def new(ev, t):
        arg = t[2][0]
        lo, hi = ev.interval(arg)
        r = ev._type_range("i64")
        fits = lo is not None and ev.dom.le(r[0], lo) and ev.dom.le(hi, r[1])
        ev.obligations.append(("argument of Modular::new fits i64: [%s, %s]" % (lo, hi), fits, t))
        return ((B(0), B(-1, 1)), ev.cong(arg))

    # keyed by the functions' own printed paths (the const parameter may be called anything)
    return {util.need_body(crate, "Modular::<M>::md").path: md, util.need_body(crate, "Modular::<M>::new").path: new}


SPECS = {
    "new": lambda v, a, b: v,
    "add": lambda v, a, b: a + b,
    "sub": lambda v, a, b: a - b,
    "mul": lambda v, a, b: a * b,
    "neg": lambda v, a, b: -a,
    "ZERO": lambda v, a, b: Poly.const(0),
    "ONE": lambda v, a, b: Poly.const(1),
}


def _is_new_path(p):
    """the printed path of Modular::new, whatever the const parameter is called"""
    import re as _re
    return bool(_re.search(r"Modular::<\w+>::new$", str(p)))


def _bind_modulus(crate):
    """the const parameter of Modular under whatever name the crate gives it (`M`, `MOD`, ..)"""
    global M
    gn = util.generic_names(crate, "Modular")
    M = ("gparam", gn[0] if len(gn) == 1 else "M")


def check(col, prog, tier, profile, fixture=None):
    crate = prog.crate(fixture or "rlib_mint")
    sfx = "" if profile == "dev" else "@" + profile
    fk = util.fkey
    adt = util.need_adt(crate, "Modular")
    _bind_modulus(crate)
    col.rule("M1" + sfx, "representation invariant, overflow-freedom, value-preserving casts, congruence — for all M and operands", floor=20 if profile == "dev" else 12)
    col.rule("M2" + sfx, "operator families, Div = Mul by inv, pow = binary exponentiation over the argument via MulAssign, IO and formatting go through v / new", floor=11)

    targets = {}
    modes = {}
    for nm in ("new", "ZERO", "ONE"):
        targets[nm] = util.need_body(crate, "Modular::<M>::%s" % nm)
        modes[nm] = "value"
    assign_of = {}
    op_bodies = [b_ for b_ in crate.bodies if not b_.is_closure and (crate.impl_of(b_) or {}).get("of_trait")]
    pre_A = util.analyser(util.private_helpers(crate, "Modular", exclude=op_bodies), features=("fncall",))

    def calls_sem(x, y):
        """x calls y: directly, or through a private helper that is handed the operator by name (`self.update(rhs, Add::add)`)"""
        if any(util.callee_key(t) == y.key for bb, t in x.calls()):
            return True
        try:
            Ix = pre_A(x)
        except Exception:
            return False
        return any(e.kind == "call" and not e.extra.get("inlined") and (e.fn.get("resolved") or e.fn).get("def") == y.key for st_ in Ix.final_states for e in st_.event_list())

    for tr, nm in (("Add", "add"), ("Sub", "sub"), ("Mul", "mul")):
        vb = util.need_body(crate, "<Modular<M> as std::ops::%s>::%s" % (tr, nm))
        ab = util.need_body(crate, "<Modular<M> as std::ops::%sAssign>::%s_assign" % (tr, nm))
        assign_of[nm] = ab
        # the arithmetic lives in the binary operator (and `x op= y` is `*x = *x op y`), or in the assigning
        # operator (and `x op y` is `{ x op= y; x }`): prove whichever does not simply call the other
        v_calls_a = calls_sem(vb, ab)
        a_calls_v = calls_sem(ab, vb)
        if v_calls_a and not a_calls_v:
            targets[nm], modes[nm] = ab, "assign"
        else:
            targets[nm], modes[nm] = vb, "value"
            if not a_calls_v:
                # both forms carry their own arithmetic: both are proved against the same specification
                targets[nm + "_assign"], modes[nm + "_assign"] = ab, "assign"
    targets["neg"] = util.need_body(crate, "<Modular<M> as std::ops::Neg>::neg")
    modes["neg"] = "value"
    helpers = util.private_helpers(crate, "Modular", exclude=list(targets.values()))
    A = util.analyser(helpers, features=("fncall",))
    mdb = util.need_body(crate, "Modular::<M>::md")
    Imd = util.analyse(mdb)
    if not all(util.ret_term(st) == M for st in Imd.final_states):
        col.violation("M1" + sfx, "%s|returns-M" % fk(mdb), mdb.loc(), "Modular::md() does not return the const parameter M")
    else:
        col.ok("M1" + sfx, mdb.loc(), "%s|returns-M" % fk(mdb), "md() == M")
        col.obligation(True)
    summ = _summaries(crate)

    for nm, b in targets.items():
        I = A(b)
        mp = _modular_params(I, b)
        selfp = ("deref", ("param", 1, I.names.get(1)))
        if modes[nm] == "assign":
            # (&mut self, rhs): a = the representative stored in *self on entry
            mp = dict(mp)
            mp[1] = ("load", ("m0",), ("field", selfp, 0))
        base = {t: (B(0), B(-1, 1)) for t in mp.values()}
        for t in mp.values():
            I.tys[t] = "u32"
        vsym = ("param", 1, I.names.get(1)) if nm == "new" else None
        av = Poly.var(("a",))
        bv = Poly.var(("b",))
        vv = Poly.var(("v",))
        cong_base = {}
        ps = sorted(mp)
        if ps:
            cong_base[mp[ps[0]]] = av
        if len(ps) > 1:
            cong_base[mp[ps[1]]] = bv
        if vsym:
            cong_base[vsym] = vv
            I.tys[vsym] = "i64"
        spec = SPECS[nm.replace("_assign", "")](vv, av, bv)
        if not I.final_states:
            col.violation("M1" + sfx, "%s|no-return" % fk(b), b.loc(), "%s has no returning path" % b.path)
        for n, st in enumerate(I.final_states):
            cb = dict(cong_base)
            spec_p = spec
            # facts  x == 0  give x = 0 on this path (in the value and in the specification)
            for f in st.facts:
                t = f[1]
                if f[0] == "eq" and f[2] == 0 and t in cb and not isinstance(f[2], bool):
                    t = ("bin", "Eq", t, mk_int(0))
                    f = ("eq", t, 1)
                if f[0] == "eq" and f[2] == 0 and isinstance(t, tuple) and t[0] == "bin" and t[1] == "Ne" and t[3] == mk_int(0) and t[2] in cb:
                    t = ("bin", "Eq", t[2], mk_int(0))
                    f = ("eq", t, 1)
                if f[0] == "eq" and f[2] == 1 and isinstance(t, tuple) and t[0] == "bin" and t[1] == "Eq" and t[3] == mk_int(0) and t[2] in cb:
                    v0 = cb[t[2]].single_var()
                    if v0 is not None:
                        spec_p = spec_p.subst(v0, Poly.const(0))
                    cb[t[2]] = Poly.const(0)
            ev = NumEval(I, DOM, M, base, facts=st.facts, cong_base=cb, summaries=summ)
            ret = util.ret_term(st)
            pathkey = "%s|path%d" % (fk(b), n)
            # ---- (i) representation invariant + (v) congruence
            if modes[nm] == "assign":
                sts = [e for e in st.event_list() if e.kind == "store" and (e.place == ("field", selfp, 0) or e.place == selfp)]
                if not sts:
                    val = mp[1]
                elif sts[-1].place == selfp:
                    w = sts[-1].val
                    val = w[2][0] if (w[0] == "agg" and isinstance(w[1], tuple) and w[1][0] == "adt") else w
                else:
                    val = sts[-1].val
            elif ret[0] == "agg" and isinstance(ret[1], tuple) and ret[1][0] == "adt":
                val = ret[2][0]
            elif ret[0] == "call" and _is_new_path(ret[1]):
                val = ret
            elif ret[0] == "param":
                val = ("proj", 0, ret)
            else:
                col.violation("M1" + sfx, pathkey + "|shape", b.loc(), "cannot identify the stored representative in %s" % tstr(ret))
                col.obligation(False)
                continue
            lo, hi = ev.interval(val)
            ok = lo is not None and DOM.le(B(0), lo) and DOM.le(hi, B(-1, 1))
            col.obligation(ok)
            if ok:
                col.ok("M1" + sfx, b.loc(), pathkey + "|invariant", "stored value in [%s, %s] ⊆ [0, M-1]" % (lo, hi))
            else:
                col.violation("M1" + sfx, "%s|invariant" % fk(b), b.loc(), "%s can store a representative outside [0, M): on some path the value %s has interval [%s, %s] (S = M)" % (b.path, tstr(val), lo, hi), {"path": st.path_list()})
            cg = ev.cong(val)
            okc = cg is not None and (cg - spec_p).is_zero()
            col.obligation(okc)
            if okc:
                col.ok("M1" + sfx, b.loc(), pathkey + "|congruence", "value ≡ %s (mod M)" % spec)
            else:
                col.violation("M1" + sfx, "%s|congruence" % fk(b), b.loc(), "%s returns a value congruent to  %s  instead of  %s  (mod M)" % (b.path, cg, spec))
            # ---- (ii) overflow facts, (iv) division assertions
            for f in st.facts:
                t = f[1]
                if f[0] == "eq" and f[2] == 0 and isinstance(t, tuple) and t and t[0] == "ovf":
                    op, x, y, ty = t[1], t[2], t[3], t[4]
                    rlo, rhi = ev.interval(("bin", op, x, y))
                    tr = ev._type_range(ty)
                    okk = rlo is not None and tr is not None and DOM.le(tr[0], rlo) and DOM.le(rhi, tr[1])
                    col.obligation(okk)
                    key = pathkey + "|no-overflow|%s" % op
                    if okk:
                        col.ok("M1" + sfx, b.loc(), key, "%s %s %s in [%s, %s] fits %s" % (tstr(x), op, tstr(y), rlo, rhi, ty))
                    else:
                        col.violation("M1" + sfx, "%s|overflow|%s" % (fk(b), op), b.loc(), "%s: %s(%s, %s) can overflow %s: interval [%s, %s] (S = M): panics in debug builds and wraps in release" % (b.path, op, tstr(x), tstr(y), ty, rlo, rhi))
            for e in st.event_list():
                if e.kind == "assert" and e.extra and e.extra.get("k") in ("rem_zero", "div_zero"):
                    c = e.val
                    d = c[2] if isinstance(c, tuple) and c[0] == "bin" and c[1] == "Eq" else None
                    okk = False
                    if d is not None:
                        dlo, dhi = ev.interval(d)
                        okk = dlo is not None and DOM.le(B(1), dlo)
                    col.obligation(okk)
                    if okk:
                        col.ok("M1" + sfx, b.loc(e.bb), pathkey + "|divisor-nonzero", "divisor >= 1")
                    else:
                        col.violation("M1" + sfx, "%s|divisor-zero" % fk(b), b.loc(e.bb), "%s divides by a value that can be zero" % b.path)
            # unchecked release-profile arithmetic: same obligations from the terms themselves
            if profile != "dev":
                for s in subterms(val):
                    if s[0] == "bin" and s[1] in ("Add", "Sub", "Mul"):
                        ty = I.tys.get(s)
                        tr = ev._type_range(ty) if ty else None
                        if tr is None:
                            continue
                        rlo, rhi = ev.interval(s)
                        okk = rlo is not None and DOM.le(tr[0], rlo) and DOM.le(rhi, tr[1])
                        col.obligation(okk)
                        if okk:
                            col.ok("M1" + sfx, b.loc(), pathkey + "|no-wrap|%s" % s[1], "unchecked %s stays within %s" % (s[1], ty), nontrivial=True)
                        else:
                            col.violation("M1" + sfx, "%s|wraps|%s" % (fk(b), s[1]), b.loc(), "%s: unchecked %s can wrap in the release profile: [%s, %s] vs %s" % (b.path, tstr(s), rlo, rhi, ty))
            # ---- (iii) casts met while evaluating
            seen_ob = set()
            for (desc, okk, t) in ev.obligations:
                if desc in seen_ob:
                    continue
                seen_ob.add(desc)
                col.obligation(okk)
                if okk:
                    col.ok("M1" + sfx, b.loc(), pathkey + "|cast|" + tstr(t)[:60], desc)
                else:
                    col.violation("M1" + sfx, "%s|lossy-cast" % fk(b), b.loc(), "%s: %s is NOT guaranteed: the value is truncated/reinterpreted for some M or operand" % (b.path, desc))

    _families(col, crate, adt, targets, sfx, modes, assign_of, A)


def _pow_bitscan(I, head, res_l, mulas, powb):
    d = ("param", 2, I.names.get(2))
    ph = lambda l: ("phi", head, l)
    entries = I.loop_entry.get(head, [{}])
    for en in entries:
        r0 = en.get(res_l)
        if not (r0 is not None and (r0[0] == "assoc" and r0[2] == "ONE" or (r0[0] == "agg" and r0[2] == (mk_int(1),)))):
            return False, "the accumulator does not start at ONE (%s)" % tstr(r0)
    base_l = [l for l, v in entries[0].items() if isinstance(v, tuple) and v and v[0] == "load" and v[2] == ("deref", ("param", 1, I.names.get(1)))]
    if len(base_l) != 1:
        return False, "the running square does not start at *self"
    a_l = base_l[0]
    backs = I.backedge_states.get(head, [])
    if not backs:
        return False, "no loop iterations"
    for st in backs:
        bit = None
        setp = None
        bound = None
        for f in st.facts:
            t = f[1]
            if f[0] == "eq" and isinstance(t, tuple) and t[0] == "bin" and t[1] in ("Ne", "Eq") and t[3] in (mk_int(0), mk_int(1)) and isinstance(t[2], tuple) and t[2][0] == "bin" and t[2][1] == "BitAnd" and t[2][3] == mk_int(1):
                sh = t[2][2]
                if sh[0] == "bin" and sh[1] == "Shr" and sh[2] == d and sh[3][0] == "elem":
                    bit = sh[3]
                    is_set = (t[1] == "Ne") == (t[3] == mk_int(0))
                    setp = is_set == bool(f[2])
        if bit is None:
            return False, "the loop does not test bit `(d >> i) & 1` of the argument exponent"
        lo, hi = bit[2], bit[3]
        full = hi == mk_int(64)
        blen = hi[0] == "bin" and hi[1] == "Sub" and hi[2] == mk_int(64) and hi[3][0] == "call" and str(hi[3][1]).endswith("leading_zeros") and hi[3][2][0] == d
        if lo != mk_int(0) or not (full or blen):
            return False, "the bit index does not run over 0..bit_length(d) (range is %s..%s)" % (tstr(lo), tstr(hi))
        evs = [e for e in st.event_list() if e.kind == "call" and (e.fn.get("resolved") or e.fn).get("def") == mulas.key]
        want = ([(("ref", ("local", res_l)), ph(a_l))] if setp else []) + [(("ref", ("local", a_l)), ph(a_l))]
        got = [(e.args[0], e.args[1]) for e in evs]
        if got != want:
            return False, "loop body is not `if bit set { res *= a }; a *= a` (bit set=%s, multiplications=%s)" % (setp, [(tstr(x), tstr(y)) for x, y in got])
    return True, ""


def _families(col, crate, adt, targets, sfx, modes=None, assign_of=None, A=None):
    modes = modes or {}
    assign_of = assign_of or {}
    A = A or util.analyse
    fk = util.fkey
    pairs = {"AddAssign": ("add_assign", "add"), "SubAssign": ("sub_assign", "sub"), "MulAssign": ("mul_assign", "mul"), "DivAssign": ("div_assign", "div")}
    divb = util.need_body(crate, "<Modular<M> as std::ops::Div>::div")
    invb = util.need_body(crate, "Modular::<M>::inv")
    mulas_b = util.need_body(crate, "<Modular<M> as std::ops::MulAssign>::mul_assign")

    def returns_self_after(I, st, call):
        """`{ self op= rhs; self }`: the by-value receiver local is passed by &mut and then returned"""
        ret = util.ret_term(st)
        return call.args[0] == ("ref", ("local", 1)) and call.args[1] == ("param", 2, I.names.get(2)) and ret[0] == "out" and ret[2] == 1 and ret[1] == call.extra.get("uid")

    for tr, (am, om) in pairs.items():
        if om == "div":
            continue
        ab = util.need_body(crate, "<Modular<M> as std::ops::%s>::%s" % (tr, am))
        vb = util.need_body(crate, "<Modular<M> as std::ops::%s>::%s" % (tr[:-6], om))
        if modes.get(om) == "assign":
            b, want = vb, ab
        else:
            b, want = ab, vb
        if (om + "_assign") in targets:
            col.ok("M2" + sfx, ab.loc(), "%s|delegates" % fk(ab), "%s and %s each carry the arithmetic; both are proved against the same specification (M1)" % (vb.name, ab.name))
            col.obligation(True)
            continue
        I = A(b)
        selfp = ("deref", ("param", 1, I.names.get(1)))
        for st in I.final_states:
            calls = [e for e in st.event_list() if e.kind == "call" and not e.extra.get("inlined")]
            ok = len(calls) == 1 and (calls[0].fn.get("resolved") or calls[0].fn).get("def") == want.key
            if ok and b is ab:
                stores = [e for e in st.event_list() if e.kind == "store" and e.place == selfp]
                ok = calls[0].args == (("load", ("m0",), selfp), ("param", 2, I.names.get(2))) and len(stores) == 1 and stores[0].val == calls[0].res
            elif ok:
                ok = returns_self_after(I, st, calls[0])
            key = "%s|delegates" % fk(b)
            if ok:
                col.ok("M2" + sfx, b.loc(), key, "*self = *self %s rhs" % om if b is ab else "{ self %s= rhs; self }" % om)
                col.obligation(True)
            else:
                col.violation("M2" + sfx, key, b.loc(), "%s must be %s (calls: %s)" % (b.path, "*self = *self %s rhs" % om if b is ab else "self %s= rhs followed by returning self" % om, [c.callee for c in calls]))
                col.obligation(False)
    # Div = Mul by inverse, in either direction
    dab = util.need_body(crate, "<Modular<M> as std::ops::DivAssign>::div_assign")
    d_calls_a = any(util.callee_key(t) == dab.key for bb, t in divb.calls())   # (div_assign reaching div through a helper is the other direction)
    arith, deleg = (dab, divb) if d_calls_a else (divb, dab)
    I = A(arith)
    for st in I.final_states:
        ret = util.ret_term(st)
        calls = [e for e in st.event_list() if e.kind == "call"]
        inv = [e for e in calls if (e.fn.get("resolved") or e.fn).get("def") == invb.key]
        ok = len(inv) == 1 and inv[0].extra["argvals"][0] == ("param", 2, I.names.get(2))
        if arith is divb:
            mul = [e for e in calls if (e.fn.get("resolved") or e.fn).get("def") == targets["mul"].key or (e.extra.get("name") == "mul" and (e.extra.get("trait") or "").endswith("ops::Mul"))]
            ok = ok and len(mul) == 1 and mul[0].args[0] == ("param", 1, I.names.get(1)) and mul[0].args[1] == inv[0].res and ret == mul[0].res
        else:
            mul = [e for e in calls if (e.fn.get("resolved") or e.fn).get("def") == mulas_b.key]
            ok = ok and len(mul) == 1 and mul[0].args[0] in (("param", 1, I.names.get(1)), ("ref", ("deref", ("param", 1, I.names.get(1))))) and mul[0].args[1] == inv[0].res
        if ok:
            col.ok("M2" + sfx, arith.loc(), "%s|mul-by-inverse" % fk(divb), "self * rhs.inv()")
            col.obligation(True)
        else:
            col.violation("M2" + sfx, "%s|mul-by-inverse" % fk(divb), arith.loc(), "division must be multiplication by rhs.inv()")
            col.obligation(False)
    I = A(deleg)
    selfp = ("deref", ("param", 1, I.names.get(1)))
    for st in I.final_states:
        calls = [e for e in st.event_list() if e.kind == "call" and not e.extra.get("inlined")]
        ok = len(calls) == 1 and (calls[0].fn.get("resolved") or calls[0].fn).get("def") == arith.key
        if not ok and deleg is dab:
            # the assigning form may carry the arithmetic itself: `*self *= rhs.inv()`
            inv_ = [e for e in calls if (e.fn.get("resolved") or e.fn).get("def") == invb.key]
            mul_ = [e for e in calls if (e.fn.get("resolved") or e.fn).get("def") == mulas_b.key]
            if len(calls) == 2 and len(inv_) == 1 and len(mul_) == 1 and inv_[0].extra["argvals"][0] == ("param", 2, I.names.get(2)) and mul_[0].args[0] in (("param", 1, I.names.get(1)), ("ref", selfp)) and mul_[0].args[1] == inv_[0].res and not [e for e in st.event_list() if e.kind == "store"]:
                col.ok("M2" + sfx, deleg.loc(), "%s|delegates" % fk(deleg), "*self *= rhs.inv()")
                col.obligation(True)
                continue
        if ok and deleg is dab:
            stores = [e for e in st.event_list() if e.kind == "store" and e.place == selfp]
            ok = calls[0].args == (("load", ("m0",), selfp), ("param", 2, I.names.get(2))) and len(stores) == 1 and stores[0].val == calls[0].res
        elif ok:
            ok = returns_self_after(I, st, calls[0])
        key = "%s|delegates" % fk(deleg)
        if ok:
            col.ok("M2" + sfx, deleg.loc(), key, "forwards to %s" % arith.name)
            col.obligation(True)
        else:
            col.violation("M2" + sfx, key, deleg.loc(), "%s must forward to %s on the same operands (calls: %s)" % (deleg.path, arith.path, [c.callee for c in calls]))
            col.obligation(False)
    # inv returns through new
    I = util.analyse(invb)
    ok = bool(I.final_states) and all((util.ret_term(st)[0] == "call" and _is_new_path(util.ret_term(st)[1])) or _trivial_inverse_path(I, st) for st in I.final_states)
    if ok:
        col.ok("M2" + sfx, invb.loc(), "%s|through-new" % fk(invb), "inv() returns Self::new(..): representation invariant holds by M1")
        col.obligation(True)
    else:
        col.violation("M2" + sfx, "%s|through-new" % fk(invb), invb.loc(), "inv() must return through the canonicalising constructor")
        col.obligation(False)
    _bezout(col, crate, invb, sfx, fk)
    # pow: only MulAssign on values starting from ONE / *self
    powb = util.need_body(crate, "Modular::<M>::pow")
    I = util.analyse(powb)
    mulas = util.need_body(crate, "<Modular<M> as std::ops::MulAssign>::mul_assign")
    bad = []
    for st in I.all_end_states():
        for e in st.event_list():
            if e.kind == "call" and (e.fn.get("resolved") or e.fn).get("def") != mulas.key and not e.extra.get("pure"):
                if util.is_readonly_check(crate, crate.by_key.get((e.fn.get("resolved") or e.fn).get("def"))):
                    continue   # assertions about the operands: cannot change a value
                bad.append(e.callee)
    rets = [util.ret_term(st) for st in I.final_states]
    if not bad and rets:
        col.ok("M2" + sfx, powb.loc(), "%s|only-mulassign" % fk(powb), "pow combines values only with MulAssign")
        col.obligation(True)
    else:
        col.violation("M2" + sfx, "%s|only-mulassign" % fk(powb), powb.loc(), "pow uses %s; it may only combine values with *=" % sorted(set(bad)))
        col.obligation(False)
    # M3: square-and-multiply scheme, the exponent enters the loop unchanged
    head = list(I.loops)[0] if len(I.loops) == 1 else None
    ok3 = head is not None
    why3 = "pow is not a single loop"
    if ok3:
        names = powb.local_names()
        d_l = 2
        entry = I.loop_entry.get(head, [{}])[0]
        # the loop variable holding the exponent: the phi tested against 0 in the loop condition
        exp_l = None
        for st in I.final_states:
            for f in st.facts:
                t = f[1]
                if isinstance(t, tuple) and t[0] == "bin" and t[1] in ("Ne", "Eq", "Gt") and t[3] == mk_int(0) and t[2][0] == "phi":
                    exp_l = t[2][2]
                if isinstance(t, tuple) and t[0] == "bin" and t[1] == "Lt" and t[2] == mk_int(0) and t[3][0] == "phi":
                    exp_l = t[3][2]
        res_l = None
        for st in I.final_states:
            r = util.ret_term(st)
            if r[0] == "phi":
                res_l = r[2]
        if exp_l is None and res_l is not None:
            # bit-scan form: for bit in 0..K { if (d >> bit) & 1 != 0 { res *= a }; a *= a } with d the argument
            # itself and K its bit length (64 - d.leading_zeros()) or the full width 64
            ok3, why3 = _pow_bitscan(I, head, res_l, mulas, powb)
        elif exp_l is None or res_l is None:
            ok3, why3 = False, "cannot identify the exponent / result loop variables"
        else:
            entries = I.loop_entry.get(head, [{}])
            bad_e = [en.get(exp_l) for en in entries if en.get(exp_l) != ("param", 2, I.names.get(2))]
            e0 = bad_e[0] if bad_e else entry.get(exp_l)
            bad_r = [en.get(res_l) for en in entries if not (en.get(res_l) is not None and (en.get(res_l)[0] == "assoc" and en.get(res_l)[2] == "ONE" or (en.get(res_l)[0] == "agg" and en.get(res_l)[2] == (mk_int(1),))))]
            r0 = bad_r[0] if bad_r else entry.get(res_l)
            base_l = [l for l, v in entry.items() if isinstance(v, tuple) and v and v[0] == "load" and v[2] == ("deref", ("param", 1, I.names.get(1)))]
            if e0 != ("param", 2, I.names.get(2)):
                ok3, why3 = False, "the exponent entering the loop is %s, not the argument itself (the exponent is pre-processed before the square-and-multiply loop)" % tstr(e0)
            elif not (r0 is not None and r0[0] == "assoc" and r0[2] == "ONE" or (r0 is not None and r0[0] == "agg" and r0[2] == (mk_int(1),))):
                ok3, why3 = False, "the accumulator does not start at ONE (%s)" % tstr(r0)
            elif len(base_l) != 1:
                ok3, why3 = False, "the running square does not start at *self"
            else:
                a_l = base_l[0]
                ph = lambda l: ("phi", head, l)
                for st in I.backedge_states.get(head, []):
                    evs = [e for e in st.event_list() if e.kind == "call" and (e.fn.get("resolved") or e.fn).get("def") == mulas.key]
                    odd = None
                    for f in st.facts:
                        t = f[1]
                        if f[0] == "eq" and isinstance(t, tuple) and t[0] == "bin" and t[1] == "Eq" and t[3] == mk_int(1) and t[2] in (("bin", "Rem", ph(exp_l), mk_int(2)), ("bin", "BitAnd", ph(exp_l), mk_int(1))):
                            odd = bool(f[2])
                        if f[0] == "eq" and isinstance(t, tuple) and t[0] == "bin" and t[1] in ("Ne", "Eq") and t[3] == mk_int(0) and t[2] in (("bin", "Rem", ph(exp_l), mk_int(2)), ("bin", "BitAnd", ph(exp_l), mk_int(1))):
                            odd = (t[1] == "Ne") == bool(f[2])
                    want = ([(("ref", ("local", res_l)), ph(a_l))] if odd else []) + [(("ref", ("local", a_l)), ph(a_l))]
                    got = [(e.args[0], e.args[1]) for e in evs]
                    dnew = st.env.get(exp_l)
                    halves = dnew in (("bin", "Div", ph(exp_l), mk_int(2)), ("bin", "Shr", ph(exp_l), mk_int(1)))
                    # the squaring of the last round is never read: it may be skipped when the halved exponent is 0
                    last = any(f[0] == "eq" and isinstance(f[1], tuple) and f[1] and f[1][0] == "bin" and f[1][2] == dnew and f[1][3] == mk_int(0) and ((f[1][1] == "Ne" and f[2] == 0) or (f[1][1] == "Eq" and f[2] == 1)) for f in st.facts)
                    if last and got == want[:-1]:
                        got = want
                    if odd is None or got != want or not halves:
                        ok3, why3 = False, "loop body is not `if d odd { res *= a }; a *= a; d /= 2` (odd=%s, multiplications=%s, d'=%s)" % (odd, [(tstr(x), tstr(y)) for x, y in got], tstr(st.env.get(exp_l)))
                    if not zones.entails(st.facts, "Ne", ph(exp_l), mk_int(0), I.tys) and not zones.entails(st.facts, "Gt", ph(exp_l), mk_int(0), I.tys):
                        ok3, why3 = False, "a round of the loop runs without the fact d != 0 (the loop test has the wrong polarity)"
                # ... and the loop is left exactly when the exponent is used up
                for st in I.final_states:
                    if any(e.kind == "loop" for e in st.event_list()) and not zones.entails(st.facts, "Eq", ph(exp_l), mk_int(0), I.tys) and not zones.entails(st.facts, "Le", ph(exp_l), mk_int(0), I.tys):
                        ok3, why3 = False, "the loop is left on a path that does not establish d == 0: remaining bits of the exponent are dropped"
    if not ok3:
        sem = _pow_semantic(crate, powb)
        if sem is True:
            ok3 = True
    # paths that return without running the loop (fast paths) must be the power they stand for
    why_fast = _pow_fast_paths(crate, powb)
    if why_fast:
        ok3, why3 = False, why_fast
    if ok3:
        col.ok("M2" + sfx, powb.loc(), "%s|square-and-multiply" % fk(powb), "res = ONE, a = *self, d = argument; loop: if d odd { res *= a }; a *= a; d /= 2 while d != 0")
        col.obligation(True)
    else:
        col.violation("M2" + sfx, "%s|square-and-multiply" % fk(powb), powb.loc(), "pow is not plain binary exponentiation over the argument exponent: %s — for composite moduli (or exponents >= M) the result is then not the modular power" % why3)
        col.obligation(False)
    # IO and formatting
    rd = util.need_body(crate, "<Modular<M> as rlib_io::Readable>::read")
    I = util.analyse(rd)
    for st in I.final_states:
        ret = util.ret_term(st)
        ok = ret[0] == "call" and _is_new_path(ret[1]) and ret[2][0][0] == "call" and "read" in str(ret[2][0][1])
        calls = [e for e in st.event_list() if e.kind == "call" and e.extra.get("name") == "read"]
        ok = ok and calls and (calls[0].fn.get("args") or [""])[-1] == "i64"
        if ok:
            col.ok("M2" + sfx, rd.loc(), "%s|new-of-i64" % fk(rd), "read = new(reader.read::<i64>())")
            col.obligation(True)
        else:
            col.violation("M2" + sfx, "%s|new-of-i64" % fk(rd), rd.loc(), "reading a Modular must go through new(reader.read::<i64>()), got %s" % tstr(ret))
            col.obligation(False)
    for path, what in (("<Modular<M> as rlib_io::Writable>::write", "write"), ("<Modular<M> as std::fmt::Display>::fmt", "fmt"), ("<Modular<M> as std::fmt::Debug>::fmt", "fmt")):
        b = util.need_body(crate, path)
        # accessors of the representative (`inner()`) are inlined
        acc = [m for m in util.methods_of(crate, "Modular") if not util.self_recursive(m) and m.arg_count == 1 and m.locals[0]["ty"] == "u32" and len(m.blocks) <= 2]
        I = util.analyser(acc)(b)
        selfp = ("deref", ("param", 1, I.names.get(1)))
        v0 = ("load", ("m0",), ("field", selfp, 0))
        for st in I.final_states:
            calls = [e for e in st.event_list() if e.kind == "call" and e.extra.get("name") == what]
            ok = len(calls) == 1 and (calls[0].fn.get("self_ty") or (calls[0].fn.get("args") or [""])[0]) == "u32"
            if ok:
                a0 = calls[0].args[0]
                av = (calls[0].extra.get("argvals") or [None])[0]
                ok = a0 == ("ref", ("field", selfp, 0)) or av == v0 or (a0[0] == "ref" and a0[1][0] == "constval" and a0[1][1] == v0)
            others = [e for e in st.event_list() if e.kind == "call" and e not in calls and not e.extra.get("inlined")]
            ok = ok and not others
            key = "%s|prints-v" % fk(b)
            if ok:
                col.ok("M2" + sfx, b.loc(), key, "forwards to <u32>::%s(&self.v)" % what)
                col.obligation(True)
            else:
                col.violation("M2" + sfx, key, b.loc(), "%s must print exactly the canonical representative self.v as u32" % b.path)
                col.obligation(False)
    # equality is structural on the canonical representative: derived, or hand-written and verified field by field
    eq_ok, eq_why = util.structural_eq(crate, adt)
    has_eq = any(i.get("self_adt") == adt["key"] and str(i.get("trait") or "").endswith("cmp::Eq") for i in crate.impls)
    for tr, good, why_ in (("PartialEq", eq_ok, eq_why), ("Eq", eq_ok and has_eq, eq_why if has_eq else "no Eq impl")):
        if good:
            col.ok("M2" + sfx, "%s:%d" % (adt["span"]["file"], adt["span"]["line"]), "Modular|%s-derived" % tr, "structural on v (%s)" % why_, nontrivial=False)
            col.obligation(True)
        else:
            col.violation("M2" + sfx, "Modular|%s-derived" % tr, "%s:%d" % (adt["span"]["file"], adt["span"]["line"]), "%s for Modular must be the structural one on the canonical representative (derived, or field by field): %s" % (tr, why_))
            col.obligation(False)



def _pow_semantic(crate, powb):
    """square-and-multiply judged on terms, wherever the loop lives (pow itself or an inlined private helper,
    possibly generic over the multiplication passed as a closure) and however the products are spelled
    (`x *= y`, `x = x * y`, `x = mul(x, y)`): the loop carries (res, a, d) entering as (ONE, *self, the argument);
    every round has res' = res*a exactly when d is odd, a' = a*a (may be skipped when d' == 0), d' = d/2."""
    from ..absint import strip_mem

    helpers = [m for m in crate.bodies if not m.is_closure and m.kind in ("Fn", "AssocFn") and m.vis != "pub" and not util.self_recursive(m)]
    I = util.analyser(helpers, features=("fncall", "comb"))(powb)
    L = I
    if not I.loops:
        subs = [s_ for s_ in getattr(I, "inlined_subs", []) if len(s_.loops) == 1 and s_.backedge_states]
        if len(subs) != 1:
            return False
        L = subs[0]
    if len(L.loops) != 1:
        return False
    head = list(L.loops)[0]
    entries = L.loop_entry.get(head, [])
    backs = L.backedge_states.get(head, [])
    if len(entries) != 1 or not backs:
        return False
    entry = entries[0]
    uidh = L.uid(head)
    ph = lambda l: ("phi", uidh, l)
    selfv = ("load", ("m0",), ("deref", ("param", 1, I.names.get(1))))
    dparam = ("param", 2, I.names.get(2))

    def is_one(v):
        return isinstance(v, tuple) and v and ((v[0] == "assoc" and v[2] == "ONE") or (v[0] == "agg" and v[2] == (mk_int(1),)))

    res_l = [l for l, v in entry.items() if is_one(v)]
    a_l = [l for l, v in entry.items() if strip_mem(v) == strip_mem(selfv)]
    d_l = [l for l, v in entry.items() if v == dparam]
    # only loop-carried ones
    def carried(l):
        return any(strip_mem(bs.env.get(l)) not in (strip_mem(ph(l)), strip_mem(entry.get(l))) for bs in backs if bs.env.get(l) is not None)

    res_l, a_l, d_l = [l for l in res_l if carried(l)], [l for l in a_l if carried(l)], [l for l in d_l if carried(l)]
    if len(res_l) != 1 or len(a_l) != 1 or len(d_l) != 1:
        return False
    res_l, a_l, d_l = res_l[0], a_l[0], d_l[0]

    def product(st, l):
        """(x, y) when the round assigns l := x * y in Modular arithmetic, 'same' when l is unchanged, else None"""
        v = st.env.get(l)
        if strip_mem(v) == strip_mem(ph(l)):
            return "same"
        if isinstance(v, tuple) and v and v[0] == "call" and str(v[1]).endswith("ops::Mul>::mul"):
            args = [x for x in v[2] if not (isinstance(x, tuple) and x and x[0] == "mem")]
            return (strip_mem(args[0]), strip_mem(args[1])) if len(args) == 2 else None
        if isinstance(v, tuple) and v and v[0] == "out" and v[2] == l:
            evs = [e for e in st.event_list() if e.kind == "call" and e.extra.get("uid") == v[1] and (e.extra.get("trait") or "").endswith("ops::MulAssign")]
            if len(evs) == 1 and evs[0].args[0] == ("ref", ("local", l)):
                x = (evs[0].extra.get("argvals") or [None])[0]
                return (strip_mem(x), strip_mem(evs[0].args[1])) if x is not None else None
        return None

    R_, A_ = strip_mem(ph(res_l)), strip_mem(ph(a_l))
    for st in backs:
        odd = None
        for f in st.facts:
            t = f[1]
            if f[0] == "eq" and isinstance(t, tuple) and t and t[0] == "bin" and t[2] in (("bin", "Rem", ph(d_l), mk_int(2)), ("bin", "BitAnd", ph(d_l), mk_int(1))):
                if t[1] == "Eq" and t[3] == mk_int(1):
                    odd = bool(f[2])
                elif t[1] in ("Ne", "Eq") and t[3] == mk_int(0):
                    odd = (t[1] == "Ne") == bool(f[2])
        dnew = st.env.get(d_l)
        if odd is None or dnew not in (("bin", "Div", ph(d_l), mk_int(2)), ("bin", "Shr", ph(d_l), mk_int(1))):
            return False
        pr = product(st, res_l)
        if odd and not (isinstance(pr, tuple) and set(pr) == {R_, A_} or (isinstance(pr, tuple) and pr == (R_, A_))):
            return False
        if not odd and pr != "same":
            return False
        pa = product(st, a_l)
        last = any(f[0] == "eq" and isinstance(f[1], tuple) and f[1] and f[1][0] == "bin" and f[1][2] == dnew and f[1][3] == mk_int(0) and ((f[1][1] == "Ne" and f[2] == 0) or (f[1][1] == "Eq" and f[2] == 1)) for f in st.facts)
        if not (pa == (A_, A_) or (last and pa == "same")):
            return False
    # continues while d != 0 and returns the accumulator
    def is_zero_fact(st, term):
        return any(f[0] == "eq" and isinstance(f[1], tuple) and f[1] and f[1][0] == "bin" and f[1][2] == term and f[1][3] == mk_int(0) and ((f[1][1] == "Ne" and f[2] == 0) or (f[1][1] == "Eq" and f[2] == 1)) for f in st.facts)

    def odd_of(st):
        odd = None
        for f in st.facts:
            t = f[1]
            if f[0] == "eq" and isinstance(t, tuple) and t and t[0] == "bin" and t[2] in (("bin", "Rem", ph(d_l), mk_int(2)), ("bin", "BitAnd", ph(d_l), mk_int(1))):
                if t[1] == "Eq" and t[3] == mk_int(1):
                    odd = bool(f[2])
                elif t[1] in ("Ne", "Eq") and t[3] == mk_int(0):
                    odd = (t[1] == "Ne") == bool(f[2])
        return odd

    if not any(any(e.kind == "loop" for e in st.event_list()) for st in I.final_states):
        return False   # the loop is never left: pow does not return for exponents that enter it
    for st in I.final_states:
        r = util.ret_term(st)
        if not any(e.kind == "loop" for e in st.event_list()):
            continue   # a return in front of the loop: judged by _pow_fast_paths
        if strip_mem(r) == strip_mem(ph(res_l)) and is_zero_fact(st, ph(d_l)):
            continue   # `while d != 0` left at its head
        # left from the middle of a round (`loop { if odd { res *= a } d >>= 1; if d == 0 { break } a *= a }`): the round's
        # multiplication has happened, the halved exponent is zero, the squaring that nobody would use is skipped
        dnew = st.env.get(d_l)
        odd = odd_of(st)
        if odd is None or dnew not in (("bin", "Div", ph(d_l), mk_int(2)), ("bin", "Shr", ph(d_l), mk_int(1))) or not is_zero_fact(st, dnew):
            return False
        pr = product(st, res_l)
        if odd and not (isinstance(pr, tuple) and set(pr) == {R_, A_}):
            return False
        if not odd and pr != "same":
            return False
        if strip_mem(r) != strip_mem(st.env.get(res_l)) and not (isinstance(st.env.get(res_l), tuple) and st.env.get(res_l)[0] == "out"):
            return False
    return True


def _pow_fast_paths(crate, powb):
    """A return of pow that does not come out of the square-and-multiply loop is a fast path; it is sound only
    as  x^1 = x  (returns *self under the fact d == 1),  x^0 = 1  (returns ONE under d == 0),  1^d = 1  (returns
    *self or ONE under self == 1).  In particular `self <= 1 => *self` is wrong: 0^0 is the empty product 1.
    Returns the reason of the first unsound fast path, or None."""
    helpers = [m for m in crate.bodies if not m.is_closure and m.kind in ("Fn", "AssocFn") and m.vis != "pub" and not util.self_recursive(m)]
    I = util.analyser(helpers, features=("fncall", "comb"))(powb)
    selfp = ("deref", ("param", 1, I.names.get(1)))
    selfv = ("load", ("m0",), selfp)
    v0 = ("load", ("m0",), ("field", selfp, 0))
    d = ("param", 2, I.names.get(2))

    def known_eq(st, t, k):
        for f in st.facts:
            x = f[1]
            if f[0] == "eq" and x == t and f[2] == k and not isinstance(f[2], bool):
                return True
            if f[0] == "eq" and isinstance(x, tuple) and x and x[0] == "bin" and {x[2], x[3]} == {t, mk_int(k)}:
                if (x[1] == "Eq" and f[2] == 1) or (x[1] == "Ne" and f[2] == 0):
                    return True
        return False

    def is_one(r):
        return isinstance(r, tuple) and r and ((r[0] == "assoc" and r[2] == "ONE") or (r[0] == "agg" and r[2] == (mk_int(1),)))

    for st in I.final_states:
        if any(e.kind == "loop" for e in st.event_list()):
            continue
        r = util.ret_term(st)
        if r == selfv and (known_eq(st, d, 1) or known_eq(st, v0, 1)):
            continue
        if is_one(r) and (known_eq(st, d, 0) or known_eq(st, v0, 1)):
            continue
        from ..absint import tstr as _t
        return "a fast path returns %s without the loop on a path that does not establish d == 1 (x^1 = x), d == 0 (x^0 = 1) or self == 1: e.g. 0^0 must be 1" % _t(r)[:80]
    return None


def _trivial_inverse_path(I, st):
    """an early return of `*self` under facts that bound self's representative by 1: 0 and 1 are their own
    Bezout results (0*0 == gcd(0, M) == 0 and 1*1 == 1 mod M), so the path agrees with the loop"""
    selfp = ("deref", ("param", 1, I.names.get(1)))
    ret = util.ret_term(st)
    if not (isinstance(ret, tuple) and ret and ret[0] == "load" and ret[2] == selfp):
        return False
    if any(e.kind == "loop" for e in st.event_list()):
        return False
    for f in st.facts:
        t = f[1]
        if f[0] != "eq" or not (isinstance(t, tuple) and t and t[0] == "bin" and len(t) > 3):
            continue
        x, y = _strip_int_casts(t[2]), t[3]
        is_v = isinstance(x, tuple) and x and x[0] == "load" and x[2] == ("field", selfp, 0)
        if not is_v or not (isinstance(y, tuple) and y and y[0] == "int"):
            continue
        k, truth = y[1], bool(f[2])
        if (t[1] == "Le" and k <= 1 and truth) or (t[1] == "Lt" and k <= 2 and truth) or (t[1] == "Gt" and k <= 1 and not truth) or (t[1] == "Ge" and k <= 2 and not truth) or (t[1] == "Eq" and k in (0, 1) and truth):
            return True
    return False


def _strip_int_casts(t):
    """IntToInt casts and integer From/Into conversions are the identity for this rule (ranges and overflow are
    M1's obligations); a % b is written a - (a / b) * b so that both spellings of Euclid's step agree"""
    if not isinstance(t, tuple) or not t:
        return t
    if t[0] == "cast" and len(t) > 3 and t[1] == "IntToInt":
        return _strip_int_casts(t[3])
    if t[0] == "call" and str(t[1]).split("::")[-1] in ("from", "into") and ("convert::From" in str(t[1]) or "convert::Into" in str(t[1]) or str(t[1]).startswith("<i") or str(t[1]).startswith("<u")):
        args = [a for a in t[2] if not (isinstance(a, tuple) and a and a[0] == "mem")]
        if len(args) == 1:
            return _strip_int_casts(args[0])
    if t[0] == "bin" and t[1] == "Rem":
        a, b = _strip_int_casts(t[2]), _strip_int_casts(t[3])
        return ("bin", "Sub", a, ("bin", "Mul", ("bin", "Div", a, b), b))
    if not isinstance(t[0], str):
        return tuple(_strip_int_casts(x) for x in t)
    return tuple(_strip_int_casts(x) if isinstance(x, tuple) else x for x in t)


def _bezout(col, crate, invb, sfx, fk):
    """M3: inv() is the extended Euclid loop with its Bezout invariant.  The loop carries remainders r_i and
    coefficients c_i; the rule *finds* the pairing (r, c) for which r - c*v is a multiple of M on entry
    (v = self's representative), checks that one round keeps every such residual a multiple of M as a
    polynomial identity (the quotient is a free variable), that the remainders follow Euclid's step
    (r_old_divisor, r_dividend - q * r_divisor or r_dividend % r_divisor), that the loop ends when the
    divisor remainder is 0 and that the coefficient of the OTHER remainder is returned through new().
    Then  returned * v == gcd(v, M)  (mod M): the modular inverse whenever v is coprime to M."""
    from ..polyid import Poly, Translator
    from ..absint import strip_mem
    import itertools

    col.rule("M3" + sfx, "inv(): extended-Euclid loop keeps r == c*v (mod M) for both remainder/coefficient pairs and returns the coefficient of the surviving remainder", floor=3)
    helpers = [m for m in crate.bodies if not m.is_closure and m.kind in ("Fn", "AssocFn") and m.vis != "pub" and not util.self_recursive(m)]
    I = util.analyser(helpers)(invb)
    key = "%s|bezout" % fk(invb)
    L = I
    if not I.loops:
        # the loop lives in an inlined private helper (bezout_coefficient(value, modulus)): its entry values are
        # already expressed in the caller's terms
        subs = [s_ for s_ in getattr(I, "inlined_subs", []) if len(s_.loops) == 1 and s_.backedge_states]
        if len(subs) == 1:
            L = subs[0]
    if len(L.loops) != 1 or not L.backedge_states:
        col.violation("M3" + sfx, key + "|loop", invb.loc(), "inv() is not a single extended-Euclid loop: the Bezout invariant cannot be established")
        return
    head = list(L.loops)[0]
    entries = L.loop_entry.get(head, [])
    backs = L.backedge_states.get(head, [])
    invb_outer, invb = invb, L.body
    if len(entries) != 1 or not backs:
        col.violation("M3" + sfx, key + "|loop", invb.loc(), "inv(): cannot read the loop's entry values")
        return
    entry = {l: _strip_int_casts(v) for l, v in entries[0].items()}
    uidh = L.uid(head)
    T = Translator()
    selfp = ("deref", ("param", 1, I.names.get(1)))
    V = None
    for l, v in entry.items():
        if isinstance(v, tuple) and v and v[0] == "load" and strip_mem(v[2]) == strip_mem(("field", selfp, 0)):
            V = T.poly(v)
    Mv = M
    Mp = T.poly(Mv)
    if V is None:
        col.violation("M3" + sfx, key + "|loop", invb.loc(), "inv(): no loop variable starts as self's representative")
        return

    def phi(l):
        return ("phi", uidh, l)

    def mult_of_M(p):
        """every monomial of p contains M (p is 0 modulo M as a polynomial)"""
        return all(any(var == strip_mem(Mv) or var == Mv for var, _ in mono) for mono in p.t)

    carried = sorted(l for l in entry if any(strip_mem(_strip_int_casts(bs.env.get(l))) != strip_mem(phi(l)) for bs in backs if bs.env.get(l) is not None))
    ints = [l for l in carried if str(invb.locals[l]["ty"]) in ("i32", "i64", "i128", "isize", "u32", "u64")]
    pairs = []
    for r, c in itertools.permutations(ints, 2):
        res0 = T.poly(entry[r]) - T.poly(entry[c]) * V
        if res0.is_zero() or mult_of_M(res0):
            # the trivial pairing 0 - 0*v is excluded: the coefficient must be able to become non-zero
            pairs.append((r, c))
    # two disjoint pairs covering four carried variables
    sol = None
    for (p1, p2) in itertools.combinations(pairs, 2):
        if len({p1[0], p1[1], p2[0], p2[1]}) == 4 and {p1[0], p2[0]}.isdisjoint({p1[1], p2[1]}):
            # remainders are the variables tested / divided, coefficients are never divided by
            sol = (p1, p2)
            cand_ok = True
            for bs in backs:
                sub = {strip_mem(phi(r)): None for r in ()}
                for (r, c) in (p1, p2):
                    newr = T.poly(_strip_int_casts(bs.env[r])) - T.poly(_strip_int_casts(bs.env[c])) * V
                    # assume the old residuals vanish: r := c*v
                    for (r2, c2) in (p1, p2):
                        newr = newr.subst(strip_mem(phi(r2)), Poly.var(strip_mem(phi(c2))) * V)
                    if not (newr.is_zero() or mult_of_M(newr)):
                        cand_ok = False
            if cand_ok:
                break
            sol = None
    if sol is None:
        col.violation("M3" + sfx, key + "|invariant", invb.loc(), "inv(): no pairing of the loop's remainders r and coefficients c keeps r == c * self (mod M) through one round (entry values %s): the returned value is not a Bezout coefficient of self" % {invb.local_names().get(l, "_%d" % l): tstr(entry[l]) for l in ints})
        return
    (r1, c1), (r2, c2) = sol
    nm = lambda l: invb.local_names().get(l) or "_%d" % l
    col.ok("M3" + sfx, invb.loc(head), key + "|invariant", "%s == %s*v and %s == %s*v (mod M) hold on entry and are preserved by every round (polynomial identity, quotient free)" % (nm(r1), nm(c1), nm(r2), nm(c2)))
    # Euclid's step on the remainders, exit when the divisor remainder is 0
    fin = I.final_states
    zero_r = None
    for st in fin:
        if _trivial_inverse_path(I, st):
            continue
        for f in st.facts:
            t = f[1]
            if isinstance(t, tuple) and t and t[0] == "bin" and t[1] in ("Ne", "Eq") and t[3] == mk_int(0) and strip_mem(_strip_int_casts(t[2])) in (strip_mem(phi(r1)), strip_mem(phi(r2))):
                is_zero = (t[1] == "Eq") == bool(f[2]) if f[0] == "eq" else None
                if is_zero:
                    zero_r = r1 if strip_mem(_strip_int_casts(t[2])) == strip_mem(phi(r1)) else r2
    step_ok = zero_r is not None
    if step_ok:
        other_r = r2 if zero_r == r1 else r1
        d_, n_ = Poly.var(strip_mem(phi(zero_r))), Poly.var(strip_mem(phi(other_r)))
        for bs in backs:
            news = [T.poly(_strip_int_casts(bs.env[zero_r])), T.poly(_strip_int_casts(bs.env[other_r]))]
            q = T.poly(("bin", "Div", phi(other_r), phi(zero_r)))
            want_small = [n_ - q * d_]
            ok_here = any((news[k] - d_).is_zero() and any((news[1 - k] - w).is_zero() for w in want_small) for k in (0, 1))
            step_ok = step_ok and ok_here
    if step_ok:
        col.ok("M3" + sfx, invb.loc(head), key + "|euclid-step", "(divisor, dividend) -> (dividend - q*divisor, divisor) with q = dividend / divisor; the loop ends when the divisor is 0")
    else:
        col.violation("M3" + sfx, key + "|euclid-step", invb.loc(head), "inv(): the remainders do not follow Euclid's step (dividend - (dividend / divisor) * divisor, divisor) until the divisor is 0: the surviving remainder is not gcd(self, M)")
    # the coefficient of the surviving remainder is what new() receives
    ret_ok = bool(fin) and zero_r is not None
    surv_c = (c2 if zero_r == r1 else c1) if zero_r is not None else None
    for st in fin:
        if _trivial_inverse_path(I, st):
            continue
        r = util.ret_term(st)
        a0 = _strip_int_casts(r[2][0]) if r[0] == "call" and r[2] else None
        ret_ok = ret_ok and a0 is not None and strip_mem(a0) == strip_mem(phi(surv_c))
    if ret_ok:
        col.ok("M3" + sfx, invb.loc(), key + "|returns-coefficient", "returns new(%s), the coefficient paired with the surviving remainder: result * self == gcd(self, M) (mod M)" % nm(surv_c))
    else:
        col.violation("M3" + sfx, key + "|returns-coefficient", invb.loc(), "inv() does not return the Bezout coefficient of the surviving remainder")
