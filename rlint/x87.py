"""E8 — parser for Intel-syntax x87 templates of `asm!` blocks and an abstract x87 stack machine
over symbolic operands.  Nothing is executed: instructions are interpreted on expression trees.

Values: ('mem', operand_index, width) for loads, ('op', name, a, b), ('neg', a),
('select', cond, a, b).  Flags: ('cmp', x, y) after fcom*/fucom*.  A condition is
(relation, value_when_unordered) with relation in gt/ge/lt/le/eq/ne on (x, y)."""
import re

WIDTH = {"TBYTE": 10, "QWORD": 8, "DWORD": 4, "WORD": 2}

# jcc/setcc/fcmovcc suffix -> (relation on (st0, other), truth when unordered)
CC = {
    "a": ("gt", False), "nbe": ("gt", False),
    "ae": ("ge", False), "nb": ("ge", False), "nc": ("ge", False),
    "b": ("lt", True), "nae": ("lt", True), "c": ("lt", True),
    "be": ("le", True), "na": ("le", True),
    "e": ("eq", True), "z": ("eq", True),
    "ne": ("ne", False), "nz": ("ne", False),
    "u": ("unordered", True), "p": ("unordered", True),
    "nu": ("ordered", False), "np": ("ordered", False),
}


class AsmError(Exception):
    pass


def render_template(template):
    """list of pieces -> list of instruction strings with {n} placeholders"""
    s = ""
    for p in template:
        if isinstance(p, str):
            s += p
        else:
            s += "{%d}" % p["operand"]
    return [l.strip() for l in re.split(r"[\n;]", s) if l.strip()]


def _st(tok):
    tok = tok.strip().lower()
    if tok in ("st", "st(0)"):
        return 0
    m = re.match(r"st\((\d)\)$", tok)
    if m:
        return int(m.group(1))
    return None


def _mem(tok):
    m = re.match(r"(TBYTE|QWORD|DWORD|WORD)\s+PTR\s+\[\{(\d+)\}\]$", tok.strip(), re.I)
    if m:
        return int(m.group(2)), WIDTH[m.group(1).upper()]
    return None


class Machine:
    def __init__(self):
        self.stack = []  # index 0 = st(0)
        self.flags = None
        self.stores = []  # (operand index, width, value)
        self.regs = {}  # register name -> condition
        self.maxdepth = 0
        self.trace = []

    def st(self, k):
        if k >= len(self.stack):
            raise AsmError("st(%d) referenced with only %d value(s) on the x87 stack" % (k, len(self.stack)))
        return self.stack[k]

    def push(self, v):
        self.stack.insert(0, v)
        self.maxdepth = max(self.maxdepth, len(self.stack))
        if len(self.stack) > 8:
            raise AsmError("x87 stack overflow (more than 8 values)")

    def pop(self):
        if not self.stack:
            raise AsmError("pop from an empty x87 stack")
        return self.stack.pop(0)

    def run(self, lines):
        for ln in lines:
            self.step(ln)
            self.trace.append((ln, list(self.stack)))
        return self

    def step(self, ln):
        m = re.match(r"([a-z0-9]+)\s*(.*)$", ln.strip(), re.I)
        if not m:
            raise AsmError("cannot parse `%s`" % ln)
        mn = m.group(1).lower()
        ops = [o.strip() for o in m.group(2).split(",")] if m.group(2).strip() else []
        if mn == "finit":
            self.stack = []
            return
        if mn == "fld":
            mem = _mem(ops[0]) if ops else None
            if mem:
                self.push(("mem", mem[0], mem[1]))
                return
            k = _st(ops[0]) if ops else None
            if k is not None:
                self.push(self.st(k))
                return
            if ops and ops[0].lower() in ("1", "fld1"):
                pass
            raise AsmError("unsupported fld operand `%s`" % ln)
        if mn in ("fld1", "fldz"):
            self.push(("const", 1 if mn == "fld1" else 0))
            return
        if mn in ("fstp", "fst"):
            mem = _mem(ops[0]) if ops else None
            if mem:
                self.stores.append((mem[0], mem[1], self.st(0)))
            else:
                k = _st(ops[0]) if ops else None
                if k is None:
                    raise AsmError("unsupported store operand `%s`" % ln)
                v = self.st(0)
                self.st(k)
                self.stack[k] = v
            if mn == "fstp":
                self.pop()
            return
        m2 = re.match(r"f(add|sub|mul|div)(r?)(p?)$", mn)
        if m2:
            op, rev, pop = m2.group(1), bool(m2.group(2)), bool(m2.group(3))
            if len(ops) == 2:
                d, s = _st(ops[0]), _st(ops[1])
            elif len(ops) == 0 and pop:
                d, s = 1, 0
            elif len(ops) == 1 and _mem(ops[0]):
                mem = _mem(ops[0])
                a, b = self.st(0), ("mem", mem[0], mem[1])
                self.stack[0] = ("op", op, b, a) if rev else ("op", op, a, b)
                return
            else:
                raise AsmError("unsupported operands `%s`" % ln)
            if d is None or s is None:
                raise AsmError("unsupported operands `%s`" % ln)
            a, b = self.st(d), self.st(s)
            # Intel syntax: dest = dest op src  (reversed forms: dest = src op dest)
            self.stack[d] = ("op", op, b, a) if rev else ("op", op, a, b)
            if pop:
                self.pop()
            return
        if mn == "fchs":
            self.stack[0] = ("neg", self.st(0))
            return
        if mn == "fabs":
            self.stack[0] = ("abs", self.st(0))
            return
        if mn == "fxch":
            k = _st(ops[0]) if ops else 1
            self.st(k)
            self.stack[0], self.stack[k] = self.stack[k], self.stack[0]
            return
        m3 = re.match(r"fu?comi(p?)$", mn)
        if m3:
            k = _st(ops[1]) if len(ops) == 2 else (_st(ops[0]) if ops else 1)
            self.flags = ("cmp", self.st(0), self.st(k))
            if m3.group(1):
                self.pop()
            return
        m4 = re.match(r"fcmov([a-z]+)$", mn)
        if m4:
            cc = m4.group(1)
            if cc not in CC or self.flags is None:
                raise AsmError("fcmov with unknown condition or without flags: `%s`" % ln)
            k = _st(ops[1]) if len(ops) == 2 else None
            if k is None:
                raise AsmError("unsupported operands `%s`" % ln)
            self.stack[0] = ("select", (CC[cc], self.flags), self.st(k), self.st(0))
            return
        m5 = re.match(r"set([a-z]+)$", mn)
        if m5:
            cc = m5.group(1)
            if cc not in CC or self.flags is None:
                raise AsmError("setcc with unknown condition or without flags: `%s`" % ln)
            self.regs[ops[0].lower()] = (CC[cc], self.flags)
            return
        raise AsmError("unsupported instruction `%s`" % ln)


def relation_between(cond, p, q):
    """cond = ((rel, unordered), ('cmp', x, y)): express as relation on (p, q) or None"""
    (rel, un), (_, x, y) = cond
    if (x, y) == (p, q):
        return rel, un
    if (x, y) == (q, p):
        return {"gt": "lt", "ge": "le", "lt": "gt", "le": "ge", "eq": "eq", "ne": "ne"}.get(rel, rel), un
    return None


def eval_select(v, order, p, q):
    """resolve ('select', cond, a, b) under a concrete ordering of (p, q): 'lt', 'gt', 'eq', 'un'"""
    if isinstance(v, tuple) and v and v[0] == "select":
        cond, a, b = v[1], v[2], v[3]
        r = relation_between(cond, p, q)
        if r is None:
            return None
        rel, un = r
        if order == "un":
            truth = un
        else:
            truth = {"gt": order == "gt", "ge": order in ("gt", "eq"), "lt": order == "lt", "le": order in ("lt", "eq"), "eq": order == "eq", "ne": order != "eq"}[rel]
        return eval_select(a if truth else b, order, p, q)
    return v
