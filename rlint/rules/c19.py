"""C19 — Tensor: per-dimension check before use, single access path, construction validation,
equality covers shape and data, row-major strides, rank witnesses.  See DESIGN.md §4 C19."""
import re
from .. import util, zones, witness
from ..absint import tstr, mk_int, subterms
from ..core import Anchor

PID = "C19"
LEVEL = "other"
CRATES = ["rlib_tensor"]
RELEASE = True
NO_HIDDEN_STATE = ['rlib_tensor']   # driver rule STATE: these crates are plain data structures / functions
DEPENDS = ["C08", "C09"]   # the property's read/write clauses run through these packs' code (rules reported as <PID>.<rule>)
ARMED = True
ENGINES = ["E1", "E3", "E4a", "E9"]
TECHNIQUE = "term-flow abstract interpretation of the flattening loop (loop-body transfer terms and entailed bound fact per dimension), who-may-index rule on the data vector, construction-site assertion facts, field-coverage of PartialEq, compile-fail rank witnesses"
LEVEL_TEXT = (
    "Structural necessary conditions decided on every path in both profiles: in the single flattening routine every loop iteration "
    "carries the fact idx[i] < dims[i] for the very i whose index is multiplied in, the loop ranges over all D dimensions last-first "
    "with result += stride*idx[i]; stride *= dims[i] from (0, 1) (row-major); the data vector is only indexed by that routine's "
    "result; all four construction sites assert non-zero extents and a matching length; the hand-written equality reads dims and data "
    "of both operands; a rank-mismatched index expression does not type-check; Writable::write puts at least one whitespace "
    "character between two consecutive elements on every path (a separator loop is shown to run at least once). The rest of the "
    "text layout of the IO round trip (which separator, line structure) is not decided."
)
LEVEL_NOTE = "trusted: rustc MIR, exporter, std axioms (Range/Rev iteration, Vec index); the assert!s are the release-profile checks too (they are not debug_assert!)"
EXPLANATION = (
    "Y1 check-before-use: every back-edge state of get_index's loop entails idx[i] < dims[i] for the loop element i used in the "
    "stride product, and the iterator is the full range 0..D. Y2 single access path: every Index/IndexMut call on the `data` field "
    "anywhere in the crate uses the result of get_index. Y3: each hand-written Tensor aggregate is reached only with the fact "
    "!dims.contains(&0) and either product(dims)==len or data built from product(dims). Y4: eq reads every field of both operands. "
    "Y5 row-major: reversed range, result' = result + sz*idx[i], sz' = sz*dims[i], initial (0,1); the writers step the index with "
    "rposition + fill(0) (last index fastest). Y6: compile-fail witness (rank-2 index on a rank-3 tensor, E0277) with compiling twin. "
    "Y7: every round of the element loop of Writable::write contains a write_char of ' '/'\\n'/'\\t'/'\\r', directly or in a separator "
    "loop / for_each over a range whose non-emptiness the path's facts entail (difference bounds, or `0..n` with n tested unequal to 0). "
    "NOT decided: text layout of the IO round trip."
)
UNDECIDED = ["text layout (separators) of the IO round trip", "that distinct valid multi-indices give distinct offsets as a value statement (follows from Y1+Y5 by positional-notation arithmetic, not re-proved)"]
ASSUMPTIONS = ["no usize overflow of the flattened offset (checked in dev profile)"]
FIXTURES = [
    ("c19_bad_check_last_only", "bad", ["Y1"]),
    ("c19_bad_index_mut_inline", "bad", ["Y2"]),
    ("c19_bad_from_slice_no_len", "bad", ["Y3"]),
    ("c19_bad_from_vec_truncates", "bad", ["Y3"]),
    ("c19_bad_eq_data_only", "bad", ["Y4"]),
    ("c19_bad_column_major", "bad", ["Y5"]),
    ("c19_good_debug_names", "good", []),
]


def check(col, prog, tier, profile, fixture=None):
    crate = prog.crate(fixture or "rlib_tensor")
    sfx = "" if profile == "dev" else "@" + profile
    fk = util.fkey
    adt = util.need_adt(crate, "Tensor")
    # the two private fields by what they are (the extents: an array of usize; the elements: a Vec), not by name
    ftys = [str(f["ty"]).replace("alloc::", "std::") for f in util.fields_of(adt)]
    dims_ = [i for i, t in enumerate(ftys) if t.startswith("[usize;")]
    data_ = [i for i, t in enumerate(ftys) if t.startswith("std::vec::Vec<")]
    if len(dims_) != 1 or len(data_) != 1:
        raise Anchor("Tensor is expected to have fields dims and data")
    DIMS, DATA = dims_[0], data_[0]
    gi = util.need_body(crate, "Tensor::<T, D>::get_index")
    col.rule("Y7" + sfx, "Writable::write: between two consecutive elements at least one whitespace character is written on every path (a separator loop is shown to run at least once)", floor=2)
    col.rule("Y1" + sfx, "every iteration of the flattening loop entails idx[i] < dims[i] for the i it uses; loop covers 0..D", floor=2)
    col.rule("Y2" + sfx, "the data vector is indexed only by the flattening routine's result", floor=2)
    col.rule("Y3" + sfx, "every construction asserts non-zero extents and matching length", floor=4)
    col.rule("Y4" + sfx, "PartialEq::eq reads every field of both operands", floor=2)
    col.rule("Y5" + sfx, "row-major: reversed range, result += sz*idx[i], sz *= dims[i], from (0,1)", floor=3)

    # ---------------- Y1 / Y5 on get_index
    I = util.analyse(gi)
    selfp = ("deref", ("param", 1, I.names.get(1)))
    idxp = ("param", 2, I.names.get(2))
    res_l, sz_l = gi.local_by_name("result"), None
    backs = [s for l in I.backedge_states.values() for s in l]
    has_range = any(isinstance(v, tuple) and v and v[0] == "rangeiter" for st in backs + I.final_states for v in st.env.values())
    if not has_range:
        # the dimensions are walked with idx.iter().zip(self.dims.iter()) [.rev()], in a loop or a fold
        _zip_forms(col, crate, I, gi, selfp, idxp, DIMS, sfx)
    elif not backs or len(I.loops) != 1:
        col.violation("Y1" + sfx, "%s|loop" % fk(gi), gi.loc(), "get_index is expected to be one loop over the dimensions")
        return
    if has_range:
        _range_form(col, I, gi, selfp, idxp, DIMS, sfx, backs)
    _rest(col, crate, adt, gi, DIMS, DATA, sfx)


def _range_form(col, I, gi, selfp, idxp, DIMS, sfx, backs):
    fk = util.fkey
    head = list(I.loops)[0]
    # the range
    rng = None
    for st in backs + I.final_states:
        for l, v in st.env.items():
            if isinstance(v, tuple) and v and v[0] == "rangeiter":
                rng = v
    gn_ = util.generic_names(gi.crate, "Tensor")
    D = ("gparam", gn_[-1] if gn_ else "D")   # the rank: Tensor's const parameter, whatever it is called
    if rng is None or rng[1] != mk_int(0) or rng[2] != D:
        col.violation("Y1" + sfx, "%s|range" % fk(gi), gi.loc(), "the flattening loop does not range over all dimensions 0..D (found %s)" % (tstr(rng) if rng else "no range iterator"))
    else:
        col.ok("Y1" + sfx, gi.loc(), "%s|range-0..D" % fk(gi), "iterator ranges over [0, D)")
    # accumulator locals: those returned / multiplied
    fin = [s for s in I.final_states]
    acc = None
    for st in fin:
        r = util.ret_term(st)
        if r[0] == "phi" and r[1] == head:
            acc = r[2]
    if acc is None:
        col.violation("Y5" + sfx, "%s|accumulator" % fk(gi), gi.loc(), "get_index does not return the loop's accumulator")
        return
    for n, st in enumerate(backs):
        new = st.env.get(acc)
        old = ("phi", head, acc)
        # new = old + stride * idx[i]
        d = zones.lin_sub(zones.linearize(new), zones.linearize(old))
        prod = [a for a in d[0] if d[0][a] == 1]
        ok5 = len(d[0]) == 1 and d[1] == 0 and prod and prod[0][0] == "bin" and prod[0][1] == "Mul"
        key = "%s|iteration" % fk(gi)
        if not ok5:
            col.violation("Y5" + sfx, key, gi.loc(), "accumulator update is not result += stride * idx[i]: %s" % tstr(new))
            continue
        m = prod[0]
        fa, fb = m[2], m[3]
        stride, idxi = (fa, fb) if fa[0] == "phi" else (fb, fa)
        ok5 = stride[0] == "phi" and stride[1] == head and idxi[0] == "idx" and idxi[1] == idxp and idxi[2][0] == "elem"
        if not ok5:
            col.violation("Y5" + sfx, key, gi.loc(), "accumulator update multiplies %s by %s, expected loop-carried stride times idx[i]" % (tstr(fa), tstr(fb)))
            continue
        i = idxi[2]
        sl = stride[2]
        newsz = st.env.get(sl)
        dims_i = None
        ok_sz = newsz[0] == "bin" and newsz[1] == "Mul" and stride in (newsz[2], newsz[3])
        if ok_sz:
            dims_i = newsz[3] if newsz[2] == stride else newsz[2]
            ok_sz = dims_i[0] == "load" and dims_i[2] == ("index", ("field", selfp, DIMS), i)
        rev = rng is not None and rng[3] == "rev"
        if ok_sz and rev:
            col.ok("Y5" + sfx, gi.loc(), key, "result += sz*idx[i]; sz *= dims[i]; i descending")
        else:
            col.violation("Y5" + sfx, key, gi.loc(), "strides are not row-major: %s" % ("loop runs first dimension first (column-major)" if ok_sz and not rev else "stride update is %s, expected sz * dims[i] for the same i" % tstr(newsz)))
        # Y1: fact idx[i] < dims[i]
        z = zones.zone_of(st.facts, I.tys)
        want_pl = ("index", ("field", selfp, DIMS), i)
        cands = {s for f in st.facts for s in subterms(f[1]) if s[0] == "load" and s[2] == want_pl}
        if dims_i is not None:
            cands.add(dims_i)
        no_stores = not any(e.kind == "store" for e in st.event_list())
        want_dims = ("load", None, want_pl)
        if no_stores and any(z.entails("Lt", idxi, c) for c in cands):
            col.ok("Y1" + sfx, gi.loc(), "%s|bound-fact" % fk(gi), "every continuing iteration entails %s < %s" % (tstr(idxi), tstr(want_dims)))
        else:
            col.violation("Y1" + sfx, "%s|bound-fact" % fk(gi), gi.loc(), "an iteration of the flattening loop uses idx[i] without the fact idx[i] < dims[i] for the same i: an index out of range in one dimension aliases another element instead of panicking", {"facts": [(f[0], tstr(f[1]), f[2]) for f in st.facts]})
    # initial values
    pre = None
    for st in I.block_states.get(head, []):
        pass
    ent = I.loop_entry.get(head) if hasattr(I, "loop_entry") else None
    if ent:
        e = ent[0]
        init_ok = e.get(acc) == mk_int(0)
        others = [v for l, v in e.items() if l != acc and v == mk_int(1)]
        if init_ok and others:
            col.ok("Y5" + sfx, gi.loc(), "%s|initial" % fk(gi), "result = 0, stride = 1 before the loop")
        else:
            col.violation("Y5" + sfx, "%s|initial" % fk(gi), gi.loc(), "accumulator/stride are not initialised to (0, 1)")



def _rest(col, crate, adt, gi, DIMS, DATA, sfx):
    fk = util.fkey
    # ---------------- Y2
    nidx = 0
    for b in crate.bodies:
        imp = crate.impl_of(b)
        if imp is not None and imp.get("derived"):
            continue
        try:
            Ib = util.analyse(b)
        except Exception:
            continue
        seen = set()
        for st, ev in Ib.call_events(lambda e: e.extra.get("name") in ("index", "index_mut", "get", "get_mut", "get_unchecked", "get_unchecked_mut")):
            base = ev.args[0]
            if base[0] != "ref":
                continue
            pl = base[1]
            if not (pl[0] == "field" and pl[2] == DATA and _is_tensor_place(Ib, pl[1])):
                continue
            ix = ev.args[1]
            if (ev.bb, ix) in seen:
                continue
            seen.add((ev.bb, ix))
            nidx += 1
            ok = ix[0] == "call" and ix[1] in (gi.path, gi.key)
            loc = b.loc(ev.bb)
            if ok:
                col.ok("Y2" + sfx, loc, "%s|data[get_index]" % fk(b), "index is get_index(..)")
            else:
                col.violation("Y2" + sfx, "%s|data-indexed-directly" % fk(b), loc, "%s indexes the data vector with %s, not with the checked flattening routine's result" % (b.path, tstr(ix)))

    # ---------------- Y3
    def _agg_sites(b_):
        return [(bb, idx) for bb, idx, s in b_.statements() if s["k"] == "assign" and s["rv"]["k"] == "agg" and s["rv"]["ak"]["k"] == "adt" and s["rv"]["ak"]["def"] == adt["key"]]

    y3_helpers = util.private_helpers(crate, "Tensor", exclude=[gi]) + [f_ for f_ in crate.bodies if not f_.is_closure and f_.kind == "Fn" and f_.container is None and f_.vis != "pub" and not util.self_recursive(f_)]
    y3_helper_keys = {h.key for h in y3_helpers}
    clone_ok = util.structural_clone_bodies(crate, adt)   # a hand-written Clone verified to copy dims and data field by field
    for b in crate.bodies:
        imp = crate.impl_of(b)
        if (imp is not None and imp.get("derived")) or b.key in clone_ok:
            continue
        if b.key in y3_helper_keys:
            continue  # a private constructor helper is judged in the context of each of its callers
        sites = _agg_sites(b)
        if not sites:
            # a constructor that builds the aggregate in a private helper
            via = [h for h in util.helper_callees(crate, b, y3_helpers) if _agg_sites(h)]
            if not via:
                # a constructor that hands its arguments to another, judged, constructor and returns what that one returns
                # (`from_slice(dims, data)` = `from_vec(dims, data.to_vec())`)
                if b.vis == "pub" and not b.is_closure and str(b.locals[0]["ty"]).split("<")[0].endswith(("Tensor", "Self")):
                    Id = util.analyse(b)
                    judged = {x.key for x in crate.bodies if _agg_sites(x) and x.key not in y3_helper_keys}
                    dl = []
                    for st in Id.final_states:
                        r_ = util.ret_term(st)
                        cs = [e for e in st.event_list() if e.kind == "call" and e.res == r_ and (e.fn.get("resolved") or e.fn).get("def") in judged]
                        dl.append(bool(cs))
                    if dl and all(dl):
                        col.ok("Y3" + sfx, b.loc(), "%s|construction" % fk(b), "returns what another (judged) constructor returns")
                continue
            sites = [(0, None)]
        Ib = util.analyser(y3_helpers)(b)
        for st in Ib.final_states:
            ret = util.ret_term(st)
            if not (ret[0] == "agg" and ret[1][0] == "adt" and ret[1][1].endswith("Tensor")):
                continue
            dims, data = ret[2][DIMS], ret[2][DATA]
            zero_ok = False
            len_ok = False
            truncated = False
            # parameters that carry the caller's data (a Vec, a slice, an iterator): its length is what must be compared
            # (a parameter of a bare generic type other than the element type - `I: IntoIterator<Item = T>` - carries data too)
            m_el = re.search(r"<\s*([A-Za-z_]\w*)", str(b.locals[0]["ty"]))
            el_ty = m_el.group(1) if m_el else None
            data_params = [("param", k_, Ib.names.get(k_)) for k_ in range(1, b.arg_count + 1) if _carries_data(str(b.locals[k_]["ty"])) or (re.fullmatch(r"[A-Z]\w*", str(b.locals[k_]["ty"])) and str(b.locals[k_]["ty"]) not in (el_ty, "Self"))]
            for f in st.facts:
                t = f[1]
                if t[0] == "call" and str(t[1]).endswith("::contains") and f[0] == "eq" and f[2] == 0:
                    if ("ref", ("constval", mk_int(0))) in t[2] and any(_reads(a, dims, Ib, st) for a in t[2]):
                        zero_ok = True
                # dims.iter().all(|&d| d != 0)
                if t[0] == "call" and str(t[1]).endswith("::all") and ((f[0] == "eq") == bool(f[2])):
                    over_dims = any(x == dims or (x[0] == "ref" and _reads(x, dims, Ib, st)) for x in subterms(t))
                    for e_ in st.event_list():
                        if e_.kind == "call" and e_.res == t:
                            for av in (e_.extra.get("argvals") or []):
                                if isinstance(av, tuple) and any(x == dims or (x[0] == "ref" and x[1] == ("constval", dims)) for x in [av] + list(subterms(av))):
                                    over_dims = True
                    clo = [x for x in t[2] if isinstance(x, tuple) and x and x[0] == "agg" and isinstance(x[1], tuple) and x[1][0] == "closure"]
                    nz = False
                    if clo:
                        cb = crate.by_key.get(clo[0][1][1])
                        if cb is not None:
                            Ic = util.analyse(cb)
                            def _nonzero_test(r_):
                                # d != 0, d > 0, 0 < d, d >= 1 (extents are unsigned)
                                return r_[0] == "bin" and ((r_[1] in ("Ne", "Gt") and r_[3] == mk_int(0)) or (r_[1] in ("Ne", "Lt") and r_[2] == mk_int(0)) or (r_[1] == "Ge" and r_[3] == mk_int(1)) or (r_[1] == "Le" and r_[2] == mk_int(1)))
                            nz = bool(Ic.final_states) and all(_nonzero_test(util.ret_term(fs)) for fs in Ic.final_states)
                    if over_dims and nz:
                        zero_ok = True
                if t[0] == "bin" and t[1] == "Eq" and f[0] == "eq" and f[2] == 1:
                    sides = (t[2], t[3])
                    if any(_is_product_of(s, dims) for s in sides) and any(s[0] == "len" and (not data_params or _whole_input(s[1], data_params)) for s in sides):
                        len_ok = True
                    elif any(_is_product_of(s, dims) for s in sides) and any(s[0] == "len" for s in sides):
                        truncated = True
            if not len_ok and not data_params:
                # no input data to reject (new, read): data built with length product(dims)
                for s in subterms(data):
                    if s[0] == "call" and any(_is_product_of(a, dims) for a in s[2] if isinstance(a, tuple)):
                        len_ok = True
            key = "%s|construction" % fk(b)
            loc = b.loc(sites[0][0], sites[0][1])
            if zero_ok and len_ok:
                col.ok("Y3" + sfx, loc, key, "non-zero extents asserted; length tied to product(dims)")
            else:
                col.violation("Y3" + sfx, key, loc, "%s constructs a Tensor without %s" % (b.path, " and ".join(x for x, ok in (("rejecting zero extents", zero_ok), ("tying the data length to the product of the extents" + (" (the length compared is that of a collection already cut to the product by take/skip/filter, not of the caller's data: overlong input is silently truncated)" if truncated else ""), len_ok)) if not ok)))

    # ---------------- Y4
    eqb = None
    for b in crate.bodies:
        imp = crate.impl_of(b)
        if imp is not None and imp.get("trait") == "std::cmp::PartialEq" and b.name == "eq" and imp.get("self_adt") == adt["key"]:
            eqb = (b, imp)
    if eqb is None:
        raise Anchor("no PartialEq impl for Tensor")
    b, imp = eqb
    if imp.get("derived"):
        col.ok("Y4" + sfx, b.loc(), "%s|derived" % fk(b), "derived PartialEq covers all fields")
        col.ok("Y4" + sfx, b.loc(), "%s|derived-2" % fk(b), "derived", nontrivial=False)
    else:
        Ib = util.analyse(b)
        seen = set()
        for st in Ib.final_states:
            terms = [f[1] for f in st.facts] + [util.ret_term(st)]
            for t in terms:
                for s in subterms(t):
                    if s[0] == "field" and s[1][0] == "deref" and s[1][1][0] == "param":
                        seen.add((s[1][1][1], s[2]))
        for fidx, fname in ((DIMS, "dims"), (DATA, "data")):
            ok = (1, fidx) in seen and (2, fidx) in seen
            key = "%s|reads-%s" % (fk(b), fname)
            if ok:
                col.ok("Y4" + sfx, b.loc(), key, "compares %s of both operands" % fname)
            else:
                col.violation("Y4" + sfx, key, b.loc(), "Tensor equality never compares `%s`: tensors with different %s compare equal" % (fname, "shapes" if fname == "dims" else "elements"))

        # ... and the verdict is their conjunction: `true` only when both comparisons say equal, `false` only when one
        # of them says different (`||` instead of `&&` makes tensors of one shape with different contents equal)
        def cmp_of(t):
            """(field index, polarity) when t is an eq/ne call comparing the same field of both operands"""
            if not (isinstance(t, tuple) and t and t[0] == "call" and str(t[1]).rsplit("::", 1)[-1] in ("eq", "ne")):
                return None
            flds = {(s_[1][1][1], s_[2]) for a_ in t[2] for s_ in [a_] + list(subterms(a_)) if isinstance(s_, tuple) and s_ and s_[0] == "field" and s_[1][0] == "deref" and s_[1][1][0] == "param"}
            for fidx in (DIMS, DATA):
                if flds == {(1, fidx), (2, fidx)}:
                    return fidx, str(t[1]).endswith("::eq")
            return None

        conj_ok = bool(Ib.final_states)
        for st in Ib.final_states:
            known = {}
            for f in st.facts:
                c_ = cmp_of(f[1])
                if c_ is not None and f[0] in ("eq", "ne") and f[2] in (0, 1):
                    truth = (f[0] == "eq") == bool(f[2])
                    known[c_[0]] = truth if c_[1] else not truth
            r = util.ret_term(st)
            rc = cmp_of(r)
            if r == mk_int(1):
                conj_ok = conj_ok and known.get(DIMS) is True and known.get(DATA) is True
            elif r == mk_int(0):
                conj_ok = conj_ok and (known.get(DIMS) is False or known.get(DATA) is False)
            elif rc is not None and rc[1]:
                other = DATA if rc[0] == DIMS else DIMS
                conj_ok = conj_ok and known.get(other) is True
            elif r[0] == "bin" and r[1] == "BitAnd" and {(cmp_of(r[2]) or (None, None))[0], (cmp_of(r[3]) or (None, None))[0]} == {DIMS, DATA} and cmp_of(r[2])[1] and cmp_of(r[3])[1]:
                pass
            else:
                conj_ok = False
        key = "%s|conjunction" % fk(b)
        if conj_ok:
            col.ok("Y4" + sfx, b.loc(), key, "equal exactly when shapes and elements are equal")
        else:
            col.violation("Y4" + sfx, key, b.loc(), "Tensor equality is not the conjunction of the shape comparison and the element comparison: some path answers `true` with one of them unequal, or `false` with both equal")

    # ---------------- Y5b writers step the last index fastest
    helpers_ = util.private_helpers(crate, "Tensor", exclude=[gi])
    # (a private free function over the bare arrays - `last_unfinished_axis(&idx, &dims)` - is a step of its callers too)
    helpers_ = helpers_ + [f_ for f_ in crate.bodies if not f_.is_closure and f_.kind == "Fn" and f_.container is None and f_.vis != "pub" and not util.self_recursive(f_) and f_.key not in {h.key for h in helpers_}]
    hkeys = {h.key for h in helpers_}
    called_helpers = {util.callee_key(t) for x in crate.bodies for bb, t in x.calls()} & hkeys
    for b in crate.bodies:
        if b.is_closure:
            continue
        if b.key in called_helpers:
            continue  # a private helper: judged together with the functions that call it
        names_ = [t["fn"].get("name") for bb, t in b.calls()]
        for h in util.helper_callees(crate, b, helpers_):
            names_ += [t["fn"].get("name") for bb, t in h.calls()]
        if "rposition" in names_ or "position" in names_:
            zeroing = "fill" in names_
            if not zeroing:
                # an explicit loop writing 0 behind the incremented position
                for wb_ in [b] + util.helper_callees(crate, b, helpers_):
                    Iw = util.analyser(helpers_)(wb_)
                    zeroing = zeroing or any(e.kind == "store" and e.val == mk_int(0) for l in list(Iw.backedge_states.values()) + [Iw.inl_back] for st_ in l for e in st_.event_list())
            ok = "rposition" in names_ and "position" not in names_ and zeroing
            key = "%s|steps-last-index-fastest" % fk(b)
            if ok:
                col.ok("Y5" + sfx, b.loc(), key, "next index = rposition(not saturated) + 1, zero-fill behind", nontrivial=False)
            else:
                col.violation("Y5" + sfx, key, b.loc(), "%s does not advance the multi-index last-dimension-fastest (rposition + fill(0))" % b.path)

    # ---------------- Y7 something is written between two consecutive elements (write -> read round trip)
    WS = {mk_int(c) for c in (32, 10, 9, 13)}
    def _is_ws(e):
        return e.kind == "call" and e.extra.get("name") == "write_char" and len(e.args) > 1 and e.args[1] in WS
    def _is_elem(e):
        return e.kind == "call" and e.extra.get("name") == "write" and "Writer" in str(e.extra.get("gpath") or "")
    for b in crate.bodies:
        imp = crate.impl_of(b)
        if b.is_closure or b.name != "write" or imp is None or not str(imp.get("trait") or "").endswith("Writable") or imp.get("self_adt") != adt["key"]:
            continue
        Iw = util.analyser(helpers_)(b)
        backs = [(hd, st_) for hd, l in Iw.backedge_states.items() for st_ in l]
        nj = 0
        for hd, st_ in backs:
            evs = st_.event_list()
            marks = [i for i, e in enumerate(evs) if e.kind == "loop" and e.bb == hd]
            if not marks:
                continue
            seg = evs[marks[-1] + 1:]          # one round of the loop `hd`
            if not any(_is_elem(e) for e in seg):
                continue    # a round of a loop that writes no element: an iteration of a separator loop
            nj += 1
            key = "%s|separator" % fk(b)
            z_ = zones.zone_of(st_.facts, Iw.tys)

            def _nonempty(rng_):
                if z_.entails("Lt", rng_[0], rng_[1]):
                    return True
                # `0..n` with n a value the path has tested unequal to zero (`pos + 1 != D` for `0..D - pos - 1`, the
                # `otherwise` arm of `match D - pos - 1 { 0 => .. }`): in unsigned arithmetic n is then positive - or its
                # subtraction overflowed, which is a panic or a wrapped, huge count, never zero
                if rng_[0] != mk_int(0):
                    return False
                la_ = zones.linearize(rng_[1])
                if la_ is None or not la_[0]:
                    return False
                n_ = ({x: -c for x, c in la_[0].items()}, -la_[1])
                return any(zones._same_lin(q_, la_) or zones._same_lin(q_, n_) for q_ in z_.diseq)

            def _range_of(t):
                for x in [t] + list(subterms(t)):
                    if isinstance(x, tuple) and x and x[0] == "agg" and isinstance(x[1], tuple) and len(x[1]) > 1 and str(x[1][1]).endswith("ops::Range"):
                        return x[2]
                    if isinstance(x, tuple) and x and x[0] == "rangeiter":
                        return (x[1], x[2])
                return None

            proven, why = False, "nothing is written between this element and the next"
            for j, e in enumerate(seg):
                if _is_ws(e):
                    proven, why = True, "a whitespace character is written in every round on this path"
                    break
                if e.kind == "loop":
                    its = Iw.backedge_states.get(e.bb) or []
                    every = bool(its)
                    for it in its:
                        ie = it.event_list()
                        li = max(i for i, x in enumerate(ie) if x.kind == "loop")
                        every = every and any(_is_ws(x) for x in ie[li + 1:])
                    rng = None
                    for x in reversed(seg[:j]):
                        if x.kind == "call" and x.extra.get("name") == "into_iter" and x.args and _range_of(x.args[0]) is not None:
                            rng = _range_of(x.args[0])
                            break
                elif e.kind == "call" and e.extra.get("name") in ("for_each", "try_for_each") and len(e.args) > 1:
                    rng = _range_of(e.args[0])
                    clo = [x for x in e.args[1:] if isinstance(x, tuple) and x and x[0] == "agg" and isinstance(x[1], tuple) and x[1][0] == "closure"]
                    cb = crate.by_key.get(clo[0][1][1]) if clo else None
                    every = False
                    if cb is not None:
                        Ic = util.analyser(helpers_)(cb)
                        every = bool(Ic.final_states) and all(any(_is_ws(x) for x in fs.event_list()) for fs in Ic.final_states)
                else:
                    continue
                if every and rng is not None and _nonempty(rng):
                    proven, why = True, "the separators over %s..%s: a whitespace character per round, at least one round" % (tstr(rng[0]), tstr(rng[1]))
                    break
                elif every:
                    why = "the separators after this element are written by a loop that the path does not show to run at least once (%s): when it runs zero times two elements are written back to back and read back as one token" % ("over %s..%s" % (tstr(rng[0])[:60], tstr(rng[1])[:120]) if rng else "not a range of known bounds")
            if not proven and any(e.kind == "call" and e.extra.get("name") == "enumerate" for e in evs[:marks[-1]]):
                # `for (k, x) in data.iter().enumerate() { if k != 0 { separators } write(x) }`: the round without a
                # separator is the one whose enumeration index is 0 - the first, with no element before it
                for f_ in st_.facts:
                    t_ = f_[1]
                    if isinstance(t_, tuple) and t_ and t_[0] == "bin" and t_[1] in ("Ne", "Eq") and t_[3] == mk_int(0) and f_[0] == "eq" and f_[2] == (0 if t_[1] == "Ne" else 1):
                        ts_ = tstr(t_[2])
                        if ts_.startswith("(next(") and ts_.endswith(".0.0"):
                            proven, why = True, "the round without a separator is the first (enumeration index 0)"
            if proven:
                col.ok("Y7" + sfx, b.loc(), key, why)
            else:
                col.violation("Y7" + sfx, key, b.loc(), "%s: %s" % (b.path, why))
        if nj == 0:
            col.violation("Y7" + sfx, "%s|separator|loop" % fk(b), b.loc(), "%s: no loop writing the elements one after another was found" % b.path)


def _is_sum(t, a, b):
    return isinstance(t, tuple) and t and t[0] == "bin" and t[1] == "Add" and ((t[2] == a and t[3] == b) or (t[2] == b and t[3] == a))


def _prod_of(t):
    return (t[2], t[3]) if isinstance(t, tuple) and t and t[0] == "bin" and t[1] == "Mul" else None


def _zip_forms(col, crate, I, gi, selfp, idxp, DIMS, sfx):
    """get_index written over idx.iter().zip(self.dims.iter()) [.rev()]: a for loop, or a fold with a closure"""
    fk = util.fkey

    def classify(src):
        # iter(&X) / into_iter(&X), or &X itself where zip takes any IntoIterator (`idx.iter().zip(&self.dims)`)
        if isinstance(src, tuple) and src and src[0] == "ref":
            a = src
        elif not (isinstance(src, tuple) and src and src[0] == "call" and str(src[1]).split("::")[-1] in ("iter", "into_iter")):
            return None
        else:
            a = src[2][0]
        if a[0] == "ref":
            pl = a[1]
            if pl == ("field", selfp, DIMS):
                return "dims"
            if pl == ("constval", idxp) or pl == ("local", 2):
                return "idx"
        return None

    chain = None
    for st in I.all_end_states():
        for e in st.event_list():
            if e.kind == "call" and e.extra.get("name") == "zip":
                ka, kb = classify(e.args[0]), classify(e.args[1])
                if {ka, kb} == {"idx", "dims"}:
                    rev = any(x.kind == "call" and x.extra.get("name") == "rev" and any(y == e.res for y in [x.args[0]] + list(subterms(x.args[0]))) for x in st.event_list())
                    chain = (e, ka, kb, rev)
    if chain is None:
        col.violation("Y1" + sfx, "%s|loop" % fk(gi), gi.loc(), "get_index neither ranges over 0..D nor zips the index with the extents")
        return
    zev, ka, kb, rev = chain
    # every position is walked: between the zip and its consumer only order-changing adaptors may sit - a `filter`,
    # `skip`, `take`, `step_by` .. leaves dimensions out of the offset (extent-1 axes "that never move it" still carry
    # the bound check, and every later extent still multiplies)
    dropped = set()
    for st in I.all_end_states():
        derived = {zev.res}
        for e in st.event_list():
            if e.kind != "call" or not e.args:
                continue
            if any(y in derived for y in [e.args[0]] + list(subterms(e.args[0]))):
                nm_ = e.extra.get("name")
                if nm_ in ("rev", "into_iter", "by_ref", "enumerate"):
                    derived.add(e.res)
                elif nm_ not in ("fold", "next", "for_each", "try_fold", "next_back", "size_hint", "len"):
                    dropped.add(nm_)
                    derived.add(e.res)
    if dropped:
        col.violation("Y1" + sfx, "%s|range-0..D" % fk(gi), gi.loc(), "the walk over (index, extent) pairs goes through %s: dimensions can be left out of the offset and of the bound check" % ", ".join(sorted(str(x) for x in dropped)))
        return
    col.ok("Y1" + sfx, gi.loc(), "%s|range-0..D" % fk(gi), "idx and dims (both of length D) are walked in lock step%s" % (", last dimension first" if rev else ""))
    pos = {ka: 0, kb: 1}
    paths = []   # (Interp, facts, old_acc, new_acc, idx_val, dims_val, stride_old, stride_new, init_ok)
    backs = [s_ for l in I.backedge_states.values() for s_ in l]
    if backs and len(I.loops) == 1:
        head = list(I.loops)[0]
        acc = None
        for st in I.final_states:
            r = util.ret_term(st)
            if r[0] == "phi" and r[1] == head:
                acc = r[2]
        if acc is None:
            col.violation("Y5" + sfx, "%s|accumulator" % fk(gi), gi.loc(), "get_index does not return the loop's accumulator")
            return
        ent = (I.loop_entry.get(head) or [{}])[0]
        for st in backs:
            nx = [e for e in st.event_list() if e.kind == "call" and e.extra.get("name") == "next"]
            if not nx:
                continue
            P = ("proj", 0, ("down", nx[-1].res, 1))
            comp = lambda k: ("proj", pos[k], P)
            val = lambda k: [t for f in st.facts for t in subterms(f[1]) if t[0] == "load" and t[2] == ("deref", comp(k))] + [t for v in st.env.values() if isinstance(v, tuple) for t in [v] + list(subterms(v)) if t[0] == "load" and t[2] == ("deref", comp(k))]
            iv, dv = val("idx"), val("dims")
            if not iv or not dv:
                col.violation("Y5" + sfx, "%s|iteration" % fk(gi), gi.loc(), "the loop body does not read the zipped (index, extent) pair")
                return
            strides = [l for l, v in st.env.items() if l != acc and isinstance(v, tuple) and _prod_of(v) and ("phi", head, l) in _prod_of(v)]
            sl = strides[0] if strides else None
            paths.append((I, st.facts, ("phi", head, acc), st.env.get(acc), iv[0], dv[0], ("phi", head, sl) if sl is not None else None, st.env.get(sl) if sl is not None else None, ent.get(acc) == mk_int(0) and (sl is None or ent.get(sl) == mk_int(1))))
    else:
        # fold(init, closure)
        for st in I.final_states:
            r = util.ret_term(st)
            if r[0] == "call" and str(r[1]).endswith("::fold") and len(r[2]) >= 3:
                init, clo = r[2][1], r[2][2]
                cb = crate.by_key.get(clo[1][1]) if clo[0] == "agg" and isinstance(clo[1], tuple) and clo[1][0] == "closure" else None
                if cb is None:
                    continue
                Ic = util.analyse(cb)
                accp, item = ("param", 2, Ic.names.get(2)), ("param", 3, Ic.names.get(3))
                for fs in Ic.final_states:
                    ld = lambda k: ("load", ("m0",), ("deref", ("proj", pos[k], item)))
                    paths.append((Ic, fs.facts, accp, util.ret_term(fs), ld("idx"), ld("dims"), None, None, init == mk_int(0)))
    if not paths:
        col.violation("Y5" + sfx, "%s|iteration" % fk(gi), gi.loc(), "cannot find the per-dimension update of get_index")
        return
    for (Ix, facts, old, new, iv, dv, s_old, s_new, init_ok) in paths:
        z = zones.zone_of(facts, Ix.tys)
        if z.entails("Lt", iv, dv):
            col.ok("Y1" + sfx, gi.loc(), "%s|bound-fact" % fk(gi), "every continuing iteration entails %s < %s" % (tstr(iv), tstr(dv)))
        else:
            col.violation("Y1" + sfx, "%s|bound-fact" % fk(gi), gi.loc(), "an iteration of the flattening loop uses an index component without the fact index < extent for the same dimension: an index out of range in one dimension aliases another element instead of panicking", {"facts": [(f[0], tstr(f[1]), f[2]) for f in facts]})
        key = "%s|iteration" % fk(gi)
        horner = _is_sum(new, ("bin", "Mul", old, dv), iv) or _is_sum(new, ("bin", "Mul", dv, old), iv)
        strided = s_old is not None and (_is_sum(new, old, ("bin", "Mul", s_old, iv)) or _is_sum(new, old, ("bin", "Mul", iv, s_old))) and s_new in (("bin", "Mul", s_old, dv), ("bin", "Mul", dv, s_old))
        if horner and not rev:
            col.ok("Y5" + sfx, gi.loc(), key, "offset = offset * extent + i, first dimension first (Horner form of the row-major offset)")
        elif strided and rev:
            col.ok("Y5" + sfx, gi.loc(), key, "result += stride*i; stride *= extent; last dimension first")
        else:
            col.violation("Y5" + sfx, key, gi.loc(), "strides are not row-major: %s" % ("the Horner form must run first dimension first / the stride form last dimension first (this is column-major)" if (horner or strided) else "update is %s" % tstr(new)))
        if init_ok:
            col.ok("Y5" + sfx, gi.loc(), "%s|initial" % fk(gi), "accumulator starts at 0 (stride at 1)")
        else:
            col.violation("Y5" + sfx, "%s|initial" % fk(gi), gi.loc(), "accumulator/stride are not initialised to (0, 1)")


def _is_tensor_place(I, pl):
    return True


def _reads(a, dims, I, st):
    """a is a reference whose referent equals the dims value"""
    if a[0] == "ref":
        try:
            return I.read_pl(st, a[1]) == dims
        except Exception:
            return False
    return False


def _carries_data(ty):
    ty = ty.replace("alloc::", "std::")
    if ty.startswith("[usize;") or "Reader" in ty:
        return False
    return ty.startswith(("std::vec::Vec<", "&[", "&mut [", "&std::vec::Vec<")) or "IntoIterator" in ty or "Iterator<" in ty


_LEN_PRESERVING = ("to_vec", "collect", "into_iter", "iter", "cloned", "copied", "map", "rev", "clone", "into_vec", "to_owned", "into_boxed_slice", "from", "into", "deref", "as_slice", "from_iter")


def _whole_input(x, data_params):
    """x is one of the caller's data parameters, or a collection built from it by length-preserving steps only
    (no take / skip / filter / step_by / chain / zip ...)"""
    for _ in range(12):
        if x in data_params:
            return True
        if not isinstance(x, tuple) or not x:
            return False
        if x[0] == "ref":
            x = x[1]
            continue
        if x[0] in ("deref", "constval"):
            x = x[1]
            continue
        if x[0] == "load":
            x = x[2]
            continue
        if x[0] == "call":
            if str(x[1]).split("::")[-1] not in _LEN_PRESERVING:
                return False
            args = [a for a in x[2] if not (isinstance(a, tuple) and a and a[0] == "mem")]
            if not args:
                return False
            x = args[0]
            continue
        return False
    return False


def _is_product_of(t, dims):
    if t[0] == "call" and str(t[1]).endswith("::product"):
        return any(x == dims or (x[0] == "ref") for x in subterms(t))
    return False


WIT_OK = """
use rlib_tensor::Tensor;
pub fn w() -> i32 { let t = Tensor::<i32, 2>::new([2, 3], 0); t[[1, 2]] }
"""
WIT_BAD = """
use rlib_tensor::Tensor;
pub fn w() -> i32 { let t = Tensor::<i32, 3>::new([2, 3, 4], 0); t[[1, 2]] }
"""


def extra(chk, tier):
    chk.rule("Y6", "rank-mismatched index does not type-check (compile-fail witness with compiling twin)", floor=2)
    ok, out = witness.check_crate("c19_rank_ok", WIT_OK, deps={"rlib_tensor": "rlib/tensor"})
    if ok:
        chk.ok("Y6", "witness:c19_rank_ok", "twin-compiles", "rank-2 index on rank-2 tensor type-checks")
    else:
        chk.violation("Y6", "witness|twin", "witness:c19_rank_ok", "the compiling twin no longer type-checks: %s" % out[-500:])
    ok2, out2 = witness.check_crate("c19_rank_bad", WIT_BAD, deps={"rlib_tensor": "rlib/tensor"})
    if not ok2 and ("E0277" in out2 or "E0308" in out2):
        chk.ok("Y6", "witness:c19_rank_bad", "rank-mismatch-rejected", "rank-2 index on a rank-3 tensor is a type error")
    else:
        chk.violation("Y6", "witness|rank-mismatch", "witness:c19_rank_bad", "a rank-2 index on a rank-3 tensor type-checks: per-dimension checking is bypassed")
