#[derive(Clone, Debug)]
pub struct DSU {
    p: Vec<usize>,
    sz: Vec<usize>,
}

impl DSU {
    pub fn new(n: usize) -> Self {
        Self { p: (0..n).collect(), sz: vec![1; n] }
    }
    pub fn reset(&mut self, n: usize) {
        self.p.resize(n, 0);
        for i in 0..n { self.p[i] = i; }
        self.sz.resize(n, 0);
        for i in 0..n { self.sz[i] = 1; }
    }
    pub fn par(&mut self, v: usize) -> usize {
        if self.p[v] != v {
            self.p[v] = self.par(self.p[v]);
        }
        self.p[v]
    }
    pub fn un(&mut self, u: usize, v: usize) -> bool {
        let a = self.par(u); let b = self.par(v);
        if a == b { return false; }
        if self.sz[a] <= self.sz[b] {
            self.sz[b] += self.sz[a];
            self.p[a] = b;
        } else {
            let t = self.sz[b];
            self.sz[a] += t;
            self.p[b] = a;
        }
        true
    }
    pub fn check(&mut self, u: usize, v: usize) -> bool {
        self.par(u) == self.par(v)
    }
    pub fn size(&mut self, v: usize) -> usize { let v = self.par(v); self.sz[v] }
}
