#!/usr/bin/env python3
"""Development aid (not a property check): mechanical mutation sweep.

For one property, every source file it is anchored in gets small syntactic mutations (one at a time): relational
and arithmetic operator swaps, off-by-one constants, boolean connectives, dropped statements, left/right and
min/max swaps.  Each mutant is applied to a scratch copy of /repo (outside /repo and /verif); it is interesting only
when it still compiles AND the touched crate's existing tests still pass.  Those mutants are handed to the property's
quick check; the ones the check stays silent on are SURVIVORS and are listed for triage by hand (many are
equivalent mutants; the rest are holes in the rules).  Nothing is written into /verif except the report given with
--out; scratch copies are removed.

usage: tools/mutsweep.py PID [--jobs N] [--max M] [--out FILE] [--only REGEX]
"""
import argparse, json, os, queue, re, shutil, subprocess, sys, tempfile, concurrent.futures as cf

SLOTS = queue.Queue()
SWAP_ADJ = False
DELETE = True

REPO = os.environ.get("VERIF_REPO_SRC", "/repo")
VERIF = os.path.dirname(os.path.dirname(os.path.abspath(__file__)))

OPS = [
    (r"(?<![<>=!\-+*/&|])<=(?!=)", "<"), (r"(?<![<>=!\-])<(?![<=])", "<="),
    (r"(?<![<>=!\-])>=(?!=)", ">"), (r"(?<![<>=!\-])>(?![>=])", ">="),
    (r"==", "!="), (r"!=", "=="),
    (r"&&", "||"), (r"\|\|", "&&"),
    (r"(?<![+\w])\+ 1\b", "+ 2"), (r"(?<![+\w])\+ 1\b", ""), (r" - 1\b", ""), (r" - 1\b", " - 2"),
    (r"(?<=[\w\)\]]) \+ (?=[\w\(])", " - "), (r"(?<=[\w\)\]]) - (?=[\w\(])", " + "),
    (r"(?<=[\w\)\]]) \* (?=[\w\(])", " + "), (r"(?<=[\w\)\]]) / (?=[\w\(])", " * "), (r"(?<=[\w\)\]]) % (?=[\w\(])", " / "),
    (r"\b0\b", "1"), (r"\b1\b", "0"), (r"\b1\b", "2"),
    (r"\btrue\b", "false"), (r"\bfalse\b", "true"),
    (r"\.left\b", ".right"), (r"\.right\b", ".left"),
    (r"\bmin\b", "max"), (r"\bmax\b", "min"),
    (r"\+=", "-="), (r"-=", "+="), (r"\|=", "&="), (r"&=", "|="), (r"\^=", "|="),
    (r"<<", ">>"), (r">>", "<<"),
    (r"(?<=\()!", ""), (r"(?<= )!(?=[\w\(])", ""),
    (r"wrapping_sub", "wrapping_add"), (r"wrapping_add", "wrapping_sub"),
    (r"\.rev\(\)", ""), (r"0\.\.=", "0.."), (r"\.\.=", ".."),
]
# the wrong one of two similar names (one occurrence at a time)
PAIRS = [("l", "r"), ("vl", "vr"), ("a", "b"), ("i", "j"), ("x", "y"), ("u", "v"), ("left", "right"), ("begin", "end"), ("self", "rhs"), ("lhs", "rhs"),
         ("a1", "a2"), ("m1", "m2"), ("x0", "y0"), ("n", "m"), ("res", "a"), ("item", "next"), ("pos", "sz"), ("p", "sz"), ("dims", "idx"), ("d", "r"), ("ort", "par")]
PAIR_OPS = []
for _a, _b in PAIRS:
    PAIR_OPS.append((r"(?<![\w.])%s\b(?!\s*[:(!])" % _a, _b))
    PAIR_OPS.append((r"(?<![\w.])%s\b(?!\s*[:(!])" % _b, _a))
    PAIR_OPS.append((r"(?<=\.)%s\b(?!\s*\()" % _a, _b))
    PAIR_OPS.append((r"(?<=\.)%s\b(?!\s*\()" % _b, _a))
# third set: forced branches, swapped call arguments, dropped negations/abs, narrowing casts, lost results
DEEP_OPS = [
    (r"\bif (?!let\b)[^{}]+ \{", "if true {"), (r"\bif (?!let\b)[^{}]+ \{", "if false {"), (r"\bwhile (?!let\b)[^{}]+ \{", "while false {"),
    (r"\b(\w+)\(([^(),]+), ([^(),]+)\)", r"\1(\3, \2)"),
    (r"\.abs\(\)", ""), (r"(?<=[(=,] )-(?=[a-z(])", ""), (r"(?<=\()-(?=[a-z(])", ""),
    (r"\bas u64\b", "as u32"), (r"\bas i64\b", "as i32"), (r"\bas u128\b", "as u64"), (r"\bas i128\b", "as i64"), (r"\bas usize\b", "as u32 as usize"),
    (r"\bSome\([^()]*\)", "None"),
    (r"Ordering::Less", "Ordering::Greater"), (r"Ordering::Greater", "Ordering::Less"), (r"Ordering::Equal", "Ordering::Less"),
    (r"\.first\(\)", ".last()"), (r"\.last\(\)", ".first()"), (r"\.first_mut\(\)", ".last_mut()"), (r"\.last_mut\(\)", ".first_mut()"),
    (r"\bcontinue\b", "break"), (r"\bbreak\b", "continue"),
    (r"\b2\.0\b", "1.0"), (r"\b0\.0\b", "1.0"), (r"\b1\.0\b", "0.0"), (r"\b1e-9\b", "1e-3"),
    (r"\b2\b", "3"), (r"\b64\b", "63"), (r"\b32\b", "31"), (r"\b63\b", "64"), (r"\b31\b", "32"), (r"\b10\b", "9"),
    (r"saturating_sub", "wrapping_sub"), (r"checked_sub", "checked_add"), (r"\.pop\(\)", ".last().cloned()"), (r"\.take\(\)", ".clone()"),
    (r"\.len\(\)", ".len() - 1"), (r"\.is_empty\(\)", ".len() == 1"), (r"\.is_some\(\)", ".is_none()"), (r"\.is_none\(\)", ".is_some()"),
    (r"\bswap\(([^(),]+), ([^(),]+)\);", ";"),
]
# fourth set: forgotten state - an argument replaced by the default value, an update made on a temporary copy, an index off by one
ARG_OPS = [
    (r"(?<=\()([a-z_]\w*)(?=[,)])", "Default::default()"), (r"(?<=, )([a-z_]\w*)(?=[,)])", "Default::default()"),
    (r"(?<=\()&([a-z_]\w*)(?=[,)])", "&Default::default()"), (r"(?<=, )&([a-z_]\w*)(?=[,)])", "&Default::default()"),
    (r"&mut ([a-z_][\w.]*)\b(?![\[(:<])", r"&mut \1.clone()"),
    (r"\[([a-z_]\w*)\]", r"[\1 + 1]"), (r"\[([a-z_]\w*)\]", r"[\1 - 1]"),
    (r"\b([a-z_][\w.]*)\.clone\(\)", "Default::default()"),
]


def crate_of(path):
    d = os.path.dirname(os.path.join(REPO, path))
    while d != REPO and not os.path.exists(os.path.join(d, "Cargo.toml")):
        d = os.path.dirname(d)
    for line in open(os.path.join(d, "Cargo.toml")):
        m = re.match(r'\s*name\s*=\s*"([^"]+)"', line)
        if m:
            return m.group(1)
    return None


ADDED = None   # when set: only lines added by a patch (their stripped text) are mutated


DUP = False
EARLY = False   # fifth set: an early return inserted in front of a function body, under a condition tests rarely meet


def early_returns(sig):
    """candidate `if cond { return x; }` lines for a one-line `fn` signature ending in `{` (best effort: many do not compile)"""
    m = re.match(r"\s*(?:pub(?:\([a-z]+\))? )?(?:const )?fn \w+(?:<[^>]*>)?\((.*)\)\s*(?:->\s*(.+?))?\s*(?:where .*)?\{\s*$", sig)
    if not m:
        return []
    params, ret = m.group(1), (m.group(2) or "").strip()
    conds = []
    for pm in re.finditer(r"(?:mut )?(\w+): ([^,]+)", params):
        nm, ty = pm.group(1), pm.group(2).strip()
        if ty in ("usize", "u64", "u32", "i64", "i32", "u8", "isize"):
            conds += ["%s == 1" % nm, "%s == 2" % nm]
        elif re.match(r"&(mut )?(\[|Vec<|str\b|String\b)", ty) or ty.startswith(("Vec<", "String")):
            conds += ["%s.len() == 1" % nm, "%s.len() == 2" % nm]
    # two parameters of one type: `if a == b` (and `self == rhs`)
    typed = [(pm.group(1), pm.group(2).strip()) for pm in re.finditer(r"(?:mut )?(\w+): ([^,]+)", params)]
    same = [(x, y) for i_, (x, tx) in enumerate(typed) for (y, ty_) in typed[i_ + 1:] if tx == ty_]
    for x, y in same[:2]:
        conds.append("%s == %s" % (x, y))
    first = params.split(",")[0].strip()
    if first in ("self", "mut self") and any(t_ in ("Self", "&Self") for _n, t_ in typed):
        oth = [n_ for n_, t_ in typed if t_ in ("Self", "&Self")][0]
        conds.append("self == %s%s" % ("*" if dict(typed)[oth] == "&Self" else "", oth))
    elif first in ("&self", "&mut self") and any(t_ == "&Self" for _n, t_ in typed):
        conds.append("self == %s" % [n_ for n_, t_ in typed if t_ == "&Self"][0])
    if "self" in params.split(",")[0] and not conds:
        conds += ["self.len() == 1", "self.size() == 1"]
    if not ret:
        rets = ["return;"]
    elif ret == "bool":
        rets = ["return false;", "return true;"]
    elif ret.startswith("Option<"):
        rets = ["return None;"]
    elif ret in ("usize", "u64", "u32", "i64", "i32", "u8", "isize"):
        rets = ["return 0;"]
    elif ret.startswith("("):
        rets = []
    elif ret.startswith("Vec<"):
        rets = ["return Vec::new();"]
    elif ret == "String":
        rets = ["return String::new();"]
    else:
        rets = ["return Default::default();"]
        if ret == "Self" and first in ("self", "mut self"):
            rets.append("return self;")
        rets += ["return %s;" % n_ for n_, t_ in typed if t_ == ret][:2]
    return ["if %s { %s }" % (c_, r_) for c_ in conds for r_ in rets]


def mutants_of(path, only=None, ops=None):
    ops = OPS if ops is None else ops
    src = open(os.path.join(REPO, path)).read().split("\n")
    out = []
    in_test = False
    for ln, line in enumerate(src):
        code = line.split("//")[0]
        st = code.strip()
        if "#[cfg(test)]" in line:
            in_test = True
        if EARLY and not in_test and re.match(r"(pub(\([a-z]+\))? )?(const )?fn \w+", st) and (ADDED is None or st in ADDED):
            # the signature may run over several lines (rustfmt): join them up to the line that opens the body
            end = ln
            sig = code.rstrip()
            while not sig.rstrip().endswith("{") and end + 1 < len(src) and end - ln < 14 and not sig.rstrip().endswith(";"):
                end += 1
                sig += " " + src[end].split("//")[0].strip()
            if sig.rstrip().endswith("{"):
                sig1 = re.sub(r"\(\s+", "(", re.sub(r",\s*\)", ")", sig))
                ind = line[: len(line) - len(line.lstrip())] + "    "
                for er in early_returns(sig1):
                    out.append((path, end, src[end], src[end] + "\n" + ind + er, "early return: " + er))
        if in_test or not st or st.startswith(("#", "use ", "pub use", "mod ", "//", "///", "debug_assert", "assert")) or re.match(r"(pub(\([a-z]+\))? )?(const |unsafe )?(fn|type|impl|trait|struct|enum)\b", st):
            continue
        if only and not re.search(only, line):
            continue
        if ADDED is not None and st not in ADDED:
            continue
        for pat, rep in ops:
            for m in re.finditer(pat, code):
                new = code[: m.start()] + m.expand(rep) + code[m.end():] + line[len(code):]
                if new != line:
                    out.append((path, ln, line, new, "%s -> %s" % (m.group(0), rep or "(removed)")))
        if SWAP_ADJ and ln + 1 < len(src) and st.endswith(";") and src[ln + 1].strip().endswith(";") and not st.startswith(("let ", "return", "break", "continue", "}")) and not src[ln + 1].strip().startswith(("let ", "return", "break", "continue", "}")) and len(line) - len(line.lstrip()) == len(src[ln + 1]) - len(src[ln + 1].lstrip()) and st != src[ln + 1].strip():
            out.append((path, ln, line, src[ln + 1], "swap-next with the following statement"))
        # sixth set: a statement executed twice (copy-paste): a plain call statement or a compound assignment
        if DUP and (re.match(r"^[\w\.\[\]\(\)&\*:<>, ]+\(.*\);$", st) or re.match(r"^[\w\.\[\]\*]+ (\+|-|\*|/|%|\^|\||&|<<|>>)= .*;$", st)) and not st.startswith(("let ", "return", "break", "continue", "assert", "debug_assert")):
            out.append((path, ln, line, line + "\n" + line, "statement duplicated"))
        # statement deletion: a plain call statement
        if not DELETE:
            continue
        if re.match(r"^[\w\.\[\]\(\)&\*:<>, ]+\(.*\);$", st) and not st.startswith(("let ", "return", "break", "continue")):
            out.append((path, ln, line, line[: len(line) - len(line.lstrip())] + "// " + st, "statement removed"))
    return out


def run_one(args):
    idx, pid, mut, crate = args
    path, ln, old, new, desc = mut
    w = tempfile.mkdtemp(prefix="mutsweep.", dir="/tmp")
    slot = SLOTS.get()
    try:
        subprocess.run("git -C %s archive HEAD | tar -x -C %s" % (REPO, w), shell=True, check=True)
        shutil.copy(os.path.join(REPO, "Cargo.lock"), os.path.join(w, "Cargo.lock"))
        f = os.path.join(w, path)
        lines = open(f).read().split("\n")
        if lines[ln] != old:
            return idx, "skip", ""
        if desc.startswith("swap-next"):
            lines[ln], lines[ln + 1] = lines[ln + 1], lines[ln]
        else:
            lines[ln] = new
        open(f, "w").write("\n".join(lines))
        env = dict(os.environ, CARGO_NET_OFFLINE="true", CARGO_TARGET_DIR="/tmp/mutsweep-target-%d" % slot)
        r = subprocess.run(["timeout", "-k", "5", os.environ.get("MUT_TEST_TIMEOUT", "150"), "cargo", "test", "--offline", "-q"] + [x for c_ in crate.split(",") for x in ("-p", c_)], cwd=w, env=env, capture_output=True, text=True, timeout=900)
        if r.returncode in (124, 137):
            return idx, "timeout", ""
        if r.returncode != 0:
            return idx, ("build" if "error[E" in r.stderr or "could not compile" in r.stderr else "tests"), ""
        env2 = dict(os.environ, VERIF_REPO=w, VERIF_EVIDENCE_DIR=os.path.join(w, "_ev"))
        r2 = subprocess.run([os.path.join(VERIF, "bin/vcheck"), pid, "--tier", "quick", "--no-fixtures"], cwd=VERIF, env=env2, capture_output=True, text=True, timeout=900)
        caught = "VIOLATION property=%s" % pid in r2.stdout
        first = ""
        for l in r2.stdout.split("\n"):
            if l.startswith("  rlib"):
                first = l.strip()[:160]
                break
        return idx, "caught" if caught else "SURVIVED", first
    except subprocess.TimeoutExpired:
        return idx, "timeout", ""
    finally:
        SLOTS.put(slot)
        shutil.rmtree(w, ignore_errors=True)


def main():
    ap = argparse.ArgumentParser()
    ap.add_argument("pid")
    ap.add_argument("--jobs", type=int, default=8)
    ap.add_argument("--max", type=int, default=0)
    ap.add_argument("--out", default=None)
    ap.add_argument("--only", default=None)
    ap.add_argument("--files", default=None, help="comma-separated override of the files to mutate")
    ap.add_argument("--added-by", default=None, help="a patch file: mutate only the lines it adds (REPO must be a scratch clone with the patch committed)")
    ap.add_argument("--ops", default="base,pairs", help="comma-separated operator sets: base, pairs, deep, args, early, dup")
    a = ap.parse_args()
    global SWAP_ADJ, DELETE, ADDED
    if a.added_by:
        ADDED = {l[1:].split("//")[0].strip() for l in open(a.added_by) if l.startswith("+") and not l.startswith("+++")} - {""}
    sets = a.ops.split(",")
    ops = (OPS if "base" in sets else []) + (PAIR_OPS if "pairs" in sets else []) + (DEEP_OPS if "deep" in sets else []) + (ARG_OPS if "args" in sets else [])
    global EARLY, DUP
    EARLY = "early" in sets
    DUP = "dup" in sets
    SWAP_ADJ = "deep" in sets
    DELETE = "base" in sets
    for j in range(a.jobs):
        SLOTS.put(j)
    files = None
    for l in open(os.path.join(VERIF, "properties.jsonl")):
        d = json.loads(l)
        if d["id"] == a.pid:
            files = d["anchors"]["files"]
    if a.files:
        files = a.files.split(",")
    files = [f for f in files if f.endswith(".rs") and "/tests/" not in f and os.path.exists(os.path.join(REPO, f))]
    muts = []
    for f in files:
        muts.extend(mutants_of(f, a.only, ops))
    if a.max:
        muts = muts[: a.max]
    print("%s: %d mutants over %s" % (a.pid, len(muts), files), flush=True)
    res = {}
    with cf.ThreadPoolExecutor(a.jobs) as ex:
        crates = ",".join(sorted({crate_of(f) for f in files}))   # the tests of every crate the property is anchored in
        futs = [ex.submit(run_one, (i, a.pid, m, crates)) for i, m in enumerate(muts)]
        for fu in cf.as_completed(futs):
            idx, verdict, first = fu.result()
            res[idx] = (verdict, first)
            if verdict == "SURVIVED":
                m = muts[idx]
                print("SURVIVED %s:%d  [%s]\n    - %s\n    + %s" % (m[0], m[1] + 1, m[4], m[2].strip(), m[3].strip()), flush=True)
    tally = {}
    for v, _ in res.values():
        tally[v] = tally.get(v, 0) + 1
    print("%s: %s" % (a.pid, tally), flush=True)
    if a.out:
        json.dump({"pid": a.pid, "tally": tally, "survivors": [{"file": muts[i][0], "line": muts[i][1] + 1, "op": muts[i][4], "old": muts[i][2].strip(), "new": muts[i][3].strip()} for i, (v, _) in sorted(res.items()) if v == "SURVIVED"],
                   "caught": [{"file": muts[i][0], "line": muts[i][1] + 1, "op": muts[i][4], "new": muts[i][3].strip(), "by": f} for i, (v, f) in sorted(res.items()) if v == "caught"]}, open(a.out, "w"), indent=1)
    for j in range(a.jobs):
        shutil.rmtree("/tmp/mutsweep-target-%d" % j, ignore_errors=True)


if __name__ == "__main__":
    main()
