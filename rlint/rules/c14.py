"""C14 — random draws: determinism (effect analysis), shuffle = swaps + Fisher–Yates shape, integer
range membership for every raw output (parametric intervals with wrap reasoning), float upper bound,
T-function output (known finding).  DESIGN.md §4 C14."""
from fractions import Fraction

import re

from .. import util, zones
from ..absint import tstr, mk_int, subterms
from ..core import Anchor

PID = "C14"
LEVEL = "other"
CRATES = ["rlib_rand"]
RELEASE = True
ARMED = True
ENGINES = ["E2", "E3", "E4b", "E4d"]
TECHNIQUE = "call-graph effect analysis for determinism; event/loop-shape rules for shuffle; abstract interpretation of every integer Range impl with interval bounds linear in (start, end), machine-integer wrap reasoning and exact vertex evaluation over the range-bound polytope; path-fact rule for the float upper bound; bit-dependency (T-function) analysis of the generator's state and output functions"
LEVEL_TEXT = (
    "Decides: (proof clause) determinism — next_raw, every gen_from_u64, Rand::next and shuffle reach no static, clock, I/O, interior "
    "mutability or unsafe code, so the stream is a function of the seed; (proof clause) shuffle modifies the slice only through swap, so "
    "it returns a rearrangement, and it has the Fisher–Yates shape (i over 1..len, partner drawn from 0..=i); for all 10 integer types "
    "and every raw 64-bit output a half-open draw lies in [start, end) with no overflow and only value-preserving casts, and the other "
    "range forms reduce to it without overflow; a half-open float draw is returned only under the fact x < end (or is start); and a "
    "sufficient condition for periodic small-range draws (output is a T-function of the state) which FIRES on the LCG and is recorded "
    "as a known finding. Near-equal frequency of permutations and reachability of every value are statistical: NOT decided."
)
LEVEL_NOTE = "trusted: rustc MIR, exporter, the evaluator in this file (linear bounds over the (start, end) polytope, wrap rules), semantics of % and wrapping_* on machine integers"
EXPLANATION = (
    "A1 determinism: the call-graph closure of next_raw / gen_from_u64 (all impls) / Rand::next / shuffle contains no reference to a "
    "static or thread-local, no call into std::time/std::env/std::io/std::fs, no unsafe block or asm, and the generator is plain Copy "
    "data; from_time is the only impure constructor (reported as expected). A2 shuffle: the only write through the slice is "
    "<[T]>::swap; the loop is i in 1..len and the partner is next(0..=i). A3 integer ranges: with S = start, E = end over the polytope "
    "TMIN <= S < E <= TMAX and rng in [0, 2^64-1]: len = E - S in [1, 2^N - 1] exactly (wrapping_sub of wrapped casts is exact because "
    "its interval fits), rng % len in [0, len-1], every IntToInt cast and checked +/- is value-preserving / overflow-free, result in "
    "[S, E-1]; RangeTo/RangeInclusive/RangeToInclusive/RangeFull delegate with +-1 shown not to overflow from the branch facts. A4 "
    "float: every returned value is either `start` or a value x with the path fact x < end. A5 T-function: state' and output are built "
    "only from wrapping_mul/add/sub and bitwise ops with constants, hence output bit k depends only on state bits <= k and next(0..2^k) "
    "has period <= 2^k — KNOWN FINDING (repair changes every seeded stream and breaks the pinned suite). NOT decided: fairness/reachability."
)
UNDECIDED = ["every value of a small range is reachable / near-equal frequency of permutations (statistical)", "consecutive draws from a small range are not periodic — VIOLATED today by the LCG's low bits (known finding)"]
ASSUMPTIONS = ["ranges are non-empty (the code asserts it for half-open ranges)"]
FIXTURES = [
    ("c14_bad_shuffle_exclusive", "bad", ["A2"]),
    ("c14_bad_shuffle_assign", "bad", ["A2"]),
    ("c14_bad_range_len_plus1", "bad", ["A3"]),
    ("c14_bad_clock", "bad", ["A1"]),
    ("c14_bad_inclusive_plus_first", "bad", ["A3"]),
    ("c14_bad_float_no_guard", "bad", ["A4"]),
    ("c14_bad_float_negated_guard", "bad", ["A4"]),
]

TY = {}
for bits in (8, 16, 32, 64):
    TY["u%d" % bits] = (0, (1 << bits) - 1, bits)
    TY["i%d" % bits] = (-(1 << (bits - 1)), (1 << (bits - 1)) - 1, bits)
TY["usize"] = TY["u64"]
TY["isize"] = TY["i64"]
TY["u128"] = (0, (1 << 128) - 1, 128)
TY["i128"] = (-(1 << 127), (1 << 127) - 1, 128)


class L2:
    """a*S + b*E + c"""

    __slots__ = ("a", "b", "c")

    def __init__(self, a=0, b=0, c=0):
        self.a, self.b, self.c = Fraction(a), Fraction(b), Fraction(c)

    def __add__(self, o):
        return L2(self.a + o.a, self.b + o.b, self.c + o.c)

    def __sub__(self, o):
        return L2(self.a - o.a, self.b - o.b, self.c - o.c)

    def __neg__(self):
        return L2(-self.a, -self.b, -self.c)

    def at(self, s, e):
        return self.a * s + self.b * e + self.c

    def __repr__(self):
        p = []
        if self.a:
            p.append("%s*S" % self.a)
        if self.b:
            p.append("%s*E" % self.b)
        if self.c or not p:
            p.append("%s" % self.c)
        return " + ".join(p)


class Poly2:
    """polytope in (S, E) given by constraints  L >= 0; vertices by pairwise intersection"""

    def __init__(self, cons):
        self.cons = cons
        self.vs = self._vertices()

    def _vertices(self):
        vs = []
        n = len(self.cons)
        for i in range(n):
            for j in range(i + 1, n):
                p, q = self.cons[i], self.cons[j]
                det = p.a * q.b - p.b * q.a
                if det == 0:
                    continue
                s = (-p.c * q.b + p.b * q.c) / det
                e = (-p.a * q.c + p.c * q.a) / det
                if all(c.at(s, e) >= 0 for c in self.cons):
                    vs.append((s, e))
        return vs

    def nonneg(self, l):
        if not self.vs:
            return True  # empty domain: vacuous
        return all(l.at(s, e) >= 0 for s, e in self.vs)


class Val:
    """abstract value: math value x in [lo, hi]; the machine value is x (exact) or x mod 2^k (wrap k)"""

    def __init__(self, lo, hi, wrap=None):
        self.lo, self.hi, self.wrap = lo, hi, wrap

    def __repr__(self):
        return "%s[%s, %s]" % ("wrap%d" % self.wrap if self.wrap else "", self.lo, self.hi)


class RangeEval:
    def __init__(self, dom, base, summaries=None):
        self.dom = dom
        self.base = base  # term -> Val
        self.summaries = summaries or {}
        self.obl = []  # (description, ok)

    def fits(self, v, ty):
        lo, hi, _ = TY[ty]
        return self.dom.nonneg(v.lo - L2(0, 0, lo)) and self.dom.nonneg(L2(0, 0, hi) - v.hi)

    def norm(self, v, ty):
        """a wrapped value whose interval fits the type is exact"""
        if v.wrap and self.fits(v, ty):
            return Val(v.lo, v.hi)
        return v

    def ev(self, t, I):
        if t in self.base:
            return self.base[t]
        h = t[0]
        if h == "int":
            return Val(L2(0, 0, t[1]), L2(0, 0, t[1]))
        if h == "cast" and t[1] == "IntToInt":
            a = self.ev(t[3], I)
            if a is None:
                return None
            to, frm = t[2], t[4]
            if to not in TY:
                return None
            if not a.wrap and self.fits(a, to):
                self.obl.append(("cast %s as %s value-preserving: %s" % (tstr(t[3])[:50], to, a), True))
                return Val(a.lo, a.hi)
            k = TY[to][2]
            if a.wrap and a.wrap < k:
                return None
            v = self.norm(Val(a.lo, a.hi, k), to)
            self.obl.append(("cast %s as %s: %s" % (tstr(t[3])[:50], to, "reinterpreting, value recovered: %s" % v if not v.wrap else "wraps modulo 2^%d: %s" % (k, v)), True))
            return v
        if h == "call":
            nm = str(t[1])
            for suf, fn in self.summaries.items():
                if nm.endswith(suf):
                    return fn(self, t, I)
            m = None
            for op in ("wrapping_sub", "wrapping_add"):
                if nm.endswith("::" + op):
                    m = op
            if m:
                ty = nm.split("<impl ")[1].split(">")[0] if "<impl " in nm else None
                a, b = self.ev(t[2][0], I), self.ev(t[2][1], I)
                if a is None or b is None or ty not in TY:
                    return None
                k = TY[ty][2]
                if m == "wrapping_sub":
                    v = Val(a.lo - b.hi, a.hi - b.lo, k)
                else:
                    v = Val(a.lo + b.lo, a.hi + b.hi, k)
                return self.norm(v, ty)
            return None
        if h == "bin":
            op = t[1]
            a, b = self.ev(t[2], I), self.ev(t[3], I)
            if a is None or b is None:
                return None
            if op in ("Add", "Sub"):
                if a.wrap or b.wrap:
                    return None
                v = Val(a.lo + b.lo, a.hi + b.hi) if op == "Add" else Val(a.lo - b.hi, a.hi - b.lo)
                ty = I.tys.get(t)
                if ty in TY:
                    ok = self.fits(v, ty)
                    self.obl.append(("%s %s %s stays within %s: %s" % (tstr(t[2])[:40], op, tstr(t[3])[:40], ty, v), ok))
                return v
            if op == "Rem":
                if b.wrap or not self.dom.nonneg(b.lo - L2(0, 0, 1)):
                    self.obl.append(("divisor of %% is >= 1: %s" % b, False))
                    return None
                self.obl.append(("divisor of %% is >= 1: %s" % b, True))
                if a.wrap or not self.dom.nonneg(a.lo):
                    return None
                return Val(L2(0, 0, 0), b.hi - L2(0, 0, 1))
            if op == "Shr" and not a.wrap and self.dom.nonneg(a.lo) and t[3][0] == "int":
                return Val(L2(0, 0, 0), L2(a.hi.a, a.hi.b, a.hi.c))
        return None


def check(col, prog, tier, profile, fixture=None):
    crate = prog.crate(fixture or "rlib_rand")
    sfx = "" if profile == "dev" else "@" + profile
    fk = util.fkey
    col.rule("A1" + sfx, "determinism: no static / clock / IO / unsafe reachable from the drawing API", floor=50)
    col.rule("A2" + sfx, "shuffle writes only through swap; i in 1..len; partner next(0..=i)", floor=3)
    col.rule("A3" + sfx, "integer draws lie in the range for every raw output; no overflow; value-preserving casts", floor=50)
    col.rule("A4" + sfx, "float draw is start or a value with the fact x < end", floor=1)
    col.rule("A5" + sfx, "generator output is not a T-function of its state (else small-range draws are periodic)", floor=1)

    impls = {}  # (range kind, type) -> body
    for b in crate.bodies:
        imp = crate.impl_of(b)
        if imp is not None and (imp.get("trait") or "").endswith("Randomable") and b.name == "gen_from_u64":
            st = imp["self_ty"]
            kind = st.split("<")[0].split("::")[-1]
            ty = (imp.get("trait_args") or ["", ""])[-1]
            impls[(kind, ty)] = b
    nextraw = util.need_body(crate, "LinearCongruentialGenerator64::<A, C>::next_raw")
    shuffle = util.need_body(crate, "Rand::shuffle")
    rnext = None
    for b in crate.bodies:
        imp = crate.impl_of(b)
        if imp is not None and (imp.get("trait") or "").endswith("Rand") and b.name == "next":
            rnext = b
    if rnext is None:
        raise Anchor("no Rand::next impl found")

    # ---------------- A1
    roots = [nextraw, shuffle, rnext] + list(impls.values())
    reach, ext = util.reachable_calls(prog, roots)
    BAD_PREFIX = ("std::time", "std::env", "std::io", "std::fs", "std::net", "std::process", "std::thread", "std::sync", "std::cell", "std::hash::RandomState", "std::collections::hash_map::RandomState")
    for key, b in sorted(reach.items()):
        bad = []
        if b.j.get("unsafe"):
            bad.append("unsafe fn")
        for ub in b.j.get("unsafe_blocks", []):
            if ub.get("source") != "CompilerGenerated":
                bad.append("unsafe block")
        for bb, blk in enumerate(b.blocks):
            if blk["cleanup"]:
                continue
            if blk["term"]["k"] == "asm":
                bad.append("inline asm")
            for s in blk["stmts"]:
                if s["k"] == "assign":
                    rv = s["rv"]
                    if rv["k"] == "tlref":
                        bad.append("thread-local")
                    for o in [rv.get("op"), rv.get("a"), rv.get("b")] + list(rv.get("ops", [])):
                        if isinstance(o, dict) and o.get("k") == "const" and "static" in o:
                            bad.append("static")
            t = blk["term"]
            if t["k"] == "call" and "indirect" not in t["fn"]:
                p = (t["fn"].get("resolved") or t["fn"]).get("path") or ""
                p2 = t["fn"].get("path") or ""
                if p.startswith(BAD_PREFIX) or p2.startswith(BAD_PREFIX) or "SystemTime" in p or "Instant" in p:
                    bad.append("call %s" % (p or p2))
                for a in t["args"]:
                    if a.get("k") == "const" and "static" in a:
                        bad.append("static")
        k_ = "%s|effects" % fk(b)
        if bad:
            col.violation("A1" + sfx, k_, b.loc(), "%s is reachable from the drawing API and is not a pure function of generator state and arguments (%s): equal seeds no longer give equal streams" % (b.path, ", ".join(sorted(set(bad)))))
        else:
            col.ok("A1" + sfx, b.loc(), k_, "no static / clock / IO / unsafe", nontrivial=False)
    # the generator is plain data
    gen = util.need_adt(crate, "LinearCongruentialGenerator64")
    plain = all(f["ty"] in ("u64", "u32", "u128", "usize") for f in util.fields_of(gen))
    der = {(i.get("trait") or "").split("::")[-1]: i.get("derived") for i in crate.impls if i.get("self_adt") == gen["key"]}
    clone_struct = util.structural_clone(crate, gen)[0]
    if plain and clone_struct and "Copy" in der:
        col.ok("A1" + sfx, "%s:%d" % (gen["span"]["file"], gen["span"]["line"]), "generator|plain-copy-data", "state is plain integers with derived Copy/Clone: a copy continues the same stream")
    else:
        col.violation("A1" + sfx, "generator|plain-copy-data", "%s:%d" % (gen["span"]["file"], gen["span"]["line"]), "the generator must be plain integer state with derived Copy/Clone")
    ft = crate.body("LinearCongruentialGenerator64::<A, C>::from_time")
    if ft is not None:
        col.ok("A1" + sfx, ft.loc(), "%s|expected-impure" % fk(ft), "from_time reads the clock (the only impure constructor, by design)", nontrivial=False)

    # ---------------- A2: the provided method and every override of it in an impl of Rand
    # every `shuffle` of the crate: overrides in impls of Rand, and inherent methods of the generator types too (an inherent
    # `impl Rng { pub fn shuffle(..) }` wins over the trait method for a direct `rng.shuffle(&mut v)`)
    shuffles = [shuffle] + [b_ for b_ in crate.bodies if not b_.is_closure and b_.name == "shuffle" and b_.key != shuffle.key and b_.kind in ("AssocFn", "Fn") and (str((crate.impl_of(b_) or {}).get("trait") or "").endswith("Rand") or not (crate.impl_of(b_) or {}).get("of_trait"))]
    default_shuffle = shuffle
    free_helpers = [f_ for f_ in crate.bodies if not f_.is_closure and f_.kind == "Fn" and f_.container is None and f_.vis != "pub" and not util.self_recursive(f_)]
    for shuffle in shuffles:
        I = util.analyser(free_helpers, features=("fncall",))(shuffle)
        vpl = ("deref", ("param", 2, I.names.get(2)))
        if shuffle.key != default_shuffle.key and not I.loops:
            # a forwarding impl (`impl<G: Rand> Rand for &mut G { fn shuffle(..) { (**self).shuffle(v) } }`): one call of
            # Rand::shuffle on the same slice and nothing else touches it; the implementation forwarded to is judged itself
            fwd_ok = bool(I.final_states)
            for st_ in I.final_states:
                cs_ = [e for e in st_.event_list() if e.kind == "call" and e.extra.get("name") != "deref"]
                fwd_ok = fwd_ok and len(cs_) == 1 and cs_[0].extra.get("name") == "shuffle" and (cs_[0].extra.get("trait") or "").endswith("Rand") and (cs_[0].fn.get("resolved") or cs_[0].fn).get("def") != shuffle.key and cs_[0].args[-1] in (("param", 2, I.names.get(2)), ("ref", vpl))
            if fwd_ok:
                col.ok("A2" + sfx, shuffle.loc(), "%s|forwards" % fk(shuffle), "forwards to the referent's shuffle on the same slice", nontrivial=False)
                continue
        backs = [s for l in I.backedge_states.values() for s in l]
        if not backs:
            backs = [s for _u, l in I.inl_back_groups for s in l]   # the loop sits in an inlined private helper
        writes_ok = True
        shape_ok = False
        for st in list(I.all_end_states()) + list(I.inl_back):
            for e in st.event_list():
                if e.kind == "call" and e.extra.get("inlined"):
                    continue
                if e.kind == "store" and any(s == vpl for s in [e.place] + list(subterms(e.place))):
                    writes_ok = False
                if e.kind == "call" and e.args and any(a == ("ref", vpl) for a in e.args):
                    ty = e.extra["argtys"][list(e.args).index(("ref", vpl))]
                    if ty.startswith("&mut") and e.extra.get("name") != "swap":
                        writes_ok = False
        if writes_ok:
            col.ok("A2" + sfx, shuffle.loc(), "%s|writes-only-swap" % fk(shuffle), "the slice is modified only through <[T]>::swap: the multiset of elements is preserved")
        else:
            col.violation("A2" + sfx, "%s|writes-only-swap" % fk(shuffle), shuffle.loc(), "shuffle writes the slice other than by swapping two positions: the result need not be a rearrangement of the input")
        rngok = False
        v_rng, v_shape = [], []   # one verdict per round of the loop (path through its body): all must hold
        for st in backs:
            rngok = shape_ok = False
            rng_iter = [v for v in st.env.values() if isinstance(v, tuple) and v and v[0] == "rangeiter"]
            evs = st.event_list()
            sw = [e for e in evs if e.kind == "call" and e.extra.get("name") == "swap"]
            nx = [e for e in evs if e.kind == "call" and e.extra.get("name") == "next" and (e.extra.get("trait") or "").endswith("Rand")]
            if not rng_iter and sw and nx and len(I.loops) == 1:
                # manual counter: let mut i = 1; while i < len { ..; i += 1 }
                head = list(I.loops)[0]
                i = sw[0].args[1]
                if i[0] == "phi" and i[1] == head:
                    il = i[2]
                    ent = [en.get(il) for en in I.loop_entry.get(head, [])]
                    step = st.env.get(il) == ("bin", "Add", i, mk_int(1))
                    guard = False
                    for f in st.facts:
                        t = f[1]
                        if f[0] == "eq" and isinstance(t, tuple) and t[0] == "bin":
                            if (t[1] == "Lt" and f[2] == 1 and t[2] == i and t[3][0] == "len") or (t[1] == "Ge" and f[2] == 0 and t[2] == i and t[3][0] == "len") or (t[1] == "Gt" and f[2] == 1 and t[3] == i and t[2][0] == "len"):
                                guard = True
                    # the loop exits only when i >= len: every final state after the loop has the negated guard
                    rngok = bool(ent) and all(x == mk_int(1) for x in ent) and step and guard
                    j = sw[0].args[2]
                    a = nx[0].args[1]
                    shape_ok = (j == nx[0].res or (nx[0].extra.get("uid") is not None and j == nx[0].res)) and a == ("rangeincl", mk_int(0), i) and len(sw) == 1 and len(nx) == 1
            if rng_iter and sw and nx:
                r = rng_iter[0]
                ln = r[2]
                rngok = r[1] == mk_int(1) and ln[0] == "len" and r[3] == "fwd"
                i = sw[0].args[1]
                j = sw[0].args[2]
                a = nx[0].args[1]
                shape_ok = i[0] == "elem" and j == nx[0].res and a == ("rangeincl", mk_int(0), i) and len(sw) == 1 and len(nx) == 1
            v_rng.append(bool(rngok))
            v_shape.append(bool(shape_ok))
        rngok, shape_ok = bool(v_rng) and all(v_rng), bool(v_shape) and all(v_shape)
        if not backs:
            # internal iteration: `(1..v.len()).for_each(|i| v.swap(i, self.next(0..=i)))` - the range is the receiver,
            # the closure body one round with its parameter as i; the closure may touch the slice only through swap
            fes = [[e for e in st_.event_list() if e.kind == "call" and e.extra.get("name") == "for_each"] for st_ in I.final_states]
            if fes and all(len(x) == 1 for x in fes):
                v_rng, v_shape = [], []
                for (fe,) in fes:
                    rcv, clo = fe.args[0], fe.args[1] if len(fe.args) > 1 else None
                    rng_ = _range_of_term(rcv)
                    v_rng.append(rng_ is not None and rng_[0] == mk_int(1) and rng_[1] == ("len", ("load", ("m0",), vpl)))
                    cb_ = crate.by_key.get(clo[1][1]) if clo is not None and clo[0] == "agg" and isinstance(clo[1], tuple) and clo[1][0] == "closure" else None
                    caps = list(clo[2]) if cb_ is not None else []
                    if cb_ is None or ("ref", vpl) not in caps:
                        v_shape.append(False)
                        continue
                    uv = ("deref", ("upvar", caps.index(("ref", vpl))))
                    Ic_ = util.analyse(cb_)
                    i_ = ("param", 2, Ic_.names.get(2))
                    good = bool(Ic_.final_states)
                    for cst in Ic_.final_states:
                        cev = cst.event_list()
                        sw = [e for e in cev if e.kind == "call" and e.extra.get("name") == "swap"]
                        nx = [e for e in cev if e.kind == "call" and e.extra.get("name") == "next" and (e.extra.get("trait") or "").endswith("Rand")]
                        other = [e for e in cev if (e.kind == "store" and any(s_ == uv for s_ in [e.place] + list(subterms(e.place)))) or (e.kind == "call" and e.extra.get("name") != "swap" and any(a_ == ("ref", uv) and str((e.extra.get("argtys") or [""] * 9)[k_]).startswith("&mut") for k_, a_ in enumerate(e.args)))]
                        good = good and len(sw) == 1 and len(nx) == 1 and not other and sw[0].args[0] == ("ref", uv) and sw[0].args[1] == i_ and sw[0].args[2] == nx[0].res and nx[0].args[1] == ("rangeincl", mk_int(0), i_)
                    v_shape.append(good)
                rngok, shape_ok = bool(v_rng) and all(v_rng), bool(v_shape) and all(v_shape)
        # every returning path walks 1..len: one that leaves before the loop (`if v.len() == 2 { return; }`) may only be a slice
        # with nothing to rearrange (len <= 1)
        lenv = ("len", ("load", ("m0",), vpl))
        for st_ in I.final_states:
            evs_ = st_.event_list()
            if not any(e.kind == "loop" for e in evs_) and not any(e.kind == "call" and e.extra.get("name") == "for_each" for e in evs_) and not any(e.kind == "call" and e.extra.get("inlined") for e in evs_):
                if not zones.entails(st_.facts, "Le", lenv, mk_int(1), I.tys):
                    rngok = False
        if rngok:
            col.ok("A2" + sfx, shuffle.loc(), "%s|loop-1..len" % fk(shuffle), "i ranges over 1..len")
        else:
            col.violation("A2" + sfx, "%s|loop-1..len" % fk(shuffle), shuffle.loc(), "the shuffle loop does not run i over 1..len")
        if shape_ok:
            col.ok("A2" + sfx, shuffle.loc(), "%s|partner-0..=i" % fk(shuffle), "swap(i, next(0..=i))")
        else:
            col.violation("A2" + sfx, "%s|partner-0..=i" % fk(shuffle), shuffle.loc(), "the swap partner is not drawn from 0..=i (an exclusive bound gives only cyclic permutations, 0..len gives a biased shuffle)")

    shuffle = default_shuffle
    # ---------------- A6 the generator's state transition
    rule_lcg(col, crate, "A6" + sfx)
    # ---------------- A3
    _ranges(col, crate, impls, sfx)

    # ---------------- A4
    fb = impls.get(("Range", "f64"))
    if fb is None:
        raise Anchor("no Range<f64> impl")
    free_ = [f_ for f_ in crate.bodies if not f_.is_closure and f_.kind == "Fn" and f_.container is None and f_.vis != "pub" and not util.self_recursive(f_)]
    I = util.analyser(free_, features=("comb", "fncall"))(fb)   # `Some(x).filter(|x| *x < end).unwrap_or(start)` is the same case split
    s_ = ("param", 1, I.names.get(1))
    start, end = ("proj", 0, s_), ("proj", 1, s_)
    for n, st in enumerate(I.final_states):
        r = util.ret_term(st)
        ok = r == start
        why = "returns start"
        if not ok:
            # only the POSITIVE comparison counts: `!(x >= end)` also holds for x = NaN (0 * inf when the
            # range length overflows), `x < end` does not
            ok = ("eq", ("fcmp", "Lt", r, end), 1) in st.facts or ("eq", ("fcmp", "Gt", end, r), 1) in st.facts
            why = "returned under the fact x < end"
            if not ok:
                # x.partial_cmp(&end) == Some(Less)
                for e_ in st.event_list():
                    if e_.kind == "call" and e_.extra.get("name") == "partial_cmp" and tuple((e_.extra.get("argvals") or [None, None])[:2]) == (r, end):
                        pc_ = e_.res
                        some = ("eq", ("discr", pc_), 1) in st.facts
                        pay = ("proj", 0, ("down", pc_, 1))
                        less = any(f[0] == "eq" and f[1] in (pay, ("discr", pay)) and f[2] in (-1, 255) for f in st.facts)
                        if some and less:
                            ok = True
                            why = "returned under partial_cmp(x, end) == Some(Less)"
        key = "%s|upper-bound|path%d" % (fk(fb), n)
        if ok:
            col.ok("A4" + sfx, fb.loc(), key, why)
        else:
            col.violation("A4" + sfx, "%s|upper-bound" % fk(fb), fb.loc(), "a half-open float draw can return a value not known to be < end (rounding of ratio*len+start reaches `end`, e.g. raw output u64::MAX): %s" % tstr(r)[:160])

    # ---------------- A5
    # every non-recursive function of the generator's crate is inlined: the recurrence may live in a helper
    gen_helpers = [f_ for f_ in nextraw.crate.bodies if not f_.is_closure and f_.kind in ("Fn", "AssocFn") and f_.key != nextraw.key and not util.self_recursive(f_) and not (nextraw.crate.impl_of(f_) or {}).get("derived")]
    I = util.analyser(gen_helpers)(nextraw)
    for st in I.final_states:
        out = util.ret_term(st)
        stores = [e for e in st.event_list() if e.kind == "store"]
        tf = _tfunction(out) and all(_tfunction(e.val) for e in stores)
        key = "%s|output-is-T-function-of-state" % fk(nextraw)
        if tf:
            col.violation("A5" + sfx, key, nextraw.loc(), "output and next state are built only from wrapping add/sub/mul and bitwise operations with constants (a T-function): output bit k depends only on state bits <= k, so next(0..2^k) has period at most 2^k (next(0..4) repeats every 4 draws)")
        else:
            col.ok("A5" + sfx, nextraw.loc(), key, "the output mixes high state bits into low output bits")


def _potency(a, w):
    """least s with (a - 1)^s = 0 (mod 2^w) (Knuth 3.2.1.3): how thoroughly the multiplier mixes the low w bits of the
    state; 1 means those bits merely count up by C"""
    d = (a - 1) % (1 << w)
    if d == 0:
        return 1
    v = (d & -d).bit_length() - 1
    return -(-w // v) if v else 10 ** 9


def _range_of_term(t):
    """(start, end) of a `start..end` value: the Range aggregate or the interpreter's range iterator"""
    if isinstance(t, tuple) and t and t[0] == "agg" and isinstance(t[1], tuple) and t[1][0] == "adt" and str(t[1][1]).endswith("ops::Range") and len(t[2]) == 2:
        return t[2][0], t[2][1]
    if isinstance(t, tuple) and t and t[0] == "rangeiter" and t[3] == "fwd":
        return t[1], t[2]
    return None


def rule_lcg(col, rand_crate, rid, consts_from=None, low_bits=()):
    """the state transition of the linear congruential generator is the full-period affine map on all 64 bits:
    next_raw stores state' = state * A + C (wrapping, nothing masked or shifted away) and returns that state; the
    instantiation(s) in use satisfy Hull-Dobell for modulus 2^64 (A = 1 mod 4, C odd).  A shorter state (a mask, a
    narrower type) caps the period and with it every reachability claim about draws, shuffles and treap priorities."""
    fk = util.fkey
    col.rule(rid, "LCG: state' = state*A + C on the full 64-bit state, returned whole; A = 1 (mod 4), C odd for the instantiation in use", floor=2)
    nr = [b for b in rand_crate.bodies if not b.is_closure and b.name == "next_raw" and "LinearCongruentialGenerator64" in b.path]
    if len(nr) != 1:
        raise Anchor("next_raw of the linear congruential generator not found")
    b = nr[0]
    adt = util.need_adt(rand_crate, "LinearCongruentialGenerator64")
    sf = [i for i, f in enumerate(util.fields_of(adt)) if f["ty"] == "u64"]
    priv = [m for m in rand_crate.bodies if not m.is_closure and m.kind in ("Fn", "AssocFn") and m.vis != "pub" and not util.self_recursive(m) and m.key != b.key]
    I = util.analyser(priv)(b)
    selfp = ("deref", ("param", 1, I.names.get(1)))
    ok = bool(I.final_states) and len(sf) == 1
    why = "the generator state is not a single u64 field" if len(sf) != 1 else ""
    # the two const parameters by POSITION (multiplier first, increment second: that is how the instantiations below
    # are read), whatever they are called
    m_g = re.search(r"LinearCongruentialGenerator64<\s*(\w+)\s*,\s*(\w+)\s*>", str((rand_crate.impl_of(b) or {}).get("self_ty")))
    GA, GC = (m_g.group(1), m_g.group(2)) if m_g else ("A", "C")
    for st in I.final_states:
        if not ok:
            break
        place = ("field", selfp, sf[0])
        old = ("load", ("m0",), place)
        stores = [e for e in st.event_list() if e.kind == "store" and e.place == place]
        if len(stores) != 1:
            ok, why = False, "%d stores of the state on one path" % len(stores)
            break
        v = stores[0].val

        def args(t):
            return [x for x in t[2] if not (isinstance(x, tuple) and x and x[0] == "mem")]

        good = False
        if v[0] == "call" and str(v[1]).endswith("::wrapping_add"):
            x, y = args(v)
            for m_, c_ in ((x, y), (y, x)):
                if c_ == ("gparam", GC) and m_[0] == "call" and str(m_[1]).endswith("::wrapping_mul") and set(map(repr, args(m_))) == {repr(old), repr(("gparam", GA))}:
                    good = True
        if not good:
            ok, why = False, "the new state is %s, not state.wrapping_mul(A).wrapping_add(C)" % tstr(v)[:100]
            break
        r = util.ret_term(st)
        if r != v and r != ("load", stores[0].state[1] if False else None, place):
            from ..absint import strip_mem

            if strip_mem(r) != strip_mem(v):
                ok, why = False, "next_raw returns %s, not the whole new state" % tstr(r)[:100]
    key = "%s|affine-full-width" % fk(b)
    if ok:
        col.ok(rid, b.loc(), key, "state' = state*A + C (wrapping) on the u64 state; the new state is returned whole")
    else:
        col.violation(rid, key, b.loc(), "the generator's step is not the full-width affine map: %s" % why)
    # the constants of the instantiations in use
    insts = set()
    for cr in ([rand_crate] + list(consts_from or [])):
        for al in getattr(cr, "aliases", []):
            m_ = re.search(r"LinearCongruentialGenerator64<(\w+?)(?:_?u64)?, (\w+?)(?:_?u64)?>", str(al.get("ty")))
            if m_:
                # literals, or named constants of the crate (`Gen<LCG_MULTIPLIER, LCG_INCREMENT>`) by their evaluated value
                vals = []
                for g_ in (m_.group(1), m_.group(2)):
                    if g_.isdigit():
                        vals.append(int(g_))
                    else:
                        cv = [k_.get("val") for k_ in getattr(cr, "consts", []) if k_.get("name") == g_ and isinstance(k_.get("val"), int)]
                        vals.append(cv[0] if len(cv) == 1 else None)
                if None not in vals:
                    insts.add((vals[0], vals[1], "type %s" % al["name"]))
        for bd in cr.bodies:
            for _bb, t in bd.calls():
                if "LinearCongruentialGenerator64" in str(t["fn"].get("path")):
                    a_ = t["fn"].get("args") or []
                    if len(a_) >= 2 and all(str(x).isdigit() for x in a_[:2]):
                        insts.add((int(a_[0]), int(a_[1]), "calls in %s" % cr.name))
    if not insts:
        col.violation(rid, "lcg|constants", b.loc(), "no instantiation of the generator found (type alias or call) to read A and C from")
    for a_, c_, where in sorted(insts):
        key = "lcg|hull-dobell|%d|%d" % (a_, c_)
        if a_ % 4 == 1 and c_ % 2 == 1:
            col.ok(rid, b.loc(), key, "A = %d = 1 (mod 4), C = %d odd (%s): period 2^64" % (a_, c_, where))
        else:
            col.violation(rid, "lcg|hull-dobell", b.loc(), "A = %d, C = %d (%s) do not satisfy A = 1 (mod 4) and C odd: the generator does not have full period" % (a_, c_, where))
        # the low w bits of the state are themselves an LCG with multiplier A mod 2^w: its potency must not collapse
        for w in (64,) + tuple(low_bits):
            s_ = _potency(a_, w)
            key = "lcg|potency|%d|%d" % (a_, w)
            if s_ >= 5:
                col.ok(rid, b.loc(), key, "potency of A on the low %d bits is %d (>= 5)" % (w, s_))
            else:
                col.violation(rid, "lcg|potency|%d" % w, b.loc(), "A = %d (%s) has potency %d on the low %d bits of the state (A - 1 is divisible by 2^%d): those bits are (close to) a counter stepping by C, consecutive draws taken from them are monotone" % (a_, where, s_, w, ((a_ - 1) % (1 << w) & -((a_ - 1) % (1 << w))).bit_length() - 1 if (a_ - 1) % (1 << w) else w))


def _tfunction(t):
    """term built only from loads/constants with wrapping add/sub/mul, and/or/xor/not and left shifts"""
    if not isinstance(t, tuple) or not t:
        return False
    h = t[0]
    if h in ("load", "int", "gparam", "param"):
        return True
    if h == "call":
        nm = str(t[1])
        if any(nm.endswith("::" + x) for x in ("wrapping_mul", "wrapping_add", "wrapping_sub", "wrapping_neg")):
            return all(_tfunction(a) for a in t[2] if not (isinstance(a, tuple) and a and a[0] == "mem"))
        return False
    if h == "bin" and t[1] in ("BitAnd", "BitOr", "BitXor", "Add", "Sub", "Mul"):
        return _tfunction(t[2]) and _tfunction(t[3])
    if h == "bin" and t[1] == "Shl":
        return _tfunction(t[2]) and t[3][0] == "int"
    if h == "un" and t[1] in ("Not", "Neg"):
        return _tfunction(t[2])
    if h == "cast" and t[1] == "IntToInt":
        # truncation keeps low bits: still a T-function
        return _tfunction(t[3])
    return False


def _ranges(col, crate, impls, sfx):
    fk = util.fkey
    types = ["u8", "u16", "u32", "u64", "usize", "i8", "i16", "i32", "i64", "isize"]   # unsigned first: a signed impl may draw through the unsigned one
    proven = {}
    free = [f_ for f_ in crate.bodies if not f_.is_closure and f_.kind == "Fn" and f_.container is None and f_.vis != "pub" and not util.self_recursive(f_)]
    An = util.analyser(free)

    def proven_range_summary(ev, t, I):
        """a call of an already proven Range<T> impl returns a value in [start, end - 1] (it asserts start < end)"""
        nm = str(t[1])
        m = [ty_ for ty_ in proven if proven[ty_] and ("ops::Range<%s>" % ty_) in nm]
        a = t[2][0]
        if not m or not (a[0] == "agg" and a[1][1].endswith("ops::Range")):
            return None
        s, e = ev.ev(a[2][0], I), ev.ev(a[2][1], I)
        if s is None or e is None or s.wrap or e.wrap:
            return None
        # the callee's own assertion start < end must hold for the delegation to return at all
        return Val(s.lo, e.hi - L2(0, 0, 1))

    for ty in types:
        b = impls.get(("Range", ty))
        if b is None:
            raise Anchor("no Randomable impl for Range<%s>" % ty)
        lo, hi, bits = TY[ty]
        I = An(b)
        s_ = ("param", 1, I.names.get(1))
        rng = ("param", 2, I.names.get(2))
        S, E = L2(1, 0, 0), L2(0, 1, 0)
        # polytope: TMIN <= S, S + 1 <= E, E <= TMAX
        dom = Poly2([S - L2(0, 0, lo), E - S - L2(0, 0, 1), L2(0, 0, hi) - E])
        base = {("proj", 0, s_): Val(S, S), ("proj", 1, s_): Val(E, E), rng: Val(L2(0, 0, 0), L2(0, 0, (1 << 64) - 1))}
        I.tys[rng] = "u64"
        finals = I.final_states
        asserted = any(any(e.kind == "call" and e.extra.get("name") == "is_empty" for e in st.event_list()) for st in I.diverged)
        key0 = "%s|nonempty-asserted" % fk(b)
        if asserted and finals and all(any(f[0] == "eq" and f[2] == 0 and isinstance(f[1], tuple) and f[1][0] == "call" and str(f[1][1]).endswith("is_empty") for f in st.facts) for st in finals):
            col.ok("A3" + sfx, b.loc(), key0, "returns only under !is_empty (start < end)", nontrivial=False)
        else:
            col.violation("A3" + sfx, key0, b.loc(), "Range<%s> draws without asserting the range is non-empty" % ty)
            continue
        okall = True
        for st in finals:
            ev = RangeEval(dom, base, {"gen_from_u64": proven_range_summary})
            r = util.ret_term(st)
            v = ev.ev(r, I)
            key = "%s|membership" % fk(b)
            inrange = v is not None and not v.wrap and dom.nonneg(v.lo - S) and dom.nonneg(E - L2(0, 0, 1) - v.hi)
            if inrange:
                col.ok("A3" + sfx, b.loc(), key, "result in [%s, %s] ⊆ [start, end-1] for every raw output" % (v.lo, v.hi))
            else:
                okall = False
                col.violation("A3" + sfx, key, b.loc(), "a draw from Range<%s> is not provably inside [start, end) for every raw generator output: value %s evaluates to %s" % (ty, tstr(r)[:120], v))
            # overflow facts of the path (checked arithmetic) are obligations too
            for (desc, ok) in ev.obl:
                k2 = "%s|%s" % (fk(b), desc.split(":")[0][:60])
                if ok:
                    col.ok("A3" + sfx, b.loc(), k2, desc)
                else:
                    okall = False
                    col.violation("A3" + sfx, "%s|arith" % fk(b), b.loc(), "Range<%s>: %s fails for some bounds" % (ty, desc))
        proven[ty] = okall

    # delegating forms
    for ty in types:
        lo, hi, bits = TY[ty]
        if not proven.get(ty):
            continue

        def range_summary(ev, t, I, ty=ty):
            a = t[2][0]
            if not (a[0] == "agg" and a[1][1].endswith("ops::Range")):
                return None
            s, e = ev.ev(a[2][0], I), ev.ev(a[2][1], I)
            if s is None or e is None or s.wrap or e.wrap:
                return None
            # callee asserts start < end; its proven result is [start, end - 1]
            return Val(s.lo, e.hi - L2(0, 0, 1))

        incl_ok = False
        for kind in ("RangeTo", "RangeInclusive", "RangeToInclusive", "RangeFull"):
            b = impls.get((kind, ty))
            if b is None:
                raise Anchor("no Randomable impl for %s<%s>" % (kind, ty))
            I = An(b)
            s_ = ("param", 1, I.names.get(1))
            rng = ("param", 2, I.names.get(2))
            I.tys[rng] = "u64"
            S, E = L2(1, 0, 0), L2(0, 1, 0)
            okk = True
            for n, st in enumerate(I.final_states):
                r = util.ret_term(st)
                cons = [S - L2(0, 0, lo), L2(0, 0, hi) - S, E - L2(0, 0, lo), L2(0, 0, hi) - E]
                base = {rng: Val(L2(0, 0, 0), L2(0, 0, (1 << 64) - 1))}
                lo_b, hi_b = None, None
                if kind == "RangeTo":
                    base[("proj", 0, s_)] = Val(E, E)
                    cons.append(E - L2(0, 0, 1))  # 0 < end (else the callee's assert fires)
                    lo_b, hi_b = L2(0, 0, lo), E - L2(0, 0, 1)
                elif kind == "RangeToInclusive":
                    base[("proj", 0, s_)] = Val(E, E)
                    cons.append(E)  # 0 <= end
                    lo_b, hi_b = L2(0, 0, lo), E
                elif kind == "RangeInclusive":
                    cons.append(E - S)  # start <= end
                    lo_b, hi_b = S, E
                    for t2 in [r] + [f[1] for f in st.facts if f[0] in ("eq", "ne")]:
                        for s2 in [t2] + list(subterms(t2)):
                            if s2[0] == "proj" and s2[1] in (0, 1) and isinstance(s2[2], tuple) and s2[2][0] == "call" and str(s2[2][1]).endswith("RangeInclusive::<Idx>::into_inner"):
                                base[s2] = Val(S, S) if s2[1] == 0 else Val(E, E)
                            if s2[0] == "load" and s2[2][0] == "deref" and s2[2][1][0] == "call":
                                nm = str(s2[2][1][1])
                                if nm.endswith("RangeInclusive::<Idx>::start"):
                                    base[s2] = Val(S, S)
                                elif nm.endswith("RangeInclusive::<Idx>::end"):
                                    base[s2] = Val(E, E)
                    # branch facts  start != MIN / end != MAX
                    for f in st.facts:
                        t2 = f[1]
                        if f[0] in ("eq", "ne") and t2 in base and isinstance(f[2], int) and not isinstance(f[2], bool):
                            # `match (start, end)` on the values themselves: t == k / t != k
                            kk = f[2]
                            if kk >= (1 << (bits - 1)) and lo < 0:
                                kk -= 1 << bits
                            t2 = ("bin", "Ne", t2, ("int", kk))
                            f = ("eq", t2, 1 if f[0] == "ne" else 0)
                        if f[0] == "eq" and isinstance(t2, tuple) and t2[0] == "bin" and t2[1] == "Eq" and f[2] in (0, 1):
                            # start == MIN / end == MAX tested positively: the same fact with the other polarity
                            t2 = ("bin", "Ne", t2[2], t2[3])
                            f = ("eq", t2, 1 - f[2])
                        if f[0] == "eq" and isinstance(t2, tuple) and t2[0] == "bin" and t2[1] == "Ne" and t2[2] in base and t2[3][0] == "int":
                            v0 = base[t2[2]]
                            if f[2] == 1 and t2[3][1] == lo and v0.lo.a == 1:
                                cons.append(S - L2(0, 0, lo + 1))
                            if f[2] == 1 and t2[3][1] == hi and v0.lo.b == 1:
                                cons.append(L2(0, 0, hi - 1) - E)
                            if f[2] == 0 and t2[3][1] == lo and v0.lo.a == 1:
                                cons.append(L2(0, 0, lo) - S)
                            if f[2] == 0 and t2[3][1] == hi and v0.lo.b == 1:
                                cons.append(E - L2(0, 0, hi))
                dom = Poly2(cons)
                summ = {"Randomable<%s>>::gen_from_u64" % ty: None}

                def call_summary(ev, t, I, kind=kind, ty=ty):
                    nm = str(t[1])
                    if "ops::RangeFull" in nm:
                        return Val(L2(0, 0, TY[ty][0]), L2(0, 0, TY[ty][1]))
                    if "ops::Range<" in nm:
                        return range_summary(ev, t, I)
                    if "ops::RangeInclusive<" in nm and incl_ok:
                        a = t[2][0]
                        if a[0] == "rangeincl":
                            s, e = ev.ev(a[1], I), ev.ev(a[2], I)
                            if s is not None and e is not None:
                                return Val(s.lo, e.hi)
                    return None

                ev = RangeEval(dom, base, {"gen_from_u64": call_summary})
                key = "%s|path%d" % (fk(b), n)
                if kind == "RangeFull" or (r[0] == "cast" and r[3] == rng):
                    # the whole type: any value is inside
                    full = kind == "RangeFull" or (dom.nonneg(L2(0, 0, lo) - S) and dom.nonneg(E - L2(0, 0, hi)))
                    if full:
                        col.ok("A3" + sfx, b.loc(), key, "full range: rng as %s" % ty)
                    else:
                        okk = False
                        col.violation("A3" + sfx, "%s|membership" % fk(b), b.loc(), "%s<%s> returns a raw cast although the range is not the whole type on this path" % (kind, ty))
                    continue
                v = ev.ev(r, I)
                inr = v is not None and not v.wrap and dom.nonneg(v.lo - lo_b) and dom.nonneg(hi_b - v.hi)
                bad = [d for d, o in ev.obl if not o]
                if inr and not bad:
                    col.ok("A3" + sfx, b.loc(), key, "delegates without overflow; result in [%s, %s]" % (v.lo, v.hi))
                else:
                    okk = False
                    col.violation("A3" + sfx, "%s|membership" % fk(b), b.loc(), "%s<%s>: %s" % (kind, ty, ("arithmetic can overflow: %s" % bad[0]) if bad else "the result %s is not provably inside the range (evaluates to %s)" % (tstr(r)[:100], v)))
            if kind == "RangeInclusive":
                incl_ok = okk
