#!/usr/bin/env python3
"""Fill the table of DESIGN.md §10 from seeded/*/meta.json."""
import glob, json, os, re
V = os.path.dirname(os.path.dirname(os.path.abspath(__file__)))
rows = []
for f in sorted(glob.glob(os.path.join(V, "seeded", "*", "meta.json"))):
    m = json.load(open(f))
    d = os.path.dirname(f)
    patch = open(os.path.join(d, "patch.diff")).read()
    files = sorted(set(re.findall(r"^\+\+\+ b/(\S+)", patch, re.M)))
    what = m.get("summary") or ""
    c = m["confirmed"]
    conf = "yes" if all(c.values()) else "NO: %s" % c
    rows.append("| %s | %s | %s | %s | %s | %s |" % (m["seed"], m["property"], ", ".join(files), what.replace("|", "/"), conf, ("**caught**: " + ", ".join(m["rules_fired"])) if m["caught"] else "**missed**" ) + ("" if not m.get("history") else ""))
tbl = "| seed | property | file | change and what it needs to manifest | confirmed | check |\n|---|---|---|---|---|---|\n" + "\n".join(rows)
notes = []
for f in sorted(glob.glob(os.path.join(V, "seeded", "*", "meta.json"))):
    m = json.load(open(f))
    if m.get("history"):
        notes.append("* %s: %s" % (m["seed"], m["history"]))
txt = "<!-- SEEDED-BEGIN -->\n" + tbl + "\n\n" + "\n".join(notes) + "\n<!-- SEEDED-END -->"
p = os.path.join(V, "DESIGN.md")
s = open(p).read()
if "SEEDED_TABLE" in s:
    s = s.replace("SEEDED_TABLE", txt)
else:
    s = re.sub(r"<!-- SEEDED-BEGIN -->.*<!-- SEEDED-END -->", lambda _: txt, s, flags=re.S)
open(p, "w").write(s)
print("%d seeded changes, %d caught" % (len(rows), sum(1 for r in rows if "**caught**" in r)))
