mod masks;
mod neighbours;
mod permutations;

pub use masks::{iter_submasks, iter_supermasks};
pub use neighbours::{iter_neighbours_4, iter_neighbours_4d, iter_neighbours_8};
pub use permutations::{iter_permutations, next_permutation};
