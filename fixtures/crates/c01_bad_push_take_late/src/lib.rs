#![doc = include_str!("../README.md")]

pub mod segtree;
pub mod segtree_items;
pub use segtree::{Segtree, SegtreeItem};
