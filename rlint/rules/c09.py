"""C09 — Writer: buffer discipline, bounded writes, sink protocol, drop, both profiles,
separators, digit buffers.  DESIGN.md §4 C09."""
from .. import util, zones
from ..absint import tstr, mk_int, subterms
from ..core import Anchor

PID = "C09"
LEVEL = "other"
CRATES = ["rlib_io"]
RELEASE = True
DEPENDS = ["C08"]   # the property's read/write clauses run through these packs' code (rules reported as <PID>.<rule>)
RELEASE_ALWAYS = True
ARMED = True
ENGINES = ["E1", "E3", "E4b", "E10"]
TECHNIQUE = "path-sensitive term-flow abstract interpretation of the Writer: event-order rules (reserve -> copy -> advance with one length term; write_all -> reset), who-may-use rules for the sink and the cursor, per-profile flush rule over dev and release exports, bounded-length classification of every write_bytes caller against evaluated BASE_10_LEN constants, digit-loop transfer terms, separator call sequences"
LEVEL_TEXT = (
    "Structural necessary conditions of 'the sink receives exactly the formatted bytes in order', decided on every path in BOTH build "
    "profiles: bytes are appended at buf[end .. end+len] after room was reserved for the same len and end advances by that len; flush "
    "hands buf[..end] to write_all (the only way the sink is reached; its retry contract covers partial writes and Interrupted) and "
    "only then resets end; Drop flushes; debug builds flush after every write, release builds do not; every caller of the byte writer "
    "passes at most one buffer's worth; integers are rendered from the end of a BASE_10_LEN buffer (large enough for the type's MAX) "
    "with radix 10 in both % and /, offset b'0', zero special-cased, '-' iff negative with unsigned_abs magnitude; tuples and vectors "
    "emit exactly one separator between neighbours in field order. That the digit loop equals Display for every value and the round "
    "trip with Reader are not decided."
)
LEVEL_NOTE = "trusted: rustc MIR, exporter, std axioms; std::io::Write::write_all's contract (writes everything or errors, retrying Interrupted)"
EXPLANATION = (
    "V1 write_bytes (private helpers and flush inlined, one path = one append): exactly one copy_from_slice into self.buf[a..a+len] "
    "with a = the current fill level, end + len <= capacity entailed at the copy from the path facts (invariant end <= capacity and "
    "the callers' bound assumed), and end := a + len afterwards. V1b every call of write_bytes passes a one-byte array, a tail of a [u8; BASE_10_LEN] "
    "buffer, or a chunk of chunks(BUF_SIZE) with BUF_SIZE equal to the buffer's array length. V2 flush: returns early iff end == 0, "
    "else write_all(&buf[..end]) (result unwrapped) and then end = 0; the sink is used only in flush and only via write_all. V3 Drop "
    "calls flush. V4 in the dev export write/write_char call flush after the payload, in the release export they do not. V5 end is "
    "stored only by new/write_bytes/flush. V6 for the 12 integer types BASE_10_LEN >= decimal digits of the unsigned MAX; the digit "
    "loop does index -= 1; buf[index] = (value % 10) as u8 + b'0'; value /= 10 while value != 0 and emits buf[index..]; zero writes '0'. "
    "V7 signed: '-' iff self < 0, then the unsigned_abs magnitude. V8 tuples: W (S W)* in field order with S = ' '; Vec: separator "
    "before every element except index 0. NOT decided: rendering equals Display, round trip with Reader."
)
UNDECIDED = ["the digit loop renders identically to Display for every value", "reading the produced text back returns the original values"]
ASSUMPTIONS = ["Write::write_all contract", "ASCII strings (the property's domain)"]
FIXTURES = [
    ("c09_bad_flush_reset_first", "bad", ["V2"]),
    ("c09_bad_flush_write", "bad", ["V2"]),
    ("c09_bad_reserve_cmp", "bad", ["V1"]),
    ("c09_bad_drop_no_flush", "bad", ["V3"]),
    ("c09_bad_u64_len", "bad", ["V6"]),
    ("c09_bad_tuple_trailing_sep", "bad", ["V8"]),
    ("c09_bad_signed_abs", "bad", ["V7"]),
    ("c09_bad_radix", "bad", ["V6"]),
]

DIGITS = {"u8": 3, "u16": 5, "u32": 10, "u64": 20, "u128": 39, "usize": 20}
UNSIGNED_OF = {"i8": "u8", "i16": "u16", "i32": "u32", "i64": "u64", "i128": "u128", "isize": "usize"}


def _is(ev, body):
    return ev.kind == "call" and (ev.fn.get("resolved") or ev.fn).get("def") == body.key


def _digit_operand(t):
    """the value narrowed to the digit byte: `x as u8`, or `u8::try_from(x).unwrap()` (the same byte whenever x < 256, and the
    callers require x to be `value % 10`)"""
    if t[0] == "cast":
        return t[3]
    if t[0] == "call" and str(t[1]).rsplit("::", 1)[-1] in ("unwrap", "expect"):
        a = [y for y in t[2] if not (isinstance(y, tuple) and y and y[0] == "mem")]
        if a and a[0][0] == "call" and str(a[0][1]).rsplit("::", 1)[-1] in ("try_from", "try_into"):
            inner = [y for y in a[0][2] if not (isinstance(y, tuple) and y and y[0] == "mem")]
            if inner:
                return inner[0]
    return t


def _flatten_range(dst):
    """&x[a..][..n] and &x[a..][b..c] are the sub-ranges x[a..a+n], x[a+b..a+c] of x itself"""
    if not (isinstance(dst, tuple) and dst and dst[0] == "ref" and dst[1][0] == "range"):
        return dst
    outer = dst[1]
    inner = outer[1]
    if not (isinstance(inner, tuple) and inner and inner[0] == "range" and inner[2][0] == "agg" and outer[2][0] == "agg"):
        return dst
    ik, ok_ = str(inner[2][1][1]).rsplit("::", 1)[-1], str(outer[2][1][1]).rsplit("::", 1)[-1]
    if ik == "RangeFrom":
        a = inner[2][2][0]
    elif ik == "Range":
        a = inner[2][2][0]
    else:
        return dst
    if ok_ == "RangeTo":
        lo, hi = a, ("bin", "Add", a, outer[2][2][0])
    elif ok_ == "Range":
        lo, hi = ("bin", "Add", a, outer[2][2][0]), ("bin", "Add", a, outer[2][2][1])
    else:
        return dst
    rng = ("agg", inner[2][1][:1] + ("std::ops::Range",) + inner[2][1][2:], (lo, hi))
    return _flatten_range(("ref", ("range", inner[1], rng)))


def check(col, prog, tier, profile, fixture=None):
    crate = prog.crate(fixture or "rlib_io")
    sfx = "" if profile == "dev" else "@" + profile
    fk = util.fkey
    adt = util.need_adt(crate, "Writer")
    fs = util.fields_of(adt)
    bufs_ = [i for i, f in enumerate(fs) if f["ty"].startswith("[u8;")]
    ends_ = [i for i, f in enumerate(fs) if f["ty"] == "usize"]
    sinks_ = [i for i, f in enumerate(fs) if "dyn std::io::Write" in f["ty"]]
    if not (bufs_ and ends_ and sinks_):
        raise Anchor("Writer is expected to hold its byte buffer, its fill level and its sink as fields of its own (found %s)" % ", ".join("%s: %s" % (f["name"], f["ty"]) for f in fs))
    BUF, END, SINK = bufs_[0], ends_[0], sinks_[0]
    capt_ = fs[BUF]["ty"].split(";")[1].strip(" ]")
    if capt_.isdigit():
        cap = int(capt_)
    else:
        named_ = [k for k in crate.consts if k["name"] == capt_.split("::")[-1] and k.get("val") is not None]
        cands = [k for k in named_ if "Writer" in k["path"]] or (named_ if len({str(k.get("val")) for k in named_}) == 1 else [])   # (an associated constant of the Writer, or the module's only constant of that name)
        if not cands:
            raise Anchor("cannot evaluate the Writer buffer capacity %s" % capt_)
        cap = int(cands[0]["val"])
    fl = util.need_body(crate, "Writer::<'a>::flush")
    wr = util.need_body(crate, "Writer::<'a>::write")
    wc = util.need_body(crate, "Writer::<'a>::write_char")
    # the private primitive appender is recognised by what it does (copies a byte slice into the buffer), under any name
    wb = util.resolve_role(crate, [wc] + [b_ for b_ in crate.bodies if not b_.is_closure and b_.name == "write" and str((crate.impl_of(b_) or {}).get("trait") or "").endswith("Writable")], "write_bytes",
                           lambda b_: not util.self_recursive(b_) and "Writer<" in str((crate.impl_of(b_) or {}).get("self_ty")) and b_.arg_count == 2 and str(b_.locals[2]["ty"]).startswith("&[u8") and any(t_["fn"].get("name") == "copy_from_slice" for _bb, t_ in b_.calls()),
                           "the Writer method that copies a byte slice into the buffer", named_ok=lambda _b: True)
    helpers = util.private_helpers(crate, "Writer", exclude=[wb, fl, wr, wc])
    A = util.analyser(helpers)
    col.rule("V1" + sfx, "reserve(len) -> copy into buf[end..end+len] -> end += len; reserve flushes iff end+size > capacity; callers pass bounded slices", floor=8)
    col.rule("V2" + sfx, "flush: early return iff end == 0; write_all(&buf[..end]) then end = 0; sink only via write_all in flush", floor=2)   # (the early return for an empty buffer is optional: write_all of an empty slice does nothing)
    col.rule("V3" + sfx, "Drop flushes", floor=1)
    col.rule("V4" + sfx, "flush-per-write in the dev profile, not in release", floor=2)
    col.rule("V5" + sfx, "end stored only by new / write_bytes / flush", floor=1)
    col.rule("V6" + sfx, "digit buffers: BASE_10_LEN table, radix-10 loop from the end, '0' special case", floor=18)
    col.rule("V7" + sfx, "signed: '-' iff negative, magnitude through unsigned_abs", floor=6)
    col.rule("V8" + sfx, "separators: tuples W (S W)*, Vec separator before every element but the first", floor=8)

    # ---------------- V1  (write_bytes with its private helpers AND flush inlined: one path = one complete append)
    I = util.analyser(helpers + [fl])(wb)
    selfp = ("deref", ("param", 1, I.names.get(1)))
    bufp = ("deref", ("param", 2, I.names.get(2)))
    end0 = ("load", ("m0",), ("field", selfp, END))
    L = ("len", ("load", ("m0",), bufp))
    for n, st in enumerate(I.final_states):
        evs = st.event_list()
        cp = [k for k, e in enumerate(evs) if e.kind == "call" and e.extra.get("name") == "copy_from_slice"]
        adv = [k for k, e in enumerate(evs) if e.kind == "store" and e.place == ("field", selfp, END)]
        key = "%s|room-copy-advance" % fk(wb)
        why = None
        empty_by_call = any(f[0] == "eq" and f[2] == 1 and isinstance(f[1], tuple) and f[1] and f[1][0] == "call" and str(f[1][1]).endswith("::is_empty") and any(x in (("param", 2, I.names.get(2)), ("ref", bufp)) for x in f[1][2]) for f in st.facts)
        if not cp and not adv and (empty_by_call or any(f[0] == "eq" and isinstance(f[1], tuple) and f[1] and f[1][0] == "bin" and ((f[1][1] == "Eq" and f[2] == 1) or (f[1][1] == "Ne" and f[2] == 0)) and {f[1][2], f[1][3]} == {L, mk_int(0)} for f in st.facts)):
            col.ok("V1" + sfx, wb.loc(), key + "|%d|empty" % n, "empty slice: nothing to append, nothing changes")
            continue
        if len(cp) != 1:
            why = "%d copies into the buffer on one path" % len(cp)
        else:
            c = evs[cp[0]]
            dst = _flatten_range(c.args[0])
            okd = dst[0] == "ref" and dst[1][0] == "range" and dst[1][1] == ("field", selfp, BUF) and dst[1][2][0] == "agg" and str(dst[1][2][1][1]).endswith("ops::Range")
            if not okd or c.args[1] not in (("param", 2, I.names.get(2)), ("ref", bufp)):
                why = "the copy is not buf[a..b].copy_from_slice(bytes): %s <- %s" % (tstr(dst), tstr(c.args[1]))
            else:
                a_, b_ = dst[1][2][2]
                # the Writer's invariant end <= capacity and the callers' bound len <= capacity (V1b) are assumed
                facts = set(c.state[0]) | {("eq", ("bin", "Le", end0, mk_int(cap)), 1), ("eq", ("bin", "Le", L, mk_int(cap)), 1)}
                z = zones.zone_of(frozenset(facts), I.tys)
                cur_end = I.load(c.state[1], ("field", selfp, END))
                # the fill level may be advanced before the copy (`let start = end; end += len; buf[start..end] <- bytes`):
                # the copy then starts at the level the advance started from
                early = [k for k in adv if k < cp[0] and evs[k].val != mk_int(0)]
                if len(early) == 1 and not [k for k in adv if k > cp[0]]:
                    prev_end = I.load(evs[early[0]].state[1], ("field", selfp, END))
                    if util.lin_equal(evs[early[0]].val, ("bin", "Add", prev_end, L)) and not [k for k in adv if early[0] < k < cp[0]]:
                        cur_end = prev_end
                        adv = [k for k in adv if k != early[0]] + [cp[0] + 10 ** 6]
                        early_val = evs[early[0]].val
                    else:
                        early_val = None
                else:
                    early_val = None
                if not util.lin_equal(b_, ("bin", "Add", a_, L)):
                    why = "the destination range %s..%s is not exactly len(bytes) long" % (tstr(a_), tstr(b_))
                elif not (a_ == cur_end or z.entails("Eq", a_, cur_end)):
                    why = "the destination does not start at the current fill level (starts at %s, end is %s)" % (tstr(a_), tstr(cur_end))
                elif not z.entails("Le", ("bin", "Add", a_, L), mk_int(cap)):
                    why = "on this path end + len <= capacity (%d) is not entailed at the copy: the bytes do not fit (no flush, or a wrong threshold)" % cap
                else:
                    later = [k for k in adv if k > cp[0]]
                    if early_val is not None:
                        if not util.lin_equal(early_val, ("bin", "Add", a_, L)):
                            why = "end is not advanced by exactly len(bytes)"
                    elif len(later) != 1 or not util.lin_equal(evs[later[0]].val, ("bin", "Add", a_, L)):
                        why = "end is not advanced by exactly len(bytes) after the copy"
        if why is None:
            col.ok("V1" + sfx, wb.loc(), key + "|%d" % n, "room for len entailed; buf[end..end+len] <- bytes; end += len")
        else:
            col.violation("V1" + sfx, key, wb.loc(), "write_bytes: %s" % why)
    # V1b callers
    base10 = _base10(prog)
    for b in crate.bodies:
        if b.key == wb.key:
            continue
        try:
            Ib = util.analyse(b)
        except Exception:
            continue
        seen = set()
        for st in Ib.all_end_states():
            for ev in st.event_list():
                if not _is(ev, wb) or ev.bb in seen:
                    continue
                seen.add(ev.bb)
                a = ev.args[1]
                bound = None
                desc = tstr(a)
                if a[0] == "ref":
                    pl = a[1]
                    if pl[0] == "local":
                        ty = b.locals[pl[1]]["ty"]
                        if ty.startswith("[u8;"):
                            bound = _array_len(ty, b, crate)
                    elif pl[0] == "range" and pl[1][0] == "local":
                        ty = b.locals[pl[1][1]]["ty"]
                        if ty.startswith("[u8;"):
                            bound = _array_len(ty, b, crate)
                    elif pl[0] == "constval" and pl[1][0] == "agg":
                        bound = len(pl[1][2])
                    elif pl[0] == "constval" and pl[1][0] in ("repeat",):
                        bound = 1
                if bound is None:
                    vals = ev.extra["argvals"][1]
                    if vals is not None and vals[0] == "agg" and vals[1] == "array":
                        bound = len(vals[2])
                if bound is None:
                    # a chunk produced by chunks(K)
                    for s in subterms(a):
                        if s[0] == "call" and str(s[1]).endswith("::chunks"):
                            k = [x for x in s[2] if isinstance(x, tuple) and x and x[0] in ("int", "assoc")]
                            if k and k[-1][0] == "int":
                                bound = k[-1][1]
                            elif k:
                                bound = _assoc_value(crate, k[-1])
                    if bound is None:
                        for e2 in st.event_list():
                            if e2.kind == "call" and e2.extra.get("name") == "chunks":
                                k = e2.args[1]
                                bound = k[1] if k[0] == "int" else _assoc_value(crate, k)
                if bound is None and b.is_closure:
                    # the closure forwards its own parameter: the bound comes from the iterator it is applied to
                    # in the parent (`chunks(K).for_each(|chunk| self.write_bytes(chunk))`)
                    par = crate.by_key.get(b.parent)
                    if par is not None and any(s_[0] == "param" for s_ in [a] + list(subterms(a))):
                        Ip = util.analyse(par)
                        for stp in Ip.all_end_states():
                            for e2 in stp.event_list():
                                if e2.kind != "call" or not any(isinstance(x, tuple) and x and x[0] == "agg" and isinstance(x[1], tuple) and x[1][0] == "closure" and x[1][1] == b.key for x in e2.args):
                                    continue
                                for x in e2.args:
                                    for s_ in [x] + list(subterms(x)):
                                        if s_[0] == "call" and str(s_[1]).endswith("::chunks"):
                                            k = [y for y in s_[2] if isinstance(y, tuple) and y and y[0] in ("int", "assoc")]
                                            if k:
                                                bound = k[-1][1] if k[-1][0] == "int" else _assoc_value(crate, k[-1])
                if bound is None and ev.state:
                    # the call is guarded by a test of the slice's own length (`if bytes.len() <= BUF_SIZE { .. }`)
                    facts_ = ev.state[0]
                    for f_ in facts_:
                        for s_ in ([f_[1]] + list(subterms(f_[1]))) if isinstance(f_[1], tuple) else []:
                            if s_[0] == "len" and any(x == (a[1] if a[0] == "ref" else ("deref", a)) for x in subterms(s_)) and zones.entails(facts_, "Le", s_, mk_int(cap), Ib.tys):
                                bound = cap
                                desc = "%s (length tested against the capacity on this path)" % tstr(a)
                key = "%s|write_bytes-arg" % fk(b)
                if bound is not None and bound <= cap:
                    col.ok("V1" + sfx, b.loc(ev.bb), key, "slice length <= %d <= capacity %d" % (bound, cap))
                else:
                    col.violation("V1" + sfx, key, b.loc(ev.bb), "%s passes %s to write_bytes and its length is not bounded by the buffer capacity %d: after reserve() the copy no longer fits" % (b.path, desc, cap))

    # ---------------- V2
    I = A(fl)
    selfp = ("deref", ("param", 1, I.names.get(1)))
    endl = ("load", ("m0",), ("field", selfp, END))
    for st in I.final_states:
        evs = st.event_list()
        z = zones.zone_of(st.facts, I.tys)
        acts = [e for e in evs if e.kind in ("call", "store") and not (e.kind == "call" and e.extra.get("pure") and e.extra.get("name") in ("index", "deref", "len"))]
        if not [e for e in evs if e.kind == "store" or (e.kind == "call" and e.extra.get("name") == "write_all")]:
            # a path that does nothing is right exactly when nothing is buffered
            key = "%s|early-return" % fk(fl)
            if z.entails("Eq", endl, mk_int(0)):
                col.ok("V2" + sfx, fl.loc(), key, "nothing buffered: returns")
            else:
                col.violation("V2" + sfx, key, fl.loc(), "flush returns without writing on a path where the buffer is not known to be empty: buffered bytes are dropped")
            continue
        wa = [k for k, e in enumerate(evs) if e.kind == "call" and e.extra.get("name") == "write_all" and e.args[0] == ("ref", ("field", selfp, SINK))]
        others = [e for e in evs if e.kind == "call" and e.args and e.args[0] == ("ref", ("field", selfp, SINK)) and e.extra.get("name") != "write_all"]
        rst = [k for k, e in enumerate(evs) if e.kind == "store" and e.place == ("field", selfp, END)]
        ok = len(wa) == 1 and not others and len(rst) == 1 and wa[0] < rst[0] and evs[rst[0]].val == mk_int(0)
        if ok:
            w = evs[wa[0]]
            sl = w.args[1]
            ok = sl[0] == "ref" and sl[1][0] == "range" and sl[1][1] == ("field", selfp, BUF) and sl[1][2][0] == "agg" and sl[1][2][1][1].endswith("RangeTo") and sl[1][2][2] == (endl,)
            unw = [e for e in evs if e.kind == "call" and e.extra.get("name") in ("unwrap", "expect") and e.args[0] == w.res]
            ok = ok and bool(unw)
        key = "%s|write-all-then-reset" % fk(fl)
        if ok:
            col.ok("V2" + sfx, fl.loc(), key, "write_all(&buf[..end]).unwrap(); end = 0")
        else:
            col.violation("V2" + sfx, key, fl.loc(), "flush must hand exactly buf[..end] to write_all (checking the result) and only afterwards reset end: %s" % ("the sink is reached through %s (short counts / Interrupted are then the caller's problem)" % sorted({e.extra.get("name") for e in others}) if others else "order or slice is wrong"))
    users = set()
    for b in crate.bodies:
        for bb, idx, s in b.statements():
            if s["k"] != "assign":
                continue
            rv = s["rv"]
            pls = [rv["place"]] if rv["k"] in ("ref", "rawptr") else []
            for pl in pls:
                for e in pl["p"]:
                    if e[0] == "field" and e[1] == SINK and "dyn std::io::Write" in (e[3] or ""):
                        users.add(b.name)
                        if b.key != fl.key:
                            col.violation("V2" + sfx, "%s|touches-sink" % fk(b), b.loc(bb, idx), "%s uses the sink directly; only flush may" % b.path)
    col.ok("V2" + sfx, "-", "sink-users=%s" % ",".join(sorted(users)), "the sink is borrowed only in %s" % sorted(users))

    # ---------------- V3
    dr = None
    for b in crate.bodies:
        imp = crate.impl_of(b)
        if imp is not None and (imp.get("trait") or "").endswith("Drop") and "Writer" in imp["self_ty"]:
            dr = b
    if dr is None:
        col.violation("V3" + sfx, "Writer|no-drop", "-", "Writer has no Drop impl: buffered bytes are lost when it goes out of scope")
    else:
        I = util.analyse(dr)
        ok = all(any(_is(e, fl) for e in st.event_list()) for st in I.final_states)
        if ok:
            col.ok("V3" + sfx, dr.loc(), "%s|flushes" % fk(dr), "drop() calls flush()")
        else:
            col.violation("V3" + sfx, "%s|flushes" % fk(dr), dr.loc(), "Drop for Writer does not flush: the tail of the output is lost")

    # ---------------- V4
    for b in (wr, wc):
        I = A(b)
        for st in I.final_states:
            evs = st.event_list()
            fidx = [k for k, e in enumerate(evs) if _is(e, fl)]
            # the payload: a call of write / write_bytes, or (a verified one-byte appender, V1) a store into the buffer;
            # a flush that makes room BEFORE the payload (reserve) is not the per-write flush
            payload = [k for k, e in enumerate(evs) if (e.kind == "call" and not _is(e, fl) and (e.extra.get("name") in ("write", "write_bytes") or _is(e, wb))) or (e.kind == "store" and e.place[0] == "index" and isinstance(e.place[1], tuple) and e.place[1][0] == "field" and e.place[1][2] == BUF)]
            key = "%s|flush-per-write" % fk(b)
            after = [k for k in fidx if payload and k > max(payload)]
            if profile == "dev":
                ok = bool(payload) and bool(after)
                msg = "debug build: %s must flush after writing" % b.path
            else:
                ok = bool(payload) and not after
                msg = "release build: %s must not flush on every write (buffered mode)" % b.path
            if ok:
                col.ok("V4" + sfx, b.loc(), key, "payload then flush" if profile == "dev" else "buffered, no flush")
            else:
                col.violation("V4" + sfx, key, b.loc(), msg)

    # ---------------- V5
    writers = set()
    for b in crate.bodies:
        for bb, idx, s in b.statements():
            if s["k"] == "assign" and any(e[0] == "field" and e[1] == END and e[3] == "usize" for e in s["place"]["p"]) and any(e[0] == "deref" for e in s["place"]["p"]):
                tyroot = b.locals[s["place"]["l"]]["ty"]
                if "Writer<" in tyroot:
                    writers.add(b.name)
                    if b.key not in (wb.key, fl.key) and b.name != "new" and b.key not in {h_.key for h_ in helpers}:
                        why1 = _single_byte_append(b, helpers + [fl], BUF, END, cap)
                        if why1 is None:
                            col.ok("V1" + sfx, b.loc(bb, idx), "%s|single-byte-append" % fk(b), "room for one byte entailed; buf[end] <- byte; end += 1 (a second primitive appender, judged like write_bytes)")
                            continue
                        col.violation("V5" + sfx, "%s|stores-end" % fk(b), b.loc(bb, idx), "%s modifies the fill level of the buffer; only write_bytes and flush may (and it is not a one-byte append at the fill level: %s)" % (b.path, why1))
    # a private helper that stores the fill level (`write_byte`) is judged inlined into every caller that is not itself a helper
    hk = {h_.key for h_ in helpers}
    end_helpers = set()
    for h_ in helpers:
        for bb, idx, s in h_.statements():
            if s["k"] == "assign" and any(e[0] == "field" and e[1] == END and e[3] == "usize" for e in s["place"]["p"]) and any(e[0] == "deref" for e in s["place"]["p"]) and "Writer<" in h_.locals[s["place"]["l"]]["ty"]:
                end_helpers.add(h_.key)
    if end_helpers:
        for b in crate.bodies:
            if b.is_closure or b.key in hk or b.key in (wb.key, fl.key) or b.name == "new":
                continue
            if not any(x.key in end_helpers for x in util.helper_callees(crate, b, helpers)):
                continue
            why1 = _single_byte_append(b, helpers + [fl], BUF, END, cap)
            if why1 is None:
                col.ok("V1" + sfx, b.loc(), "%s|single-byte-append" % fk(b), "through a private appender: room for one byte entailed; buf[end] <- byte; end += 1")
            else:
                col.violation("V5" + sfx, "%s|stores-end" % fk(b), b.loc(), "%s modifies the fill level of the buffer through a private helper; only write_bytes and flush may (and it is not a one-byte append at the fill level: %s)" % (b.path, why1))
    col.ok("V5" + sfx, "-", "end-writers=%s" % ",".join(sorted(writers)), "end is stored only in %s" % sorted(writers))

    # ---------------- V6 / V7
    _digits(col, crate, base10, wb, wc, wr, sfx)

    # ---------------- V9 (macros, by witness expansion)
    _out_macros(col, sfx, fixture)

    # ---------------- V8
    for b in crate.bodies:
        imp = crate.impl_of(b)
        if not (imp is not None and (imp.get("trait") or "").endswith("Writable") and b.name == "write"):
            continue
        sty = imp["self_ty"]
        if sty.startswith("("):
            I = A(b)   # (private Writer helpers such as a `write_separator` are judged inlined)
            arity = len([x for x in sty.strip("()").split(",") if x.strip()])
            for st in I.final_states:
                seq = []
                for e in st.event_list():
                    if _is(e, wr):
                        a = e.args[1]
                        fld = None
                        for s in [a] + list(subterms(a)):
                            if s[0] == "field" and s[1] == ("deref", ("param", 1, I.names.get(1))):
                                fld = s[2]
                        seq.append(("W", fld))
                    elif _is(e, wc):
                        sv = e.args[1]
                        if isinstance(sv, tuple) and sv and sv[0] == "assoc" and _assoc_value(crate, sv) is not None:
                            sv = mk_int(_assoc_value(crate, sv))   # a named constant for the separator
                        seq.append(("S", sv))
                want = []
                for i in range(arity):
                    if i:
                        want.append(("S", mk_int(32)))
                    want.append(("W", i))
                key = "%s|arity%d" % (fk(b), arity)
                if seq == want:
                    col.ok("V8" + sfx, b.loc(), key, "W (S W)* with %d separators, field order" % (arity - 1))
                else:
                    col.violation("V8" + sfx, "%s|sequence" % fk(b), b.loc(), "tuple writer emits %s; expected the %d components in field order with exactly one ' ' between neighbours" % (seq, arity))
        elif sty.lstrip("&").replace("alloc::", "std::") in ("str", "std::string::String"):
            _string_writer(col, crate, b, wb, sfx, helpers)
        elif sty.startswith(("std::vec::Vec<", "alloc::vec::Vec<")) or (sty.startswith("[") and sty.endswith("]") and ";" not in sty):
            conv = [m for m in util.methods_of(crate, "Writer") if m.key not in (wb.key, fl.key, wr.key, wc.key) and not util.self_recursive(m)]
            conv += [m for m in crate.bodies if not m.is_closure and m.kind == "Fn" and m.container is None and m.vis != "pub" and not util.self_recursive(m)]
            I = util.analyser(conv)(b)
            key = "%s|separator-before-all-but-first" % fk(b)
            # delegation to another sequence impl (Vec -> slice): that impl is judged on its own
            deleg = None
            for st in I.final_states:
                for e in st.event_list():
                    if e.kind == "call" and e.extra.get("name") == "write" and (e.extra.get("trait") or "").endswith("Writable"):
                        tgt = crate.by_key.get((e.fn.get("resolved") or e.fn).get("def"))
                        ti = crate.impl_of(tgt) if tgt is not None else None
                        if ti is not None and ti["self_ty"].lstrip("&").startswith("[") and not I.backedge_states:
                            deleg = ti["self_ty"]
            if deleg:
                col.ok("V8" + sfx, b.loc(), key, "delegates to the %s writer" % deleg)
                continue

            def emis(evs):
                out = []
                for e in evs:
                    if _is(e, wc):
                        out.append("S" if e.args[1] == mk_int(32) else "?")
                    elif _is(e, wr):
                        out.append("W")
                return out

            backs = [s_ for l in I.backedge_states.values() for s_ in l] + list(I.inl_back)
            pre_set, it_first, it_rest, its = set(), None, None, []
            for st in backs:
                evs = st.event_list()
                li = max(k for k, e in enumerate(evs) if e.kind == "loop")
                if _slice_iter_exhausted(st, evs[:li]):
                    continue  # `if let Some(first) = it.next()` failed: a slice iterator is fused, the loop over it is empty
                if _first_of_self_is_none(st, evs[:li], I):
                    continue  # `if let Some(first) = self.first()` failed: the sequence is empty, so is any loop over (part of) it
                # the first element taken by `self.first()`: the loop must then walk the sequence WITHOUT it
                if _first_by_query(evs[:li], wr) and not _loop_skips_first(I, st, evs, li):
                    pre_set.add(("W", "and-again"))
                pre_set.add(tuple(emis(evs[:li])))
                it = emis(evs[li:])
                first = None
                for f in st.facts:
                    t = f[1]
                    if f[0] == "eq" and isinstance(t, tuple) and t[0] == "bin" and t[1] in ("Ne", "Eq") and t[3] == mk_int(0) and any(x[0] in ("phi", "rnext", "call", "proj") for x in subterms(t[2])) :
                        first = (t[1] == "Ne") != bool(f[2])
                its.append((first, it))
            post_ok = True
            for st in I.final_states:
                evs = st.event_list()
                lis = [k for k, e in enumerate(evs) if e.kind == "loop"]
                if lis:
                    post_ok = post_ok and not emis(evs[max(lis):])
                else:
                    # a path that never reaches the loop may only be the empty sequence (`if self.is_empty() { return }`);
                    # `if self.len() == 1 { return }` prints nothing for a one-element vector
                    # (a path that hands the sequence on - `write_iter(self.iter())`, `self.as_slice().write(w)` - is a
                    # delegation, judged where the elements are walked)
                    queries = ("is_empty", "len", "deref", "as_slice", "as_ref", "iter", "into_iter", "first", "last", "split_first", "split_last", "next", "get", "borrow")
                    hands_on = any(e.kind == "call" and e.extra.get("name") not in queries and not _is(e, wc) and not _is(e, wr) for e in evs)
                    post_ok = post_ok and not emis(evs) and (hands_on or _known_empty_seq(st))
            # `&self[1..]` needs an element to be there: on a path that has not seen one the slice expression itself panics
            # (an empty vector prints nothing, it does not abort)
            for st in I.all_end_states():
                evs = st.event_list()
                for e in evs:
                    if not (e.kind == "call" and e.extra.get("name") in ("index", "index_mut") and len(e.args) > 1 and _self_seq(e.args[0], I)):
                        continue
                    r_ = e.args[1]
                    if not (r_[0] == "agg" and isinstance(r_[1], tuple) and str(r_[1][1]).endswith(("ops::RangeFrom", "ops::Range", "ops::RangeInclusive")) and r_[2] and r_[2][0][0] == "int" and r_[2][0][1] >= 1):
                        continue
                    facts_ = e.state[0] if getattr(e, "state", None) else st.facts
                    some_ = any(f[0] in ("eq", "ne") and isinstance(f[1], tuple) and f[1][0] == "discr" and isinstance(f[1][1], tuple) and f[1][1][0] == "call" and str(f[1][1][1]).rsplit("::", 1)[-1] in ("first", "last", "split_first", "split_last") and _self_seq(f[1][1], I) and ((f[0] == "eq" and f[2] == 1) or (f[0] == "ne" and f[2] == 0)) for f in facts_)
                    nonempty_ = any(f[0] == "eq" and f[2] == 0 and isinstance(f[1], tuple) and f[1][0] == "call" and str(f[1][1]).rsplit("::", 1)[-1] == "is_empty" and _self_seq(f[1], I) for f in facts_)
                    lens_ = [x.res for x in evs if x.kind == "call" and x.extra.get("name") == "len" and x.args and _self_seq(x.args[0], I)]
                    long_ = any(zones.entails(facts_, "Ge", l_, mk_int(r_[2][0][1]), I.tys) for l_ in lens_)
                    if not (some_ and r_[2][0][1] == 1 or nonempty_ and r_[2][0][1] == 1 or long_):
                        post_ok = False
                        col.violation("V8" + sfx, "%s|slice-of-empty" % fk(b), b.loc(e.bb), "the sequence writer slices self[%d..] on a path that has not seen an element: for an empty vector the slice expression panics instead of printing nothing" % r_[2][0][1])
            form_a = pre_set == {()} and its and all((f is True and it == ["W"]) or (f is False and it == ["S", "W"]) for f, it in its) and {f for f, _ in its} == {True, False}
            form_b = pre_set == {("W",)} and its and all(it == ["S", "W"] for _, it in its)
            if post_ok and (form_a or form_b):
                col.ok("V8" + sfx, b.loc(), key, "W (S W)*: %s" % ("index 0 without separator, every other element preceded by one ' '" if form_a else "first element, then ' ' + element for the rest"))
            else:
                col.violation("V8" + sfx, key, b.loc(), "sequence writer must emit one ' ' before every element except the first (and none after the last)")


def _string_writer(col, crate, b, wb, sfx, helpers):
    """V10: a string is written as all of its bytes, in order, once: the writer walks `chunks(K)` of the string's bytes (a
    loop or `for_each`) handing every chunk to write_bytes exactly once, or hands the whole string on to another string
    writer; a path that does neither may only be the empty string"""
    fk = util.fkey
    hs = [h for h in helpers if h.key != wb.key]
    I = util.analyser(hs)(b)
    selfp = ("param", 1, I.names.get(1))
    key = "%s|every-byte-once" % fk(b)

    def from_self(t):
        return any(x == selfp for x in [t] + list(subterms(t)))

    def chunk_src_ok(t):
        """t is chunks(<bytes of self>, _)"""
        return isinstance(t, tuple) and t and t[0] == "call" and str(t[1]).endswith("::chunks") and from_self(t[2][0])

    ok = bool(I.final_states)
    why = "no returning path"
    backs = [s_ for l in I.backedge_states.values() for s_ in l] + list(I.inl_back)
    for st in backs:
        evs = st.event_list()
        li = max(k for k, e in enumerate(evs) if e.kind == "loop")
        wbs = [e for e in evs[li:] if _is(e, wb)]
        nx = [e for e in evs[li:] if e.kind == "call" and e.extra.get("name") == "next"]
        if len(wbs) != 1 or not nx or not any(x == nx[-1].res for x in subterms(wbs[0].args[1])):
            ok, why = False, "a round of the chunk loop does not hand exactly the current chunk to write_bytes"
    for st in I.final_states:
        evs = st.event_list()
        looped = any(e.kind == "loop" for e in evs)
        chunks_ = [e for e in evs if e.kind == "call" and e.extra.get("name") == "chunks"]
        fe = [e for e in evs if e.kind == "call" and e.extra.get("name") == "for_each"]
        deleg = [e for e in evs if e.kind == "call" and e.extra.get("name") == "write" and (e.extra.get("trait") or "").endswith("Writable") and e.args and (from_self(e.args[0]) or ((e.extra.get("argvals") or [None])[0] is not None and from_self(e.extra["argvals"][0])))]
        direct = [e for e in evs if _is(e, wb)]
        if looped and chunks_ and all(from_self(c_.args[0]) for c_ in chunks_) and not direct and not fe:
            continue
        if fe and len(fe) == 1 and chunk_src_ok(fe[0].args[0]) and not looped and not direct:
            clo = fe[0].args[1]
            cb = crate.by_key.get(clo[1][1]) if clo[0] == "agg" and isinstance(clo[1], tuple) and clo[1][0] == "closure" else None
            good = cb is not None
            if good:
                Ic = util.analyser(hs)(cb)
                it_ = ("param", 2, Ic.names.get(2))
                for cst in Ic.final_states:
                    w_ = [e for e in cst.event_list() if _is(e, wb)]
                    good = good and len(w_) == 1 and w_[0].args[1] in (it_, ("ref", ("deref", it_)))
            if good:
                continue
            ok, why = False, "the for_each closure does not hand exactly its chunk to write_bytes"
            continue
        if len(deleg) == 1 and not looped and not direct and not fe:
            continue
        if len(direct) == 1 and not looped and not fe and not deleg and from_self(direct[0].args[1]) and any(x[0] == "call" and str(x[1]).endswith("::as_bytes") for x in [direct[0].args[1]] + list(subterms(direct[0].args[1]))):
            continue   # the whole string in one piece (that it fits is V1b's obligation at this call site)
        if not looped and not fe and not deleg and not direct and _known_empty_seq(st):
            continue
        ok, why = False, "a path writes something other than every chunk of the string's bytes once (or returns early for a string that is not known to be empty)"
    if ok:
        col.ok("V8" + sfx, b.loc(), key, "every chunk of the string's bytes goes to write_bytes once, in order")
    else:
        col.violation("V8" + sfx, key, b.loc(), "%s: %s" % (b.path, why))


def _known_empty_seq(st):
    """the path facts say the sequence being written has no elements: is_empty() answered true, or its len() compared
    equal to 0"""
    for f in st.facts:
        t = f[1]
        if f[0] not in ("eq", "ne") or not isinstance(t, tuple) or not t or f[2] not in (0, 1) or isinstance(f[2], bool):
            continue
        truth = (f[0] == "eq") == bool(f[2])
        if t[0] == "call" and str(t[1]).endswith("::is_empty") and truth:
            return True
        if t[0] == "bin" and t[1] in ("Eq", "Ne") and mk_int(0) in (t[2], t[3]):
            other = t[3] if t[2] == mk_int(0) else t[2]
            is_len = isinstance(other, tuple) and other and (other[0] == "len" or (other[0] == "call" and str(other[1]).endswith("::len")))
            if is_len and truth == (t[1] == "Eq"):
                return True
    # ... or its first element does not exist: split_first() / first() / next() on a fresh iterator answered None
    for f in st.facts:
        t = f[1]
        if isinstance(t, tuple) and t and t[0] == "discr" and isinstance(t[1], tuple) and t[1] and t[1][0] == "call" and str(t[1][1]).rsplit("::", 1)[-1] in ("split_first", "first", "next", "split_last", "last"):
            if (f[0] == "eq" and f[2] == 0 and not isinstance(f[2], bool)) or (f[0] == "ne" and f[2] == 1 and not isinstance(f[2], bool)):
                return True
    return False


def _digits_cell_form(crate, b, bufl, wb, wc):
    """the digit loop moved into a private helper that fills the caller's buffer through &mut (and may take the
    digit-splitting step as a closure): (radix loop ok, why not, zero-and-tail ok), or None when there is no such loop"""
    helpers = [m for m in crate.bodies if not m.is_closure and m.kind == "Fn" and m.container is None and m.vis != "pub" and not util.self_recursive(m)]
    try:
        I = util.analyser(helpers, features=("fncall", "mutlocal"))(b)
    except Exception:
        return None
    owners, work = [], list(getattr(I, "inlined_subs", []))
    while work:
        x_ = work.pop()
        owners.extend((x_, h_) for h_ in x_.loops)
        work.extend(getattr(x_, "inlined_subs", []))
    if len(owners) != 1:
        return None
    L, head = owners[0]
    uid = L.uid(head)
    backs = L.backedge_states.get(head, [])
    ents = L.loop_entry.get(head, [])
    if not backs or len(ents) != 1:
        return None
    ent = ents[0]
    selfval = ("load", ("m0",), ("deref", ("param", 1, I.names.get(1))))
    ok, why = True, ""
    il = vl = None
    for st in backs:
        evs = st.event_list()
        li = max(k for k, e in enumerate(evs) if e.kind == "loop")
        stores = [e for e in evs[li:] if e.kind == "store"]
        if len(stores) != 1 or stores[0].place[0] != "index" or util.cell_origin(evs, stores[0].place[1]) != ("local", bufl):
            return False, "a round does not store exactly one digit into the digit buffer", False
        idx, dig = stores[0].place[2], stores[0].val
        if not (idx[0] == "bin" and idx[1] == "Sub" and idx[3] == mk_int(1) and idx[2][0] == "phi" and idx[2][1] == uid and st.env.get(idx[2][2]) == idx):
            ok, why = False, "the index does not step down by one per digit (%s)" % tstr(idx)
            continue
        il = idx[2][2]
        start = ent.get(il)
        blen = str(b.locals[bufl]["ty"]).split(";")[-1].strip(" ]")
        at_end = isinstance(start, tuple) and start and start[0] == "len" and (any(x == stores[0].place[1] for x in subterms(start)) or (isinstance(start[1], tuple) and start[1] and start[1][0] == "repeat" and str(start[1][2]) == blen))
        at_end = at_end or (blen.isdigit() and start == mk_int(int(blen)))   # a named constant equal to the buffer's length
        if not at_end:
            ok, why = False, "the index does not start at the end of the digit buffer (%s)" % tstr(start)
        if not (dig[0] == "bin" and dig[1] == "Add" and mk_int(48) in (dig[2], dig[3])):
            ok, why = False, "digit is %s" % tstr(dig)
            continue
        other = dig[2] if dig[3] == mk_int(48) else dig[3]
        rem = _digit_operand(other)
        if not (rem[0] == "bin" and rem[1] == "Rem" and rem[3] == mk_int(10) and rem[2][0] == "phi" and rem[2][1] == uid):
            ok, why = False, "digit is %s" % tstr(dig)
            continue
        vl = rem[2][2]
        pv = ("phi", uid, vl)
        if st.env.get(vl) != ("bin", "Div", pv, mk_int(10)) or ent.get(vl) != selfval:
            ok, why = False, "the value is not divided by ten per digit, starting from the number itself"

        def unref(v):
            return v[1][1] if isinstance(v, tuple) and v and v[0] == "ref" and v[1][0] == "constval" else v

        cont = False
        for f in st.facts:
            t = f[1]
            if f[0] == "eq" and isinstance(t, tuple) and t and t[0] == "bin" and t[2] == pv and t[3] == mk_int(0) and ((t[1] == "Ne" and f[2] == 1) or (t[1] == "Eq" and f[2] == 0)):
                cont = True
            if f[0] == "ne" and t == pv and f[2] == 0:
                cont = True
            if f[0] == "eq" and isinstance(t, tuple) and t and t[0] == "call" and str(t[1]).endswith(("PartialEq::ne", "PartialEq::eq")):
                a_ = [unref(y) for y in t[2] if not (isinstance(y, tuple) and y and y[0] == "mem")]
                z_ = [y for y in a_ if isinstance(y, tuple) and y and ((y[0] == "assoc" and y[2] == "ZERO") or y == mk_int(0))]
                if len(a_) == 2 and len(z_) == 1 and pv in a_ and (bool(f[2]) == str(t[1]).endswith("::ne")):
                    cont = True
        if not cont:
            ok, why = False, "the loop does not continue exactly while the value is non-zero"
    # zero case and emitted tail
    okz, oke, ntail = False, True, 0
    for st in I.final_states:
        evs = st.event_list()
        zero = any(f[0] == "eq" and f[1] == selfval and f[2] == 0 and not isinstance(f[2], bool) for f in st.facts) or any(f[0] == "eq" and f[2] == 1 and isinstance(f[1], tuple) and f[1][0] == "bin" and f[1][1] == "Eq" and f[1][2] == selfval and f[1][3] == mk_int(0) for f in st.facts)
        tails = [e for e in evs if _is(e, wb) and not e.extra.get("in")]
        if zero and not tails:
            okz = okz or any(_is(e, wc) and e.args[1] == mk_int(48) for e in evs)
            continue
        if len(tails) != 1:
            oke = False
            continue
        ntail += 1
        a = tails[0].args[1]
        oke = oke and il is not None and a[0] == "ref" and a[1][0] == "range" and a[1][1] == ("local", bufl) and a[1][2][0] == "agg" and a[1][2][1][1].endswith("RangeFrom") and a[1][2][2][0] == ("phi", uid, il)
    return ok and il is not None and vl is not None, why, bool(oke and ntail and okz)


_OUT_WITNESS = """
#![allow(unused)]
use rlib_io::*;
pub fn out3(reader: Reader, writer: Writer, a: i32, b: u64, c: i64) { rlib_io::make_output_macro!(reader, writer); out!(a, b, c); }
pub fn out1(reader: Reader, writer: Writer, a: i32) { rlib_io::make_output_macro!(reader, writer); out!(a); }
pub fn outln2(reader: Reader, writer: Writer, a: i32, b: u64) { rlib_io::make_output_macro!(reader, writer); outln!(a, b); }
pub fn outln0(reader: Reader, writer: Writer) { rlib_io::make_output_macro!(reader, writer); outln!(); }
"""


def _out_macros(col, sfx, fixture):
    """the out!/outln! macros cannot be judged where they are defined: four expansions in a generated witness crate are
    exported and each must be  write(&a1) (write_char(' ') write(&ai))*  followed, for outln!, by write_char('\\n')"""
    from .. import witness

    if fixture or sfx:
        return
    col.rule("V9", "out!(a, b, ..) expands to W(a) (' ' W(x))* in argument order; outln! adds one '\\n'", floor=4)
    try:
        wp = witness.export_crate("c09w", _OUT_WITNESS, deps={"rlib_io": "rlib/io"})
    except Exception as e:  # the macros do not even expand
        col.violation("V9", "out-macros|expansion", "rlib/io/src/output_macro.rs", "the witness uses of out!/outln! do not compile: %s" % str(e)[:200])
        return
    try:
        wc_ = wp.crate("c09w")
        for fn, nargs, nl in (("out3", 3, False), ("out1", 1, False), ("outln2", 2, True), ("outln0", 0, True)):
            b = wc_.body(fn)
            I = util.analyse(b)
            ok = bool(I.final_states) and b is not None
            got = []
            for st in I.final_states:
                got = []
                for e in st.event_list():
                    if e.kind != "call":
                        continue
                    nm = e.extra.get("name")
                    if nm == "write" and "Writer" in str(e.callee):
                        a = e.args[1]
                        k = a[1][1] if a[0] == "ref" and a[1][0] == "local" else (a[1][1][1] if a[0] == "ref" and a[1][0] == "constval" and a[1][1][0] == "param" else None)
                        got.append(("W", k))
                    elif nm == "write_char":
                        got.append(("C", e.args[1][1] if e.args[1][0] == "int" else None))
                want = []
                for i in range(nargs):
                    if i:
                        want.append(("C", 32))
                    want.append(("W", 3 + i))
                if nl:
                    want.append(("C", 10))
                ok = ok and got == want
            key = "out-macros|%s" % fn
            if ok:
                col.ok("V9", "rlib/io/src/output_macro.rs", key, "%s expands to %s" % (fn, got))
            else:
                col.violation("V9", key, "rlib/io/src/output_macro.rs", "%s!(%d argument(s)) expands to the call sequence %s; expected the arguments in order, one ' ' between neighbours%s" % ("outln" if nl else "out", nargs, got, " and one trailing newline" if nl else ""))
    finally:
        wp.cleanup()


def _array_len(ty, b, crate):
    """length of `[u8; K]`: a literal, or for a const-generic helper (`fn write_digits<const N: usize>`) the largest value it
    is instantiated with anywhere in the crate"""
    k = ty.split(";")[1].strip(" ]")
    if k.isdigit():
        return int(k)
    vals = []
    for m in crate.bodies:
        for _bb, t in m.calls():
            fn = t["fn"].get("resolved") or t["fn"]
            if fn.get("def") == b.key or t["fn"].get("def") == b.key:
                vals += [int(x) for x in (t["fn"].get("args") or []) if str(x).isdigit()]
                vals += [int(x) for x in ((t["fn"].get("resolved") or {}).get("args") or []) if str(x).isdigit()]
    return max(vals) if vals else None


def _single_byte_append(b, inl, BUF, END, cap):
    """None when every path of b that touches the buffer is: room for one byte entailed (end + 1 <= capacity, after a
    possible flush), exactly one store buf[end_now] := byte, then end := end_now + 1; else the reason"""
    I = util.analyser(inl)(b)
    selfp = ("deref", ("param", 1, I.names.get(1)))
    end0 = ("load", ("m0",), ("field", selfp, END))
    for st in I.final_states:
        evs = st.event_list()
        bs = [k for k, e in enumerate(evs) if e.kind == "store" and e.place[0] == "index" and e.place[1] == ("field", selfp, BUF)]
        adv = [k for k, e in enumerate(evs) if e.kind == "store" and e.place == ("field", selfp, END)]
        other = [e for e in evs if e.kind == "call" and e.extra.get("name") in ("copy_from_slice", "copy_within", "fill")]
        if other:
            return "copies a slice into the buffer"
        if not bs and not adv:
            continue
        if len(bs) != 1:
            return "%d byte stores on one path" % len(bs)
        sb = evs[bs[0]]
        idx = sb.place[2]
        cur_end = I.load(sb.state[1], ("field", selfp, END))
        # what the path knows about the room, not counting the store's own bounds check (whose success edge would make any
        # index "in range": a failed check is a panic in the middle of the output)
        checks = {("eq", e.val, 1) for e in evs[: bs[0]] if e.kind == "assert" and isinstance(e.extra, dict) and e.extra.get("k") == "bounds"}
        facts = (set(sb.state[0]) - checks) | {("eq", ("bin", "Le", end0, mk_int(cap)), 1)}
        z = zones.zone_of(frozenset(facts), I.tys)
        if not (idx == cur_end or z.entails("Eq", idx, cur_end)):
            return "the byte is not stored at the current fill level"
        if not z.entails("Le", ("bin", "Add", idx, mk_int(1)), mk_int(cap)):
            return "end + 1 <= capacity is not entailed at the store"
        later = [k for k in adv if k > bs[0]]
        # (the dev profile flushes after every write: a reset to 0 may follow the advance)
        if not later or not util.lin_equal(evs[later[0]].val, ("bin", "Add", idx, mk_int(1))) or any(evs[k].val != mk_int(0) for k in later[1:]):
            return "end is not advanced by exactly one after the store"
        if [k for k in adv if k < bs[0] and evs[k].val != mk_int(0)]:
            return "end changes before the store other than by a flush"
    return None


def _self_seq(t, I):
    p = ("param", 1, I.names.get(1))
    return any(x == p for x in [t] + list(subterms(t)))


def _first_of_self_is_none(st, pre, I):
    """before the loop `self.first()` (or split_first) was found None on this path"""
    for e in pre:
        if e.kind == "call" and e.extra.get("name") in ("first", "split_first") and e.args and _self_seq(e.args[0], I):
            d = ("discr", e.res)
            if any((f[0] == "eq" and f[1] == d and f[2] == 0) or (f[0] == "ne" and f[1] == d and f[2] == 1) for f in st.facts):
                return True
    return False


def _first_by_query(pre, wr):
    """the element written before the loop is `self.first()`'s / `self[0]`'s (not one drawn from the loop's own iterator)"""
    for e in pre:
        if _is(e, wr) and len(e.args) > 1:
            a = e.args[1]
            if any(x[0] == "call" and str(x[1]).rsplit("::", 1)[-1] == "first" for x in [a] + list(subterms(a))):
                return True
            if any(x[0] == "idx" and x[-1] == mk_int(0) for x in [a] + list(subterms(a))):
                return True
    return False


def _loop_skips_first(I, st, evs, li):
    """the loop draws from `<iter>.skip(1)` or from `seq[1..]`"""
    nx = [e for e in evs[li:] if e.kind == "call" and e.extra.get("name") == "next" and e.args and e.args[0][0] == "ref" and e.args[0][1][0] == "local"]
    if not nx:
        return False
    heads = [h for h, sts in I.backedge_states.items() if st in sts]
    ents = I.loop_entry.get(heads[0], []) if heads else []
    if not ents:
        return False
    for en in ents:
        src = en.get(nx[-1].args[0][1][1])
        if src is None:
            return False
        ok = False
        for x in [src] + list(subterms(src)):
            if x[0] == "call" and str(x[1]).rsplit("::", 1)[-1] == "skip" and mk_int(1) in x[2]:
                ok = True
            if x[0] == "range" and isinstance(x[2], tuple) and x[2][0] == "agg" and str(x[2][1][1] if isinstance(x[2][1], tuple) else "").endswith("ops::RangeFrom") and x[2][2] == (mk_int(1),):
                ok = True
        if not ok:
            return False
    return True


def _slice_iter_exhausted(st, pre):
    """before the loop, next() on a std::slice::Iter local returned None and the loop runs over that same
    iterator (moved through into_iter): slice iterators are fused, so no round of the loop is feasible"""
    for e in pre:
        if not (e.kind == "call" and e.extra.get("name") == "next"):
            continue
        # a slice iterator by its type, or (inside an inlined helper generic over the iterator) by the value it was
        # given: the result of <[T]>::iter
        av = (e.extra.get("argvals") or [None])[0]
        by_value = isinstance(av, tuple) and av and av[0] == "call" and str(av[1]).startswith(("core::slice::<impl [T]>::iter", "std::slice::<impl [T]>::iter")) and str(av[1]).rsplit("::", 1)[-1] == "iter"
        if not ("slice::Iter<" in str(e.callee) or by_value):
            continue
        a = e.args[0]
        if not (a[0] == "ref" and a[1][0] == "local"):
            continue
        d = ("discr", e.res)
        none = any((f[0] == "eq" and f[1] == d and f[2] == 0) or (f[0] == "ne" and f[1] == d and f[2] == 1) for f in st.facts)
        if not none:
            continue
        for e2 in pre:
            if e2.kind == "call" and e2.extra.get("name") == "into_iter" and e2.args and e2.args[0][0] == "out" and e2.args[0][2] == a[1][1] and e2.args[0][1] == e.extra.get("uid"):
                return True
    return False


def _assoc_value(crate, t):
    if t[0] == "int":
        return t[1]
    if t[0] == "assoc":
        for k in crate.consts:
            if k["name"] == t[2] and k.get("val") is not None:
                return int(k["val"])
    return None


def _base10(prog):
    out = {}
    nt = prog.crates.get("rlib_num_traits")
    if nt is None:
        return out
    imps = {i["key"]: i["self_ty"] for i in nt.impls}
    for k in nt.consts:
        if k["name"] == "BASE_10_LEN" and k.get("val") is not None and k["parent"] in imps:
            out[imps[k["parent"]]] = int(k["val"])
    return out


def _digits(col, crate, base10, wb, wc, wr, sfx):
    fk = util.fkey
    if len(base10) < 12:
        raise Anchor("expected 12 evaluated BASE_10_LEN constants, found %d" % len(base10))
    for b in crate.bodies:
        imp = crate.impl_of(b)
        if not (imp is not None and (imp.get("trait") or "").endswith("Writable") and b.name == "write"):
            continue
        ty = imp["self_ty"]
        if ty in DIGITS:
            need = DIGITS[ty]
            have = base10.get(ty)
            key = "%s|base10len" % fk(b)
            if have is not None and have >= need:
                col.ok("V6" + sfx, b.loc(), key, "BASE_10_LEN(%s) = %d >= %d digits of MAX" % (ty, have, need))
            else:
                col.violation("V6" + sfx, key, b.loc(), "BASE_10_LEN of %s is %s but %s::MAX has %d decimal digits: the digit loop writes before the start of its buffer (index underflow)" % (ty, have, ty, need))
            I = util.analyse(b)
            bl = [l for l, d in enumerate(b.locals) if d["ty"] == "[u8; %d]" % (have or -1)]
            key = "%s|buffer-length" % fk(b)
            if bl:
                col.ok("V6" + sfx, b.loc(), key, "stack buffer is [u8; BASE_10_LEN]", nontrivial=False)
            else:
                col.violation("V6" + sfx, key, b.loc(), "the digit buffer of %s is not [u8; BASE_10_LEN]" % ty)
                continue
            bufl = bl[0]
            backs = [s for l in I.backedge_states.values() for s in l] + list(I.inl_back)
            if not backs:
                alt = _digits_cell_form(crate, b, bufl, wb, wc)
                if alt is not None:
                    okl_, whyl_, okt_ = alt
                    key = "%s|radix-10-loop" % fk(b)
                    if okl_:
                        col.ok("V6" + sfx, b.loc(), key, "digit loop in a private helper: index' = index - 1 from the end of the buffer, digit = value % 10 + '0', value' = value / 10, while value != 0")
                    else:
                        col.violation("V6" + sfx, key, b.loc(), "the digit loop of %s is not the radix-10 loop from the end of the buffer (%s)" % (ty, whyl_))
                    key = "%s|zero-and-tail" % fk(b)
                    if okt_:
                        col.ok("V6" + sfx, b.loc(), key, "0 -> '0'; otherwise emits buf[index..]")
                    else:
                        col.violation("V6" + sfx, key, b.loc(), "%s writer must render zero as '0' (special case, or a digit loop that runs at least once) and otherwise emit the tail buf[index..]" % ty)
                    continue
            okloop = bool(backs)
            why = "no digit loop"
            index_local = None
            dowhile = False
            for st in backs:
                head = [h for h in I.loops][0]
                arr = st.env.get(bufl)
                # buf' = upd(buf, index', digit)
                ok = isinstance(arr, tuple) and arr[0] == "upd"
                if ok:
                    idx, dig = arr[2], arr[3]
                    ok = idx[0] == "bin" and idx[1] == "Sub" and idx[3] == mk_int(1) and idx[2][0] == "phi"
                    il = idx[2][2]
                    ok = ok and st.env.get(il) == idx
                    index_local = il
                    # digit = (value % 10) as u8 + 48   (either operand order)
                    okd = dig[0] == "bin" and dig[1] == "Add" and mk_int(48) in (dig[2], dig[3])
                    if not okd and dig[0] == "bin" and dig[1] == "Add":
                        # `digits[i] += digit` on a buffer pre-filled with b'0': every slot is written at most once
                        # (the index strictly decreases), so the old content of the slot is still the fill byte
                        ent_arr = [en.get(bufl) for en in I.loop_entry.get(head, [])]
                        prefilled = bool(ent_arr) and all(isinstance(x, tuple) and x and x[0] == "repeat" and x[1] == mk_int(48) for x in ent_arr)
                        for old_, other_ in ((dig[2], dig[3]), (dig[3], dig[2])):
                            if prefilled and old_[0] == "idx" and old_[1] == ("phi", head, bufl) and old_[2] == idx:
                                dig = ("bin", "Add", mk_int(48), other_)
                                okd = True
                    rem = None
                    if okd:
                        other = dig[2] if dig[3] == mk_int(48) else dig[3]
                        rem = _digit_operand(other)
                        okd = rem[0] == "bin" and rem[1] == "Rem" and rem[3] == mk_int(10) and rem[2][0] == "phi"
                    ok = ok and okd
                    if okd:
                        vl = rem[2][2]
                        nv = st.env.get(vl)
                        phi_v = ("phi", head, vl)
                        ok = ok and nv == ("bin", "Div", phi_v, mk_int(10))

                        def nonzero(t):
                            return any((f[0] == "eq" and ((f[2] == 1 and f[1] == ("bin", "Ne", t, mk_int(0))) or (f[2] == 0 and f[1] == ("bin", "Eq", t, mk_int(0))))) or (f[0] == "ne" and f[1] == t and f[2] == 0) for f in st.facts)

                        # while value != 0 { .. }   or   loop { ..; if value == 0 { break } }
                        cont_head = nonzero(phi_v)
                        cont_tail = nonzero(nv)
                        dowhile = dowhile or (cont_tail and not cont_head)
                        ok = ok and (cont_head or cont_tail)
                    if not ok:
                        why = "loop body is idx' = %s, digit = %s" % (tstr(idx), tstr(dig))
                else:
                    why = "buffer not updated in the loop"
                okloop = okloop and ok
            key = "%s|radix-10-loop" % fk(b)
            if okloop:
                col.ok("V6" + sfx, b.loc(), key, "index -= 1; buf[index] = (value % 10) as u8 + b'0'; value /= 10; repeated while the value is non-zero")
            else:
                col.violation("V6" + sfx, key, b.loc(), "the digit loop of %s is not the radix-10 loop from the end of the buffer (%s)" % (ty, why))
            # emitted slice and zero case
            okz = False
            oke = True
            ntail = 0
            for st in I.final_states:
                evs = st.event_list()
                zero = any(f[0] == "eq" and f[2] == 1 and isinstance(f[1], tuple) and f[1][0] == "bin" and f[1][1] == "Eq" and f[1][3] in (("ref", ("constval", mk_int(0))), mk_int(0)) and f[1][2][0] != "bin" for f in st.facts)
                # `match *self { 0 => .., rest => .. }`: the switch is on the value itself
                selfval = ("load", ("m0",), ("deref", ("param", 1, I.names.get(1))))
                zero = zero or any(f[0] == "eq" and f[1] == selfval and f[2] == 0 and not isinstance(f[2], bool) for f in st.facts)
                tails = [e for e in evs if _is(e, wb)]
                if zero and not tails:
                    okz = okz or any(_is(e, wc) and e.args[1] == mk_int(48) for e in evs)
                    continue
                if not tails and zones.entails(st.facts, "Lt", selfval, mk_int(10), I.tys):
                    # one-digit fast path (zero included): the single byte b'0' + value
                    def _nocast(t_):
                        if isinstance(t_, tuple) and t_ and t_[0] == "cast":
                            return _nocast(t_[3])
                        if isinstance(t_, tuple) and t_ and t_[0] == "bin":
                            return (t_[0], t_[1], _nocast(t_[2]), _nocast(t_[3]))
                        return t_

                    one = [e for e in evs if _is(e, wc)]
                    if len(one) == 1 and util.lin_equal(_nocast(one[0].args[1]), ("bin", "Add", selfval, mk_int(48))):
                        okz = True
                        continue
                    oke = False
                    continue
                if len(tails) != 1:
                    oke = False
                    continue
                ntail += 1
                a = tails[0].args[1]
                cur = st.env.get(index_local) if index_local is not None else None
                oke = oke and a[0] == "ref" and a[1][0] == "range" and a[1][1] == ("local", bufl) and a[1][2][0] == "agg" and a[1][2][1][1].endswith("RangeFrom") and cur is not None and a[1][2][2][0] == cur
                if dowhile:
                    # the body ran at least once on this path: zero is rendered as the single digit '0'
                    arr = st.env.get(bufl)
                    oke = oke and isinstance(arr, tuple) and arr[0] == "upd"
            key = "%s|zero-and-tail" % fk(b)
            if oke and ntail and (okz or dowhile):
                col.ok("V6" + sfx, b.loc(), key, "0 -> '0'%s; otherwise emits buf[index..]" % (" (the loop body runs at least once)" if dowhile else ""))
            else:
                col.violation("V6" + sfx, key, b.loc(), "%s writer must render zero as '0' (special case, or a digit loop that runs at least once) and otherwise emit the tail buf[index..]" % ty)
        elif ty in UNSIGNED_OF:
            I = util.analyse(b)
            neg_ok = pos_ok = False
            v_neg, v_pos = [], []
            for st in I.final_states:
                evs = st.event_list()
                minus = [k for k, e in enumerate(evs) if _is(e, wc) and e.args[1] == mk_int(45)]
                mag = [k for k, e in enumerate(evs) if _is(e, wr)]
                ua = [e for e in evs if e.kind == "call" and e.extra.get("name") == "unsigned_abs"]
                isneg = None
                for f in st.facts:
                    t = f[1]
                    if f[0] == "eq" and isinstance(t, tuple) and t[0] == "bin" and t[1] == "Lt" and t[3] in (("ref", ("constval", mk_int(0))), mk_int(0)):
                        isneg = bool(f[2])
                    if f[0] == "eq" and isinstance(t, tuple) and t[0] == "bin" and t[1] == "Ge" and t[3] in (("ref", ("constval", mk_int(0))), mk_int(0)):
                        isneg = not bool(f[2])
                    # the same tests written from the other side: 0 > x, 0 <= x
                    if f[0] == "eq" and isinstance(t, tuple) and t[0] == "bin" and t[1] == "Gt" and t[2] in (("ref", ("constval", mk_int(0))), mk_int(0)):
                        isneg = bool(f[2])
                    if f[0] == "eq" and isinstance(t, tuple) and t[0] == "bin" and t[1] == "Le" and t[2] in (("ref", ("constval", mk_int(0))), mk_int(0)):
                        isneg = not bool(f[2])
                    if f[0] == "eq" and isinstance(t, tuple) and t[0] == "call" and str(t[1]).endswith("::is_negative"):
                        isneg = bool(f[2])
                    if f[0] == "eq" and isinstance(t, tuple) and t[0] == "call" and str(t[1]).endswith("::is_positive"):
                        pass
                okm = len(mag) == 1 and len(ua) == 1 and evs[mag[0]].extra["argvals"][1] == ua[0].res and (ua[0].fn.get("path") or "").startswith("core::num::<impl %s>" % ty)
                if isneg is True:
                    v_neg.append(bool(okm and len(minus) == 1 and minus[0] < mag[0]))
                elif isneg is False:
                    v_pos.append(bool(okm and not minus))
                else:
                    v_neg.append(False)   # a path that never decides the sign
            neg_ok, pos_ok = bool(v_neg) and all(v_neg), bool(v_pos) and all(v_pos)
            key = "%s|sign-and-magnitude" % fk(b)
            if neg_ok and pos_ok:
                col.ok("V7" + sfx, b.loc(), key, "'-' iff self < 0, then write(&self.unsigned_abs())")
            else:
                col.violation("V7" + sfx, key, b.loc(), "%s writer must emit '-' exactly for negative values and render the magnitude through unsigned_abs (MIN does not overflow)" % ty)
