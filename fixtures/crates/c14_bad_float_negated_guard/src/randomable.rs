use std::ops::*;

pub trait Randomable<T: Sized> {
    fn gen_from_u64(self, rng: u64) -> T;
}

macro_rules! implement_ranges {
    ($t:ty) => {
        impl Randomable<$t> for RangeTo<$t> {
            fn gen_from_u64(self, rng: u64) -> $t {
                (0..self.end).gen_from_u64(rng)
            }
        }
        impl Randomable<$t> for RangeInclusive<$t> {
            fn gen_from_u64(self, rng: u64) -> $t {
                if *self.start() != <$t>::MIN {
                    (*self.start() - 1..*self.end()).gen_from_u64(rng) + 1
                } else if *self.end() != <$t>::MAX {
                    (*self.start()..*self.end() + 1).gen_from_u64(rng)
                } else {
                    rng as $t
                }
            }
        }
        impl Randomable<$t> for RangeToInclusive<$t> {
            fn gen_from_u64(self, rng: u64) -> $t {
                (0..=self.end).gen_from_u64(rng)
            }
        }
        impl Randomable<$t> for RangeFull {
            fn gen_from_u64(self, rng: u64) -> $t {
                rng as $t
            }
        }
    };
}

macro_rules! make_randomable {
    ($it:ty, $ut:ty) => {
        impl Randomable<$it> for Range<$it> {
            fn gen_from_u64(self, rng: u64) -> $it {
                assert!(!self.is_empty());
                let len = (self.end as $ut).wrapping_sub(self.start as $ut);
                ((rng % len as u64) as $ut).wrapping_add(self.start as $ut) as $it
            }
        }

        impl Randomable<$ut> for Range<$ut> {
            fn gen_from_u64(self, rng: u64) -> $ut {
                assert!(!self.is_empty());
                let len = self.end - self.start;
                (rng % len as u64) as $ut + self.start
            }
        }

        implement_ranges!($it);
        implement_ranges!($ut);
    };
}

make_randomable!(i8, u8);
make_randomable!(i16, u16);
make_randomable!(i32, u32);
make_randomable!(i64, u64);
make_randomable!(isize, usize);

impl Randomable<f64> for Range<f64> {
    fn gen_from_u64(self, rng: u64) -> f64 {
        assert!(!self.is_empty());
        let len = self.end - self.start;
        // 53 random bits give a ratio in [0, 1); rounding of `ratio * len + start` can still reach `end`
        let ratio = (rng >> 11) as f64 / (1u64 << 53) as f64;
        let res = ratio * len + self.start;
        if res >= self.end {
            return self.start;
        }
        res
    }
}
