#![doc = include_str!("../README.md")]

mod impls;
mod traits;

pub use traits::{Show, ShowPretty, ShowSettings, SHOW_SETTINGS};

#[macro_export]
macro_rules! is_show {
    () => {
        std::option_env!("HOUSE").is_some()
    };
}

#[macro_export]
macro_rules! show {
    ($($arg:expr),*) => {
        if is_show!() {
            #[allow(static_mut_refs)]
            let settings = unsafe{ &rlib_show::SHOW_SETTINGS };
            let mut line = format!("[{:>3}] ", line!());
            if settings.colors {
                line = format!("\x1b[34m{}\x1b[0m", line);
            }
            eprint!("{}", line);
            $(
                eprint!(" [{}: {}]", stringify!($arg), $arg.show(settings));
            )*
            eprintln!();
        }
    };
}

#[macro_export]
macro_rules! show_pretty {
    ($arg:expr) => {
        if is_show!() {
            #[allow(static_mut_refs)]
            let settings = unsafe { &rlib_show::SHOW_SETTINGS };
            let mut line = format!("[{:>3}] ", line!());
            if settings.colors {
                line = format!("\x1b[34m{}\x1b[0m", line);
            }
            eprint!("{}", line);
            let out = $arg.show_pretty(settings);
            let var = stringify!($arg);
            let ident = line.len() + var.len() + 5;
            let lines = out.lines().collect::<Vec<_>>();
            for (i, line) in lines.iter().enumerate() {
                if i == 0 {
                    eprint!(" [{}: {}", var, line);
                } else {
                    eprint!("{}{}", " ".repeat(ident), line);
                }
                if i + 1 == lines.len() {
                    eprint!("]");
                }
                eprintln!();
            }
        }
    };
}

#[macro_export]
macro_rules! show_cfg {
    () => {
        if is_show!() {
            unsafe {
                rlib_show::SHOW_SETTINGS = ShowSettings::new();
            }
        }
    };
    ($opt:ident, $value:expr) => {
        if is_show!() {
            let value = $value;
            unsafe {
                rlib_show::SHOW_SETTINGS.$opt = value;
            }
        }
    };
}

#[macro_export]
macro_rules! show_struct {
    ($s:ty, $($field:ident),*) => {
        impl rlib_show::Show for $s {
            fn show(&self, settings: &rlib_show::ShowSettings) -> String {
                let mut fields = Vec::new();
                $(
                    fields.push(format!("{}: {}", stringify!($field), self.$field.show(settings)));
                )*
                format!("{{{}}}", fields.join(", "))
            }
        }
    };
}

#[macro_export]
macro_rules! show_struct_debug {
    ($($s:ty),*) => {
        $(
            impl rlib_show::Show for $s {
                fn show(&self, settings: &rlib_show::ShowSettings) -> String {
                    format!("{:?}", self)
                }
            }
        )*
    };
}
