use rlib_show::show_struct;

use crate::util::EPS;

use super::point::Point;

#[derive(Copy, Clone, Default, Debug)]
pub struct Line {
    pub a: f64,
    pub b: f64,
    pub c: f64,
}

impl Line {
    pub fn new(a: f64, b: f64, c: f64) -> Self {
        let d = Point::new(a, b).len();
        Self {
            a: a / d,
            b: b / d,
            c: c / d,
        }
    }

    pub fn between(u: &Point, v: &Point) -> Self {
        let a = u.y - v.y;
        let b = v.x - u.x;
        let c = -(a * u.x + b * u.y);
        Self::new(a, b, c)
    }

    pub fn dist(&self, p: &Point) -> f64 {
        (self.a * p.x + self.b * p.y + self.c).abs()
    }

    pub fn contains(&self, p: &Point) -> bool {
        self.dist(p) < EPS
    }

    pub fn ort(&self) -> Point {
        Point::new(self.a, self.b)
    }
}

show_struct!(Line, a, b, c);
