pub trait IterMasks: Copy {
    fn next_submask(&mut self, x: Self) -> Option<Self>;
    fn next_supermask(&mut self, x: Self) -> Option<Self>;
    fn zero() -> Self;
    fn ones() -> Self;
}

macro_rules! impl_iter_masks {
    ($($t:ty),*) => {$(
        impl IterMasks for $t {
            fn next_submask(&mut self, x: Self) -> Option<Self> {
                if *self == 0 {
                    None
                } else {
                    let cur = *self;
                    *self = (*self - 1) & x;
                    Some(cur)
                }
            }

            fn zero() -> Self {
                0
            }

            fn next_supermask(&mut self, x: Self) -> Option<Self> {
                if self.count_zeros() == 0 {
                    None
                } else {
                    let cur = *self;
                    *self = self.wrapping_add(1) | x;
                    Some(cur)
                }
            }

            fn ones() -> Self {
                <$t>::from_le_bytes([0xff; <$t>::BITS as usize / 8])
            }
        }
    )*};
}

impl_iter_masks!(i8, u8, i16, u16, i32, u32, i64, u64, i128, u128, isize, usize);

pub fn iter_submasks<T>(x: T) -> impl Iterator<Item = T>
where
    T: IterMasks,
{
    let mut submask = x;
    std::iter::from_fn(move || submask.next_submask(x)).chain([T::zero()])
}

pub fn iter_supermasks<T>(x: T) -> impl Iterator<Item = T>
where
    T: IterMasks,
{
    let mut supermask = x;
    std::iter::from_fn(move || supermask.next_supermask(x)).chain([T::ones()])
}
