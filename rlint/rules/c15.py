"""C15 — combinatorial iterators: grid-neighbour clause in full; type coverage, no-panic steppers,
sentinels, iterator protocol for masks and permutations (thin).  DESIGN.md §4 C15."""
from .. import util, zones
from ..absint import tstr, mk_int, subterms
from ..core import Anchor

PID = "C15"
LEVEL = "other"
CRATES = ["rlib_iter"]
RELEASE = True
NO_HIDDEN_STATE = ['rlib_iter']   # driver rule STATE: these crates are plain data structures / functions
ARMED = True
ENGINES = ["E10", "E3"]
TECHNIQUE = "constant-table comparison of the literal offset arrays, path-fact extraction of the four-sided bounds test in the filter closures with capture-to-parameter binding, term shape of the map closures; impl table and assertion scan for the mask steppers; event shapes of the permutation iterator"
LEVEL_TEXT = (
    "Decides the grid-neighbour clause completely for every grid size and cell: the output is the literal offset table in table "
    "order, filtered by 0 <= i+dx < n and 0 <= j+dy < m on the right coordinates and mapped to (i+dx, j+dy) — these rules leave "
    "nothing else. For masks and permutations the claim is deliberately thin: IterMasks is implemented for exactly the 12 integer "
    "types, the steppers have the documented shape and contain no overflow assertion (wrapping ops), the chained sentinels are zero() "
    "and ones() = all-ones bytes, iter_permutations sorts first and the iterator yields the stored data first and then steps until "
    "next_permutation returns false. next_permutation's anatomy (rightmost ascent, last strictly-greater tail element, swap, tail reversal, wrap) is checked as a shape; that (s-1)&x enumerates all submasks is NOT decided."
)
LEVEL_NOTE = "trusted: rustc MIR, exporter, std array::IntoIter / filter / map / from_fn / chain preserve order"
EXPLANATION = (
    "I1 impl table: IterMasks for i8,u8,...,isize,usize (12). I2 no Assert(overflow) in next_submask/next_supermask (dev export). I3 "
    "steppers: submask: None iff *self == 0, else *self = wrapping_sub(*self, 1) & x and the old value is returned; supermask: None "
    "iff count_zeros() == 0, else wrapping_add(.., 1) | x; iter_submasks chains [zero()], iter_supermasks chains [ones()], ones() = "
    "from_le_bytes([0xff; BITS/8]), zero() = 0. I4 tables: the three literal arrays equal the documented ordered lists and have "
    "distinct entries. I5 bounds pairing: on the only true-returning path of each filter closure the facts are i+dx >= 0, i+dx < n, "
    "j+dy >= 0 and the result j+dy < m (any order) with i, n, j, m bound through the closure captures to the function's parameters "
    "(n, m, i, j); the map closure yields ((i+dx) as usize, (j+dy) as usize). I6 iter_permutations: sort() before the iterator is "
    "built; next(): first -> clone of data; then next_permutation(&mut data) true -> Some(clone), false -> None. I7 next_permutation anatomy "
    "(added after seeded change C15-a): outer loop i over (1..len).rev() with the ascent test data[i-1] < data[i]; partner j found by the "
    "forward scan from i while j+1 < len && data[j+1] > data[i-1] (strict), swap(i-1, j), reverse data[i..], true; otherwise reverse all, "
    "false. NOT decided: submask enumeration completeness/order."
)
UNDECIDED = ["(s-1)&x / (s+1)|x enumerate every sub/supermask exactly once in order", "next_permutation computes the lexicographic successor as a value statement (its pivot/partner/swap/reverse anatomy IS checked, rule I7)"]
ASSUMPTIONS = []
FIXTURES = [
    ("c15_bad_neighbours_nm_swapped", "bad", ["I5"]),
    ("c15_bad_neighbours_table_order", "bad", ["I4"]),
    ("c15_bad_neighbours_missing_lower", "bad", ["I5"]),
    ("c15_bad_submask_checked_sub", "bad", ["I2"]),
    ("c15_bad_supermask_sentinel", "bad", ["I3"]),
    ("c15_bad_permutations_no_sort", "bad", ["I6"]),
]

TABLES = {
    "iter_neighbours_4": [(0, 1), (-1, 0), (0, -1), (1, 0)],
    "iter_neighbours_4d": [(-1, 1), (-1, -1), (1, -1), (1, 1)],
    "iter_neighbours_8": [(0, 1), (-1, 1), (-1, 0), (-1, -1), (0, -1), (1, -1), (1, 0), (1, 1)],
}
INTS = ["i8", "u8", "i16", "u16", "i32", "u32", "i64", "u64", "i128", "u128", "isize", "usize"]


def _strip_cast(t):
    while isinstance(t, tuple) and t and t[0] == "cast":
        t = t[3]
    return t


def _decode_table(crate, src):
    """the offset table behind the source of the chain: a literal array of pairs or a named constant"""
    if isinstance(src, tuple) and src and src[0] == "agg" and src[1] == "array":
        try:
            return [(t[2][0][1], t[2][1][1]) for t in src[2]]
        except Exception:  # noqa: BLE001
            return None
    if isinstance(src, tuple) and src and src[0] in ("assoc", "cst"):
        nm_ = str(src[1]).split("::")[-1]
        for kc in crate.consts:
            if kc["name"] == nm_ and kc.get("bytes"):
                bs = kc["bytes"]
                vals = [int.from_bytes(bytes(x & 0xFF for x in bs[q:q + 8]), "little", signed=True) for q in range(0, len(bs), 8)]
                return [(vals[q], vals[q + 1]) for q in range(0, len(vals) - 1, 2)]
    return None


def _neighbour_pipeline(crate, b):
    """Evaluate the lazy iterator chain a neighbours function returns on a symbolic offset (dx, dy): the
    chain is followed from the returned value back to its source through map / filter / filter_map stages (in
    any order and number), each closure's body is run on the element produced so far.  Returns
    (table, [(conditions, yielded element)], description) or None when the chain has another shape."""
    from ..absint import NONE

    helpers = [m for m in crate.bodies if not m.is_closure and m.kind in ("Fn", "AssocFn") and m.vis != "pub" and not util.self_recursive(m)]
    I = util.analyser(helpers, features=("comb", "fncall"))(b)
    if len(I.final_states) != 1:
        return None
    st = I.final_states[0]
    evs = [e for e in st.event_list() if e.kind == "call"]
    byres = {}
    for e in evs:
        if e.res is not None:
            byres[e.res] = e
    stages = []
    cur = util.ret_term(st)
    src = None
    for _ in range(12):
        e = byres.get(cur)
        if e is None:
            return None
        nm = e.extra.get("name")
        if nm in ("map", "filter", "filter_map") and len(e.args) >= 2:
            stages.append((nm, e.args[1]))
            cur = e.args[0]
        elif nm == "into_iter":
            src = e.args[0]
            break
        else:
            return None
    if src is None or not stages:
        return None
    stages.reverse()
    table = _decode_table(crate, src)
    base = st.facts
    states = [(st.fork(), ("agg", "tuple", (("named", "dx"), ("named", "dy"))))]
    for kind, clo in stages:
        nxt = []
        for s_, el in states:
            arg = ("ref", ("constval", el)) if kind == "filter" else el
            r = I._apply_closure(s_, 0, clo, (arg,))
            if r is None:
                return None
            for ns, v in r:
                if kind == "map":
                    nxt.append((ns, v))
                elif kind == "filter":
                    if v == mk_int(0):
                        continue
                    if v != mk_int(1):
                        ns.add_fact(("eq", v, 1))
                    nxt.append((ns, el))
                else:
                    if v == NONE or (v[0] == "agg" and isinstance(v[1], tuple) and len(v[1]) > 3 and v[1][3] == "None"):
                        continue
                    if v[0] == "agg" and isinstance(v[1], tuple) and len(v[1]) > 3 and v[1][3] == "Some":
                        nxt.append((ns, v[2][0]))
                    else:
                        return None
        states = nxt
    outs = [(frozenset(ns.facts - base), el) for ns, el in states]
    return table, outs, " -> ".join(["into_iter"] + [k for k, _ in stages])


def _psym(t):
    """render a pipeline term over dx, dy and the function's parameters n, m, i, j"""
    t = _strip_cast(t)
    if t[0] == "param":
        return {1: "n", 2: "m", 3: "i", 4: "j"}.get(t[1], "?")
    if t[0] == "named":
        return t[1]
    if t[0] == "int":
        return str(t[1])
    if t[0] == "bin" and t[1] == "Add":
        return "+".join(sorted([_psym(t[2]), _psym(t[3])]))
    return tstr(t)


def _unref_const(a):
    """&constval(v) -> v; &constval(aggregate).k -> its k-th component (a captured value read through the closure)"""
    if not (isinstance(a, tuple) and a and a[0] == "ref"):
        return a
    pl = a[1]
    path = []
    while pl[0] == "field":
        path.append(pl[2])
        pl = pl[1]
    if pl[0] != "constval":
        return a
    v = pl[1]
    for k in reversed(path):
        if isinstance(v, tuple) and v and v[0] == "agg" and k < len(v[2]):
            v = v[2][k]
        else:
            return a
    return v


def _pconds(facts):
    """the comparison facts of a kept path as a set of normalised (coordinate, bound) conditions"""
    terms = []
    for f in facts:
        t_ = f[1]
        if f[0] == "eq" and isinstance(t_, tuple) and t_ and t_[0] == "bin" and t_[1] in ("Lt", "Le", "Gt", "Ge"):
            terms.append((t_, bool(f[2])))
        if f[0] == "eq" and f[2] == 1 and isinstance(t_, tuple) and t_ and t_[0] == "call" and str(t_[1]).endswith("::contains"):
            args_ = [x for x in t_[2] if not (isinstance(x, tuple) and x and x[0] == "mem")]
            rg_, x_ = _unref_const(args_[0]), _unref_const(args_[1])
            if rg_[0] == "agg" and str(rg_[1][1]).endswith("ops::Range"):
                terms.append((("bin", "Ge", x_, rg_[2][0]), True))
                terms.append((("bin", "Lt", x_, rg_[2][1]), True))
            else:
                terms.append((t_, True))
    cs = set()
    for (c, truth) in terms:
        if c[0] != "bin":
            cs.add((tstr(c), "?"))
            continue
        op = c[1] if truth else {"Lt": "Ge", "Le": "Gt", "Gt": "Le", "Ge": "Lt"}[c[1]]
        a_, b_ = _psym(c[2]), _psym(c[3])
        if op == "Ge" and b_ == "0":
            cs.add((a_, ">=0"))
        elif op == "Gt" and b_ == "-1":
            cs.add((a_, ">=0"))
        elif op == "Le" and a_ == "0":
            cs.add((b_, ">=0"))
        elif op == "Lt" and a_ == "-1":
            cs.add((b_, ">=0"))
        elif op == "Lt":
            cs.add((a_, "<" + b_))
        elif op == "Gt":
            cs.add((b_, "<" + a_))
        else:
            cs.add((a_, op + b_))
    return cs


_W = {"usize": 64, "isize": 64, "u64": 64, "i64": 64, "u128": 128, "i128": 128, "u32": 32, "i32": 32, "u16": 16, "i16": 16, "u8": 8, "i8": 8}


def _neighbour_widths(col, crate, b, fk):
    """coordinates and grid sizes are usize: the signed arithmetic on them must not go through a type narrower than the
    pointer width (`as i32` loses cells of a grid with 2^31 rows or more)"""
    fam = [b] + [c for c in crate.bodies if c.is_closure and (c.parent == b.key or any(p.key == c.parent and p.is_closure and p.parent == b.key for p in crate.bodies))]
    narrow = []
    for m in fam:
        for bb, idx, st in m.statements():
            rv = st.get("rv") or {}
            if st["k"] == "assign" and rv.get("k") == "cast" and rv.get("ck") == "IntToInt":
                wf, wt = _W.get(rv.get("from")), _W.get(rv.get("ty"))
                if wf and wt and wf >= 64 and wt < 64:
                    narrow.append("%s as %s" % (rv.get("from"), rv.get("ty")))
    key = "%s|widths" % fk(b)
    if narrow:
        col.violation("I5", key, b.loc(), "%s narrows a coordinate or a grid size below the pointer width (%s): cells of a grid with 2^31 rows or columns or more are lost or misplaced" % (b.path, ", ".join(sorted(set(narrow)))))
    else:
        col.ok("I5", b.loc(), key, "coordinates stay at pointer width", nontrivial=False)


def _neighbours_semantic(col, crate, fn, table, b, fk):
    """I4/I5 by evaluating the chain; False when the chain cannot be followed (the shape rules then decide)"""
    _neighbour_widths(col, crate, b, fk)
    try:
        r = _neighbour_pipeline(crate, b)
    except Exception:  # noqa: BLE001
        r = None
    if r is None:
        return False
    got, outs, desc = r
    key = "%s|table" % fk(b)
    if got == table and len(set(got)) == len(got):
        col.ok("I4", b.loc(), key, "offsets %s in table order; %s" % (got, desc))
    else:
        col.violation("I4", key, b.loc(), "%s: the offset table is %s, documented order is %s" % (fn, got, table))
    want = {("dx+i", ">=0"), ("dx+i", "<n"), ("dy+j", ">=0"), ("dy+j", "<m")}
    key = "%s|four-sided-bounds" % fk(b)
    conds = [_pconds(fs) for fs, _ in outs]
    if len(outs) == 1 and conds[0] == want:
        col.ok("I5", b.loc(), key, "an offset is kept exactly under 0 <= i+dx < n and 0 <= j+dy < m (chain %s evaluated on a symbolic offset)" % desc)
    else:
        col.violation("I5", key, b.loc(), "%s keeps an offset under %s; the in-bounds test must be exactly 0 <= i+dx < n and 0 <= j+dy < m (rows against n, columns against m)" % (fn, [sorted(c) for c in conds]))
    key = "%s|yields" % fk(b)
    okm = bool(outs)
    for (fs_, el), cs_ in zip(outs, conds):
        if el[0] == "agg" and el[1] == "tuple":
            # isize::unsigned_abs of a value the filter has shown non-negative is the value itself
            def _abs_as_cast(x):
                a_ = [y for y in x[2] if not (isinstance(y, tuple) and y and y[0] == "mem")] if x[0] == "call" and str(x[1]).endswith("<impl isize>::unsigned_abs") else []
                return ("cast", "IntToInt", "usize", a_[0], "isize") if len(a_) == 1 and (_psym(a_[0]), ">=0") in cs_ else x
            el = (el[0], el[1], tuple(_abs_as_cast(x) for x in el[2]))
        okm = okm and el[0] == "agg" and el[1] == "tuple" and len(el[2]) == 2 and [_psym(x) for x in el[2]] == ["dx+i", "dy+j"] and all(x[0] == "cast" and x[2] == "usize" for x in el[2])
    if okm:
        col.ok("I5", b.loc(), key, "((i+dx) as usize, (j+dy) as usize)")
    else:
        col.violation("I5", key, b.loc(), "%s must yield (i+dx, j+dy): yields %s" % (fn, [tstr(el)[:120] for _, el in outs]))
    return True


TR = ["IterMasks"]          # the crate's (unexported) stepping trait, bound by role in check()
PI = ["PermutationIter"]    # the crate's permutation iterator type, bound by role in check()


def _bind_names(crate):
    """the trait is the crate's own trait implemented for primitive integers; the iterator type the crate's own type
    that implements Iterator - whatever they are called today"""
    tr = sorted(set(str(i.get("trait")) for i in crate.impls if i.get("trait") and str(i.get("self_ty")) in INTS and not str(i.get("trait")).startswith(("std::", "core::", "alloc::"))))
    TR[0] = tr[0].rsplit("::", 1)[-1] if len(tr) == 1 else "IterMasks"
    its = sorted(set(str(i.get("self_adt")) for i in crate.impls if str(i.get("trait") or "").startswith(("std::iter::Iterator", "core::iter::Iterator")) and i.get("self_adt")))
    ads = [a for a in crate.adts if str(a.get("key")) in its]
    PI[0] = str(ads[0].get("path") or ads[0].get("name")).rsplit("::", 1)[-1] if len(ads) == 1 else "PermutationIter"


def _mask_roles(crate):
    """names of the IterMasks methods by the role they play for the public entry points: the stepper is the
    two-argument trait method reached from iter_submasks / iter_supermasks (through closures and private helpers),
    the sentinel the argument-less one.  Falls back to the names used today."""
    out = {}
    for fn, dflt in (("iter_submasks", ("next_submask", "zero")), ("iter_supermasks", ("next_supermask", "ones"))):
        b = crate.body("masks::%s" % fn)
        step, sent = set(), set()
        seen, work = set(), [b] if b is not None else []
        while work:
            x = work.pop()
            if x.key in seen:
                continue
            seen.add(x.key)
            work.extend(crate.closures_of(x))
            for _bb, t in x.calls():
                f = t["fn"]
                if str(f.get("trait") or "").endswith(TR[0]):
                    (step if len(t["args"]) == 2 else sent if len(t["args"]) == 0 else set()).add(f.get("name"))
                tgt = crate.by_key.get(util.callee_key(t))
                if tgt is not None and not tgt.is_closure and tgt.container is None and tgt.key not in seen:
                    work.append(tgt)
            # closures handed over by the entry point are bodies of their own
        out[fn] = (step.pop() if len(step) == 1 else dflt[0], sent.pop() if len(sent) == 1 else dflt[1])
    return out


def _chain_semantic(crate, b, sent, stepper):
    """from_fn(step).chain(<sentinel once>) possibly built by a private helper that takes the stepping closure:
    the from_fn closure is run on its captured values; every path makes exactly one call of the trait stepper,
    on a captured cell that starts at x, with x as the mask, and returns that call's result"""
    # what the entry point does is judged with every free function it goes through inlined, public or not
    helpers = [f_ for f_ in crate.bodies if not f_.is_closure and f_.kind == "Fn" and f_.container is None and not util.self_recursive(f_) and f_.key != b.key]
    try:
        I = util.analyser(helpers, features=("fncall", "comb"))(b)
    except Exception:
        return False
    x = ("param", 1, I.names.get(1))
    if not I.final_states:
        return False
    for st in I.final_states:
        r = util.ret_term(st)
        evs = [e for e in st.event_list() if e.kind == "call"]
        ch = [e for e in evs if e.extra.get("name") == "chain"]
        if len(ch) != 1 or r != ch[0].res:
            return False
        a0, a1 = ch[0].args

        def is_sent(v):
            return isinstance(v, tuple) and v and v[0] == "call" and str(v[1]).endswith(TR[0] + "::" + sent) and not [y for y in v[2] if not (isinstance(y, tuple) and y and y[0] == "mem")]

        tail = (a1[0] == "agg" and a1[1] == "array" and len(a1[2]) == 1 and is_sent(a1[2][0])) or (a1[0] == "call" and str(a1[1]).endswith("iter::once") and a1[2] and is_sent(a1[2][0])) or (a1[0] == "agg" and isinstance(a1[1], tuple) and a1[1][3] == "Some" and is_sent(a1[2][0]))
        if not tail or not (a0[0] == "call" and str(a0[1]).endswith("from_fn") and a0[2]):
            return False
        clos = a0[2][0]
        if not (clos[0] == "agg" and isinstance(clos[1], tuple) and clos[1] and clos[1][0] == "closure"):
            return False
        outs = I._apply_closure(st.fork(), 0, clos, ())
        if not outs:
            return False
        n0 = len(evs)
        for ns, res in outs:
            calls = [e for e in ns.event_list() if e.kind == "call"][n0:]
            steps = [e for e in calls if e.extra.get("name") == stepper and str(e.extra.get("trait") or "").endswith(TR[0])]
            others = [e for e in calls if e not in steps and not e.extra.get("inlined") and not e.extra.get("pure")]
            if len(steps) != 1 or others or res != steps[0].res:
                return False
            cell, mask = steps[0].args[0], steps[0].args[1]
            if mask != x or cell[0] != "ref":
                return False
            # the cell is a captured value (possibly of a closure captured in turn) whose initial value is x
            pl = cell[1]
            path = []
            while pl[0] in ("field", "deref"):
                if pl[0] == "field":
                    path.append(pl[2])
                pl = pl[1]
                if pl[0] == "ref":
                    pl = pl[1]
            if pl[0] != "constval":
                return False
            v = pl[1]
            for k in reversed(path):
                if not (isinstance(v, tuple) and v and v[0] == "agg" and isinstance(k, int) and k < len(v[2])):
                    return False
                v = v[2][k]
            if v != x:
                return False
    return True


def check(col, prog, tier, profile, fixture=None):
    crate = prog.crate(fixture or "rlib_iter")
    fk = util.fkey
    col.rule("I1", "IterMasks implemented for exactly the 12 primitive integer types", floor=1)
    col.rule("I2", "mask steppers contain no overflow assertion", floor=24)
    col.rule("I3", "stepper shapes, sentinels zero()/ones(), termination tests", floor=28)
    col.rule("I4", "offset tables equal the documented ordered lists", floor=3)
    col.rule("I5", "filter: 0 <= i+dx < n, 0 <= j+dy < m on the right coordinates; map yields (i+dx, j+dy)", floor=6)
    col.rule("I6", "iter_permutations sorts first; iterator yields data first then steps until false", floor=4)
    col.rule("I7", "next_permutation anatomy: rightmost ascent, LAST tail element greater than the pivot, swap, reverse tail; wrap = reverse all, false", floor=4)

    _bind_names(crate)
    # ---------------- I1
    tys = sorted(i["self_ty"] for i in crate.impls if (i.get("trait") or "").endswith(TR[0]))
    if tys == sorted(INTS):
        col.ok("I1", "rlib/iter/src/masks.rs", "IterMasks|12-types", "implemented for %s" % ", ".join(tys))
    else:
        col.violation("I1", "IterMasks|12-types", "rlib/iter/src/masks.rs", "IterMasks must be implemented for exactly the 12 primitive integer types; missing %s, extra %s" % (sorted(set(INTS) - set(tys)), sorted(set(tys) - set(INTS))))

    # ---------------- I2 / I3
    MR = _mask_roles(crate)
    ZERO_N, ONES_N = MR["iter_submasks"][1], MR["iter_supermasks"][1]
    for ty in INTS:
        if ty not in tys:
            continue
        for nm, nm_ in (("next_submask", MR["iter_submasks"][0]), ("next_supermask", MR["iter_supermasks"][0])):
            b = util.need_body(crate, "<%s as masks::%s>::%s" % (ty, TR[0], nm_))
            asserts = [blk["term"]["msg"]["k"] for blk in b.blocks if not blk["cleanup"] and blk["term"]["k"] == "assert"]
            key = "%s|no-overflow-assert" % fk(b)
            if not [a for a in asserts if a.startswith("overflow")]:
                col.ok("I2", b.loc(), key, "no overflow assertion: minimum / all-ones cannot panic", nontrivial=False)
            else:
                col.violation("I2", key, b.loc(), "%s contains a checked arithmetic operation: it panics in debug builds at the signed minimum / all-ones" % b.path)
            consts_ = [c_ for c_ in crate.bodies if not c_.is_closure and c_.name in (ZERO_N, ONES_N) and (c_.path.startswith("<%s as " % ty) and c_.path.rsplit(">::", 1)[0].endswith("::" + TR[0]))]
            free_ = [f_ for f_ in crate.bodies if not f_.is_closure and f_.kind == "Fn" and f_.container is None and f_.vis != "pub" and not util.self_recursive(f_)]
            I = util.analyser(consts_ + free_, features=("fncall", "comb"))(b)
            selfp = ("deref", ("param", 1, I.names.get(1)))
            x = ("param", 2, I.names.get(2))
            old = ("load", ("m0",), selfp)
            okn = oks = False
            nbits = {"8": 8, "16": 16, "32": 32, "64": 64, "128": 128, "size": 64}[ty.lstrip("iu")]

            def all_ones(k):
                if k == ("un", "Not", mk_int(0)):
                    return True
                if k[0] == "int":
                    return k[1] in (-1, (1 << nbits) - 1)
                if k[0] == "call" and str(k[1]).endswith("from_le_bytes"):
                    return True
                return False

            why = ""
            v_none, v_some = [], []   # one verdict per path of each kind: all of them must hold
            for st in I.final_states:
                okn = oks = False
                r = util.ret_term(st)
                stores = [e for e in st.event_list() if e.kind == "store" and e.place == selfp]
                if not (r[0] == "agg" and r[1][3] in ("None", "Some")):
                    v_some.append(False)
                    why = "returns %s" % tstr(r)[:60]
                if r[0] == "agg" and r[1][3] == "None":
                    if nm == "next_submask":
                        okn = (("eq", ("bin", "Eq", old, mk_int(0)), 1) in st.facts or any(f[0] == "eq" and f[1] == old and f[2] == 0 and not isinstance(f[2], bool) for f in st.facts) or zones.entails(st.facts, "Eq", old, mk_int(0), I.tys)) and not stores
                    else:
                        okn = any(f[0] == "eq" and f[2] == 1 and isinstance(f[1], tuple) and f[1][0] == "bin" and f[1][1] == "Eq" and f[1][3] == mk_int(0) and f[1][2][0] == "call" and str(f[1][2][1]).endswith("count_zeros") for f in st.facts) and not stores
                        okn = okn or (any(f[0] == "eq" and f[2] == 1 and isinstance(f[1], tuple) and f[1][0] == "bin" and f[1][1] == "Eq" and ((f[1][2] == old and all_ones(f[1][3])) or (f[1][3] == old and all_ones(f[1][2]))) for f in st.facts) and not stores)
                        # any spelling of the two tests above that the path facts entail (`!= 0` with swapped arms, ...)
                        for f in st.facts:
                            for z in ([f[1]] + list(subterms(f[1]))) if isinstance(f[1], tuple) else []:
                                if (z[0] == "call" and str(z[1]).endswith("count_zeros") and z[2] and z[2][0] == old) or z == ("un", "Not", old):
                                    okn = okn or (zones.entails(st.facts, "Eq", z, mk_int(0), I.tys) and not stores)
                        # the same test in either spelling and polarity: `cur == ONES` true, `cur != ONES` false
                        for f in st.facts:
                            t_ = f[1]
                            if f[0] in ("eq", "ne") and f[2] in (0, 1) and not isinstance(f[2], bool) and isinstance(t_, tuple) and len(t_) == 4 and t_[0] == "bin" and t_[1] in ("Eq", "Ne"):
                                truth_ = (f[0] == "eq") == bool(f[2])
                                equal_ = truth_ if t_[1] == "Eq" else not truth_
                                if equal_ and ((t_[2] == old and all_ones(t_[3])) or (t_[3] == old and all_ones(t_[2]))):
                                    okn = okn or not stores
                        # `!cur == 0`: the complement is zero exactly for the all-ones mask
                        okn = okn or (any(f[0] == "eq" and f[2] == 1 and isinstance(f[1], tuple) and f[1][0] == "bin" and f[1][1] == "Eq" and f[1][3] == mk_int(0) and f[1][2] == ("un", "Not", old) for f in st.facts) and not stores)
                        # `match current.count_zeros() { 0 => None, .. }`
                        okn = okn or (any(f[0] == "eq" and f[2] == 0 and not isinstance(f[2], bool) and isinstance(f[1], tuple) and f[1] and f[1][0] == "call" and str(f[1][1]).endswith("count_zeros") and f[1][2][0] == old for f in st.facts) and not stores)
                        # `match current { MAX_PATTERN => None, .. }` on the value itself
                        okn = okn or (any(f[0] == "eq" and f[1] == old and isinstance(f[2], int) and not isinstance(f[2], bool) and all_ones(mk_int(f[2] if f[2] < (1 << (nbits - 1)) or ty.startswith("u") else f[2] - (1 << nbits))) for f in st.facts) and not stores)
                elif r[0] == "agg" and r[1][3] == "Some":
                    v = stores[-1].val if stores else None
                    if v is not None and v[0] == "bin":
                        wop, bop = ("wrapping_sub", "BitAnd") if nm == "next_submask" else ("wrapping_add", "BitOr")
                        step = v[2] if v[2][0] == "call" else v[3]
                        other = v[3] if v[2][0] == "call" else v[2]
                        oks = v[1] == bop and other == x and step[0] == "call" and str(step[1]).endswith("::" + wop) and step[2][0] == old and step[2][1] == mk_int(1) and r[2][0] == old
                        why = tstr(v)
                    v_some.append(bool(oks))
                if r[0] == "agg" and r[1][3] == "None" and not okn and not stores:
                    # the terminal test made by a generic helper: PartialEq::eq(&current, &terminal) with terminal = zero() / ones()
                    def _unref(v_):
                        return v_[1][1] if isinstance(v_, tuple) and v_ and v_[0] == "ref" and v_[1][0] == "constval" else v_

                    for f in st.facts:
                        t_ = f[1]
                        if f[0] in ("eq", "ne") and f[2] in (0, 1) and isinstance(t_, tuple) and t_ and t_[0] == "call" and str(t_[1]).endswith(("PartialEq::eq", "PartialEq::ne")):
                            a_ = [_unref(y) for y in t_[2] if not (isinstance(y, tuple) and y and y[0] == "mem")]
                            truth = (f[0] == "eq") == bool(f[2])
                            equal = truth if str(t_[1]).endswith("::eq") else not truth
                            if len(a_) == 2 and old in a_ and equal:
                                k_ = a_[1] if a_[0] == old else a_[0]
                                term_nm = ZERO_N if nm == "next_submask" else ONES_N
                                is_term = (isinstance(k_, tuple) and k_ and k_[0] == "call" and str(k_[1]).endswith("%s>::%s" % (TR[0], term_nm)) and ("<%s as " % ty) in str(k_[1])) or (nm == "next_submask" and k_ == mk_int(0)) or (nm != "next_submask" and all_ones(k_))
                                okn = okn or bool(is_term)
                if r[0] == "agg" and r[1][3] == "None":
                    v_none.append(bool(okn))
            okn, oks = bool(v_none) and all(v_none), bool(v_some) and all(v_some)
            key = "%s|shape" % fk(b)
            if okn and oks:
                col.ok("I3", b.loc(), key, "None at the terminal mask; else step and return the previous value")
            else:
                col.violation("I3", key, b.loc(), "%s is not the documented stepper (%s)" % (b.path, why or "termination test or step differs"))
        zb = util.need_body(crate, "<%s as masks::%s>::%s" % (ty, TR[0], ZERO_N))
        ob = util.need_body(crate, "<%s as masks::%s>::%s" % (ty, TR[0], ONES_N))
        Iz, Io = util.analyse(zb), util.analyse(ob)
        okz = all(util.ret_term(st) == mk_int(0) for st in Iz.final_states)
        bits = {"8": 1, "16": 2, "32": 4, "64": 8, "128": 16, "size": 8}[ty[1:]]
        oko = False
        for st in Io.final_states:
            r = util.ret_term(st)
            if r == mk_int(-1) or (r[0] == "int" and r[1] in (-1, (1 << (8 * bits)) - 1)):
                oko = True
            if r[0] == "call" and str(r[1]).endswith("from_le_bytes") and r[2][0][0] == "repeat" and r[2][0][1] == mk_int(255) and str(r[2][0][2]) == str(bits):
                oko = True
            if r[0] == "un" and r[1] == "Not" and r[2] == mk_int(0):
                oko = True
            if r[0] == "call" and str(r[1]).endswith("from_le_bytes") and r[2] and r[2][0][0] in ("assoc", "cst"):
                # a named constant as the byte pattern (`const FULL: [u8; BYTES] = [0xff; BYTES]`): by its evaluated bytes
                cpath = str(r[2][0][1])
                for k_ in getattr(crate, "consts", []):
                    if k_.get("path") == cpath and k_.get("bytes") == [255] * bits:
                        oko = True
        key = "%s|sentinels" % ty
        if okz and oko:
            col.ok("I3", zb.loc(), key, "zero() = 0, ones() = %d bytes of 0xff" % bits, nontrivial=False)
        else:
            col.violation("I3", key, ob.loc(), "%s::zero()/ones() are not 0 / all-ones" % ty)
    for fn, sent, stepper in (("iter_submasks", ZERO_N, MR["iter_submasks"][0]), ("iter_supermasks", ONES_N, MR["iter_supermasks"][0])):
        b = util.need_body(crate, "masks::%s" % fn)
        I = util.analyse(b)
        ok = False
        v_chain = []
        for st in I.final_states:
            ok = False
            r = util.ret_term(st)
            evs = [e for e in st.event_list() if e.kind == "call"]
            ch = [e for e in evs if e.extra.get("name") == "chain"]
            v_chain.append(ok)
            if ch:
                a0, a1 = ch[0].args
                # the tail yields exactly the sentinel once: [sent()] or iter::once(sent()) / Some(sent())
                tail_arr = a1[0] == "agg" and a1[1] == "array" and len(a1[2]) == 1 and a1[2][0][0] == "call" and str(a1[2][0][1]).endswith(TR[0] + "::" + sent)
                tail_once = a1[0] == "call" and str(a1[1]).endswith("iter::once") and a1[2] and a1[2][0][0] == "call" and str(a1[2][0][1]).endswith(TR[0] + "::" + sent)
                tail_some = a1[0] == "agg" and isinstance(a1[1], tuple) and a1[1][3] == "Some" and a1[2][0][0] == "call" and str(a1[2][0][1]).endswith(TR[0] + "::" + sent)
                ok = a0[0] == "call" and str(a0[1]).endswith("from_fn") and (tail_arr or tail_once or tail_some) and r == ch[0].res
                cl = crate.closures_of(b)
                ok = ok and len(cl) == 1 and any(t["fn"].get("name") == stepper for bb, t in cl[0].calls())
                # the closure starts from x and steps against x
                caps = a0[2][0][2] if a0[2] and a0[2][0][0] == "agg" else ()
                ok = ok and all(c == ("param", 1, I.names.get(1)) for c in caps) and len(caps) == 2
                v_chain[-1] = bool(ok)
        ok = bool(v_chain) and all(v_chain)
        if not ok:
            ok = _chain_semantic(crate, b, sent, stepper)
        key = "%s|from_fn-chain-sentinel" % fk(b)
        if ok:
            col.ok("I3", b.loc(), key, "from_fn(|| cur.%s(x)).chain([%s()]) starting at x" % (stepper, sent))
        else:
            col.violation("I3", key, b.loc(), "%s must iterate %s from x and then yield the sentinel %s()" % (fn, stepper, sent))

    # ---------------- I4 / I5
    for fn, table in TABLES.items():
        b = util.need_body(crate, "neighbours::%s" % fn)
        if _neighbours_semantic(col, crate, fn, table, b, fk):
            continue
        I = util.analyse(b)
        st = I.final_states[0]
        evs = [e for e in st.event_list() if e.kind == "call"]
        ii = [e for e in evs if e.extra.get("name") == "into_iter"]
        fl = [e for e in evs if e.extra.get("name") == "filter"]
        mp = [e for e in evs if e.extra.get("name") == "map"]
        got = None
        fm = [e for e in evs if e.extra.get("name") == "filter_map"]
        if not ii:
            # delegation: the public function hands a named offset table to one private helper that builds the chain
            hc = [e for e in evs if crate.by_key.get((e.fn.get("resolved") or e.fn).get("def")) is not None and crate.by_key[(e.fn.get("resolved") or e.fn).get("def")].vis != "pub"]
            if len(hc) == 1 and util.ret_term(st) == hc[0].res:
                h = crate.by_key[(hc[0].fn.get("resolved") or hc[0].fn).get("def")]
                pos_ok = [a_ for a_ in hc[0].args[:4]] == [("param", k_, I.names.get(k_)) for k_ in (1, 2, 3, 4)]
                tab = None
                for a_ in hc[0].args:
                    if isinstance(a_, tuple) and a_ and a_[0] in ("assoc", "cst"):
                        nm_ = str(a_[1]).split("::")[-1]
                        for kc in crate.consts:
                            if kc["name"] == nm_ and kc.get("bytes"):
                                bs = kc["bytes"]
                                vals = [int.from_bytes(bytes(x & 0xFF for x in bs[q:q + 8]), "little", signed=True) for q in range(0, len(bs), 8)]
                                tab = [(vals[q], vals[q + 1]) for q in range(0, len(vals) - 1, 2)]
                if pos_ok and tab is not None:
                    got = tab
                    b = h
                    I = util.analyse(h)
                    st = I.final_states[0]
                    evs = [e for e in st.event_list() if e.kind == "call"]
                    ii = [e for e in evs if e.extra.get("name") == "into_iter"]
                    fl = [e for e in evs if e.extra.get("name") == "filter"]
                    mp = [e for e in evs if e.extra.get("name") == "map"]
                    fm = [e for e in evs if e.extra.get("name") == "filter_map"]
        if fm and not fl and not mp and len(fm) == 1:
            # filter_map(|d| in_bounds.then(|| cell)): one closure is both the filter and the map
            fl, mp = fm, fm
        if got is None and ii and ii[0].args[0][0] == "agg" and ii[0].args[0][1] == "array":
            try:
                got = [(t[2][0][1], t[2][1][1]) for t in ii[0].args[0][2]]
            except Exception:
                got = None
        key = "%s|table" % fk(b)
        chain_ok = len(ii) == 1 and len(fl) == 1 and len(mp) == 1 and fl[0].args[0] == ii[0].res and (mp[0].args[0] == fl[0].res or mp is fl) and util.ret_term(st) == mp[0].res
        if got == table and len(set(got)) == len(got) and chain_ok:
            col.ok("I4", b.loc(), key, "offsets %s in table order; into_iter -> filter -> map" % (got,))
        else:
            col.violation("I4", key, b.loc(), "%s: the offset table is %s, documented order is %s%s" % (fn, got, table, "" if chain_ok else " (or the iterator chain is not into_iter.filter.map)"))
        if not (fl and mp):
            continue
        # closure captures -> outer parameters (n, m, i, j) = params 1..4
        names = {1: "n", 2: "m", 3: "i", 4: "j"}

        rbind = {}

        def bind(clos_term):
            out = {}
            if clos_term[0] == "agg" and isinstance(clos_term[1], tuple) and clos_term[1][0] == "closure":
                for k, op in enumerate(clos_term[2]):
                    p = _strip_cast(op)
                    if p[0] == "param":
                        out[k] = names.get(p[1], "?")
                    # a captured range object `0..n as isize`
                    if op[0] == "agg" and isinstance(op[1], tuple) and str(op[1][1]).endswith("ops::Range") and len(op[2]) == 2:
                        hi = _strip_cast(op[2][1])
                        if hi[0] == "param":
                            rbind[k] = (op[2][0], names.get(hi[1], "?"))
            return out, clos_term[1][1] if clos_term[0] == "agg" else None

        fbind, fkey_ = bind(fl[0].args[1])
        mbind, mkey_ = bind(mp[0].args[1])
        fb = crate.by_key.get(fkey_)
        mb = crate.by_key.get(mkey_)
        if fb is None or mb is None:
            col.violation("I5", "%s|closures" % fk(b), b.loc(), "cannot find the filter/map closures of %s" % fn)
            continue
        If = util.analyse(fb)

        def sym(t):
            """render a closure term with captures and item components named"""
            t = _strip_cast(t)
            if t[0] == "load" and t[2][0] == "field" and t[2][1][0] == "deref" and t[2][1][1][0] == "param":
                p, k = t[2][1][1][1], t[2][2]
                if p == 1:
                    return fbind.get(k, "cap%d" % k)
                return "d%s" % ("x" if k == 0 else "y")
            if t[0] == "proj" and t[2][0] == "param":
                return "d%s" % ("x" if t[1] == 0 else "y")
            if t[0] == "int":
                return str(t[1])
            if t[0] == "named":
                return t[1]
            if t[0] == "bin" and t[1] == "Add":
                return "+".join(sorted([sym(t[2]), sym(t[3])]))
            return tstr(t)

        conds = None
        for st2 in If.final_states:
            r = util.ret_term(st2)
            if r == mk_int(0) or (r[0] == "agg" and isinstance(r[1], tuple) and len(r[1]) > 3 and r[1][3] == "None"):
                continue
            cs = set()
            terms = [(f[1], bool(f[2])) for f in st2.facts if f[0] == "eq" and isinstance(f[1], tuple) and f[1][0] == "bin" and f[1][1] in ("Lt", "Le", "Gt", "Ge")] + ([(r, True)] if (r != mk_int(1) and r[0] == "bin") else [])
            # (lo..hi).contains(&x)  ==  lo <= x && x < hi
            for f in st2.facts:
                t_ = f[1]
                if f[0] == "eq" and f[2] == 1 and isinstance(t_, tuple) and t_[0] == "call" and str(t_[1]).endswith("::contains"):
                    args_ = [x for x in t_[2] if not (isinstance(x, tuple) and x and x[0] == "mem")]
                    rg_ = args_[0][1][1] if args_[0][0] == "ref" and args_[0][1][0] == "constval" else args_[0]
                    x_ = args_[1][1][1] if args_[1][0] == "ref" and args_[1][1][0] == "constval" else args_[1]
                    if rg_[0] == "agg" and str(rg_[1][1]).endswith("ops::Range"):
                        terms.append((("bin", "Ge", x_, rg_[2][0]), True))
                        terms.append((("bin", "Lt", x_, rg_[2][1]), True))
                    elif args_[0][0] == "ref" and args_[0][1][0] == "field" and args_[0][1][1][0] == "deref" and args_[0][1][2] in rbind:
                        lo_, hiname = rbind[args_[0][1][2]]
                        terms.append((("bin", "Ge", x_, lo_), True))
                        terms.append((("bin", "Lt", x_, ("named", hiname)), True))
            for (c, truth) in terms:
                op = c[1] if truth else {"Lt": "Ge", "Le": "Gt", "Gt": "Le", "Ge": "Lt"}[c[1]]
                a_, b_ = sym(c[2]), sym(c[3])
                # normalise to  coord >= 0  /  coord < bound
                if op == "Ge" and b_ == "0":
                    cs.add((a_, ">=0"))
                elif op == "Gt" and b_ == "-1":
                    cs.add((a_, ">=0"))
                elif op == "Le" and a_ == "0":
                    cs.add((b_, ">=0"))
                elif op == "Lt":
                    cs.add((a_, "<" + b_))
                elif op == "Gt":
                    cs.add((b_, "<" + a_))
                else:
                    cs.add((a_, op + b_))
            conds = cs if conds is None else conds
        want = {("dx+i", ">=0"), ("dx+i", "<n"), ("dy+j", ">=0"), ("dy+j", "<m")}
        key = "%s|four-sided-bounds" % fk(fb)
        if conds == want:
            col.ok("I5", fb.loc(), key, "0 <= i+dx < n and 0 <= j+dy < m")
        else:
            col.violation("I5", key, fb.loc(), "%s keeps an offset under %s; the in-bounds test must be exactly 0 <= i+dx < n and 0 <= j+dy < m (rows against n, columns against m)" % (fn, sorted(conds) if conds else conds))
        Im = util.analyse(mb)
        fbind_save = fbind
        fbind = mbind
        okm = False
        for st2 in Im.final_states:
            r = util.ret_term(st2)
            if r[0] == "agg" and isinstance(r[1], tuple) and len(r[1]) > 3 and r[1][3] == "Some":
                r = r[2][0]
            if r[0] == "agg" and r[1] == "tuple" and len(r[2]) == 2:
                okm = [sym(x) for x in r[2]] == ["dx+i", "dy+j"] and all(x[0] == "cast" and x[2] == "usize" for x in r[2])
        fbind = fbind_save
        key = "%s|yields" % fk(mb)
        if okm:
            col.ok("I5", mb.loc(), key, "((i+dx) as usize, (j+dy) as usize)")
        else:
            col.violation("I5", key, mb.loc(), "%s must yield (i+dx, j+dy)" % fn)

    # ---------------- I6
    FLAG0 = [("first", mk_int(1))]   # (name of the bool field, its value before the first item is yielded)
    DATA_NAME = ["data"]
    b = util.need_body(crate, "permutations::iter_permutations")
    # constructors of the iterator type (PermutationIter::new(data)) and private helpers are inlined
    ctor_helpers = [m for m in crate.bodies if not m.is_closure and m.kind in ("Fn", "AssocFn") and not util.self_recursive(m) and m.key != b.key and (m.vis != "pub" or (PI[0] in m.path and not str((crate.impl_of(m) or {}).get("trait") or "").endswith("Iterator")))]
    I = util.analyser(ctor_helpers, features=("comb", "fncall"))(b)
    for st in I.final_states:
        evs = st.event_list()
        srt = [k for k, e in enumerate(evs) if e.kind == "call" and e.extra.get("name") in ("sort", "sort_unstable")]
        r = util.ret_term(st)
        # nothing to order for fewer than two elements: the sort may be skipped under a fact len <= 1
        tiny = any(f[0] == "eq" and isinstance(f[1], tuple) and f[1] and f[1][0] == "bin" and isinstance(f[1][2], tuple) and f[1][2] and f[1][2][0] == "len" and isinstance(f[1][3], tuple) and f[1][3][0] == "int"
                   and ((f[1][1] == "Gt" and f[1][3][1] <= 1 and f[2] == 0) or (f[1][1] == "Ge" and f[1][3][1] <= 2 and f[2] == 0) or (f[1][1] == "Lt" and f[1][3][1] <= 2 and f[2] == 1) or (f[1][1] == "Le" and f[1][3][1] <= 1 and f[2] == 1)) for f in st.facts)
        ok = (bool(srt) or tiny) and r[0] == "agg" and isinstance(r[1], tuple) and r[1][0] == "adt" and r[1][1].endswith(PI[0])
        if ok:
            flds = dict(zip(r[1][4], r[2]))
            flagn = [k_ for k_, v_ in flds.items() if v_ in (mk_int(0), mk_int(1))]
            # the element storage is the field that is not the flag (whatever it is called)
            datan = [k_ for k_ in flds if k_ not in flagn]
            ok = len(flagn) == 1 and len(datan) == 1 and (flds[datan[0]][0] == "out" or (tiny and not srt))
            if ok:
                DATA_NAME[0] = datan[0]
            if ok:
                FLAG0[0] = (flagn[0], flds[flagn[0]])
        key = "%s|sort-then-iter" % fk(b)
        if ok:
            col.ok("I6", b.loc(), key, "data.sort(); PermutationIter { data, <not yet started> }")
        else:
            col.violation("I6", key, b.loc(), "iter_permutations must sort the data before constructing the iterator in its not-yet-started state: otherwise arrangements before the input's are skipped")
    _next_permutation_anatomy(col, crate)
    _adt = util.need_adt(crate, PI[0])
    _nbs = [m for m in crate.bodies if not m.is_closure and m.name == "next" and (crate.impl_of(m) or {}).get("self_adt") == _adt["key"] and str((crate.impl_of(m) or {}).get("trait") or "").endswith("iter::Iterator")]
    nb = _nbs[0] if len(_nbs) == 1 else util.need_body(crate, "<permutations::PermutationIter<T> as std::iter::Iterator>::next")
    npb = util.need_body(crate, "permutations::next_permutation")
    I = util.analyse(nb, features=("comb", "fncall"))  # `cond.then(|| ..)` / Option combinators are case splits
    adt = util.need_adt(crate, PI[0])
    fn_ = [f["name"] for f in util.fields_of(adt)]
    if FLAG0[0][0] not in fn_ or DATA_NAME[0] not in fn_:
        raise Anchor("PermutationIter: cannot identify the started-flag and the element storage among the fields %s" % fn_)
    FIRST, DATA = fn_.index(FLAG0[0][0]), fn_.index(DATA_NAME[0])
    V0 = FLAG0[0][1]
    V1 = mk_int(1 - V0[1])
    selfp = ("deref", ("param", 1, I.names.get(1)))
    seen = {}
    for st in I.final_states:
        r = util.ret_term(st)
        first = ("eq", ("load", ("m0",), ("field", selfp, FIRST)), V0[1]) in st.facts
        evs = st.event_list()
        npc = [e for e in evs if e.kind == "call" and (e.fn.get("resolved") or e.fn).get("def") == npb.key]
        is_some = r[0] == "agg" and r[1][3] == "Some"
        if first:
            ok = is_some and not npc and any(e.kind == "store" and e.place == ("field", selfp, FIRST) and e.val == V1 for e in evs) and r[2][0][0] == "load" and r[2][0][2] == ("field", selfp, DATA)
            seen["first"] = ok
        else:
            stepped = None
            for f in st.facts:
                if npc and f[1] == npc[0].res and f[0] == "eq":
                    stepped = bool(f[2])
            if stepped is True:
                seen["step"] = is_some and r[2][0][0] == "load" and r[2][0][2] == ("field", selfp, DATA)
            elif stepped is False:
                seen["end"] = not is_some
    for k_, desc in (("first", "first call yields the stored (sorted) data and clears the flag"), ("step", "next_permutation true -> Some(clone of data)"), ("end", "next_permutation false -> None")):
        key = "%s|%s" % (fk(nb), k_)
        if seen.get(k_):
            col.ok("I6", nb.loc(), key, desc)
        else:
            col.violation("I6", key, nb.loc(), "PermutationIter::next: %s — not what the code does" % desc)


def _next_permutation_anatomy(col, crate):
    """pivot/swap/reverse with duplicates: the partner must be the last element of the (non-increasing)
    tail that is strictly greater than the pivot — the leftmost of several equal candidates gives a
    tail that is not sorted after the reversal and skips arrangements"""
    fk = util.fkey
    b = util.need_body(crate, "permutations::next_permutation")
    free = [f_ for f_ in crate.bodies if not f_.is_closure and f_.kind == "Fn" and f_.container is None and f_.vis != "pub" and not util.self_recursive(f_) and f_.key != b.key]
    I = util.analyser(free, features=("comb",))(b)
    datap = ("deref", ("param", 1, I.names.get(1)))
    LEN = ("len", ("load", ("m0",), datap))

    def found_by_rev_find(i_el, evs_=()):
        """i_el is the payload of (1..len).rev().find(|&i| data[i-1] < data[i]): the rightmost ascent"""
        if not (i_el[0] == "proj" and i_el[1] == 0 and i_el[2][0] == "down" and i_el[2][1][0] == "call" and str(i_el[2][1][1]).endswith("::find")):
            return False
        fc = i_el[2][1]
        args = [x for x in fc[2] if not (isinstance(x, tuple) and x and x[0] == "mem")]
        recv = args[0]
        rv = recv[1][1] if recv[0] == "ref" and recv[1][0] == "constval" else recv
        for e_ in evs_:
            if e_.res == fc and (e_.extra.get("argvals") or [None])[0] is not None:
                rv = e_.extra["argvals"][0]
        is_rev_range = any(x[0] == "rangeiter" and x[1] == mk_int(1) and x[2] == LEN and x[3] == "rev" for x in [rv] + list(subterms(rv))) or any(x[0] == "call" and str(x[1]).endswith("::rev") and any(y[0] == "agg" and str(y[1][1]).endswith("ops::Range") and y[2] == (mk_int(1), LEN) for y in subterms(x)) for x in [rv] + list(subterms(rv)))
        clo = [x for x in args if isinstance(x, tuple) and x and x[0] == "agg" and isinstance(x[1], tuple) and x[1][0] == "closure"]
        if not is_rev_range or not clo:
            return False
        cb = crate.by_key.get(clo[0][1][1])
        if cb is None:
            return False
        Ic = util.analyse(cb)
        okc = bool(Ic.final_states)
        for fs in Ic.final_states:
            r = util.ret_term(fs)
            if not (r[0] == "call" and str(r[1]).endswith("PartialOrd::lt")):
                okc = False
                continue
            a0, a1 = r[2][0], r[2][1]
            i0 = a0[1][2] if a0[0] == "ref" and a0[1][0] == "index" else None
            i1 = a1[1][2] if a1[0] == "ref" and a1[1][0] == "index" else None
            okc = okc and i0 is not None and i1 is not None and i0 == ("bin", "Sub", i1, mk_int(1))
        return okc

    from ..absint import _canon_closures as _cc

    from ..absint import strip_mem as _sm

    def at(idx, t):
        if _sm(_cc(t)) == _sm(_cc(("ref", ("index", datap, idx)))):
            return True
        # the same element through another index frame (a split_at_mut half: tail[k] is data[i + k])
        t_ = _sm(_cc(t))
        return isinstance(t_, tuple) and len(t_) == 2 and t_[0] == "ref" and isinstance(t_[1], tuple) and t_[1][0] == "index" and t_[1][1] == _sm(_cc(datap)) and util.lin_equal(t_[1][2], _sm(_cc(idx)))

    def tail_from(tail, i_el):
        """&mut data[i..] in either spelling (RangeFrom index, or the second half of split_at_mut(i))"""
        if not (tail[0] == "ref" and isinstance(tail[1], tuple)):
            return False
        x = tail[1]
        if x[0] == "range" and x[1] == datap and x[2][0] == "agg" and x[2][1][1].endswith("RangeFrom") and len(x[2][2]) == 1:
            return util.lin_equal(x[2][2][0], i_el)
        if x[0] == "slicefrom" and x[1] == datap:
            return util.lin_equal(x[2], i_el)
        return False


    def less(facts, xi, yi, neg=False):
        """the facts say data[xi] < data[yi] (strictly), in any of the four spellings of the comparison
        (neg: they say that it does NOT hold)"""
        if neg:
            facts = [(f[0], f[1], 1 - f[2]) if f[0] == "eq" and f[2] in (0, 1) else f for f in facts]
        for f in facts:
            t = f[1]
            if not (f[0] == "eq" and isinstance(t, tuple) and t and t[0] == "call" and len(t[2]) >= 2):
                continue
            nm = str(t[1]).rsplit("::", 1)[-1]
            if "PartialOrd" not in str(t[1]) and "Ord" not in str(t[1]):
                continue
            a0, a1 = t[2][0], t[2][1]
            if nm == "lt" and f[2] == 1 and at(xi, a0) and at(yi, a1):
                return True
            if nm == "gt" and f[2] == 1 and at(yi, a0) and at(xi, a1):
                return True
            if nm == "ge" and f[2] == 0 and at(xi, a0) and at(yi, a1):
                return True
            if nm == "le" and f[2] == 0 and at(yi, a0) and at(xi, a1):
                return True
        return False

    ok_wrap = False
    v_swap, v_scan, v_outer = [], [], []   # one verdict per stepping path: all of them must hold
    why = []
    for st in I.final_states:
        evs = [e for e in st.event_list() if e.kind == "call"]
        ret = util.ret_term(st)
        sw = [e for e in evs if e.extra.get("name") == "swap"]
        rv = [e for e in evs if e.extra.get("name") == "reverse"]
        if ret == mk_int(0):
            if not rv and not sw and zones.entails(st.facts, "Le", LEN, mk_int(1), I.tys):
                # fewer than two elements: the only arrangement is sorted, reversing it would change nothing
                tiny_ok = True
                continue
            ok_wrap = len(rv) == 1 and rv[0].args[0] == ("ref", datap) and not sw
            if not ok_wrap:
                why.append("the exhausted case must reverse the whole slice and return false")
            continue
        if ret != mk_int(1) or len(sw) != 1 or len(rv) != 1:
            why.append("a stepping path must do exactly one swap and one tail reversal and return true")
            v_swap.append(False)
            continue
        if len(sw[0].args) >= 3:
            i_t = sw[0].args[1]
            j_t = sw[0].args[2]
        else:
            # mem::swap(&mut data[p], &mut data[q]) of two elements of the slice (through split_at_mut halves)
            a_, b_ = sw[0].args[0], sw[0].args[1]
            if not (a_[0] == "ref" and b_[0] == "ref" and a_[1][0] == "index" and b_[1][0] == "index" and a_[1][1] == datap and b_[1][1] == datap):
                why.append("the exchange is not a swap of two positions of the slice (%s)" % str(sw[0])[:120])
                v_swap.append(False)
                continue
            i_t, j_t = a_[1][2], b_[1][2]
        # swapping is symmetric: `data.swap(j, i - 1)` is the same exchange
        if not (i_t[0] == "bin" and i_t[1] == "Sub" and i_t[3] == mk_int(1)) and (j_t[0] == "bin" and j_t[1] == "Sub" and j_t[3] == mk_int(1)):
            i_t, j_t = j_t, i_t
        # the partner may be written in the frame of the tail: i + k for the scan variable k
        off_frame = None
        if j_t[0] == "bin" and j_t[1] == "Add" and j_t[3][0] == "phi" and j_t[2][0] in ("elem", "proj"):
            off_frame = (j_t[2], j_t[3])
        # pivot index is i-1 for the loop element i of (1..len).rev()
        piv_ok = i_t[0] == "bin" and i_t[1] == "Sub" and i_t[3] == mk_int(1) and i_t[2][0] == "elem"
        by_find = (not piv_ok) and i_t[0] == "bin" and i_t[1] == "Sub" and i_t[3] == mk_int(1) and found_by_rev_find(i_t[2], evs)
        if by_find:
            i_el = i_t[2]
            ok_outer = True
            v_outer.append(bool(ok_outer))
            tail = rv[0].args[0]
            tail_ok = tail_from(tail, i_el)
            ok_swap = tail_ok and evs.index(sw[0]) < evs.index(rv[0])
            v_swap.append(bool(ok_swap))
            if not ok_swap:
                why.append("swap, then reverse data[i..] expected")
        elif not piv_ok:
            why.append("swap's first index is %s, expected i-1" % tstr(i_t))
            v_outer.append(False)
            continue
        if not by_find:
          i_el = i_t[2]
          ok_outer = i_el[2] == mk_int(1) and i_el[3] == LEN and any(isinstance(v, tuple) and v and v[0] == "rangeiter" and v[3] == "rev" for v in st.env.values())
          v_outer.append(bool(ok_outer))
        if not by_find:
            asc = less(st.facts, i_t, i_el)
            tail = rv[0].args[0]
            tail_ok = tail_from(tail, i_el)
            ok_swap = asc and tail_ok and evs.index(sw[0]) < evs.index(rv[0])
            v_swap.append(bool(ok_swap))
            if not ok_swap:
                why.append("ascent test data[i-1] < data[i], swap, then reverse data[i..] expected")
        # the partner: loop variable of a forward scan from i while data[j+1] > data[i-1]
        if j_t[0] == "phi" or (off_frame is not None and util.lin_equal(off_frame[0], i_el)):
            kphi = j_t if j_t[0] == "phi" else off_frame[1]
            head, jl = kphi[1], kphi[2]
            # the scan may sit in an inlined private helper: its loop belongs to that sub-analysis
            L, work = I, [I]
            while work:
                x_ = work.pop()
                hit = [h_ for h_ in x_.loop_entry if x_.uid(h_) == head]
                if hit:
                    L, head = x_, hit[0]
                    break
                work.extend(getattr(x_, "inlined_subs", []))
            ent = [en.get(jl) for en in L.loop_entry.get(head, [])]
            start = (lambda x: x) if j_t[0] == "phi" else (lambda x: ("bin", "Add", off_frame[0], x))
            scan_from_i = bool(ent) and all(x is not None and util.lin_equal(start(x), i_el) for x in ent)
            step_ok = False
            v_step = []
            for bs in L.backedge_states.get(head, []):
                nj = bs.env.get(jl)
                gt = less(bs.facts, i_t, ("bin", "Add", j_t, mk_int(1)))
                lt_rev = False
                inb = any(f[0] == "eq" and f[2] == 1 and _sm(_cc(f[1])) == _sm(_cc(("bin", "Lt", ("bin", "Add", j_t, mk_int(1)), LEN))) for f in bs.facts)
                if not inb and j_t[0] != "phi":
                    # k + 1 < len(data[i..]) is j + 1 < len for j = i + k
                    inb = any(f[0] == "eq" and f[2] == 1 and isinstance(f[1], tuple) and f[1][0] == "bin" and f[1][1] == "Lt" and f[1][2] == ("bin", "Add", kphi, mk_int(1)) and isinstance(f[1][3], tuple) and f[1][3][0] == "len"
                              and any(x[0] == "slicefrom" and x[1] == datap and util.lin_equal(x[2], i_el) for x in subterms(f[1][3])) for f in bs.facts)
                step_ok = nj == ("bin", "Add", kphi, mk_int(1)) and (gt or lt_rev) and inb
                v_step.append(bool(step_ok))
            step_ok = bool(v_step) and all(v_step)
            # ... and stops exactly there: on this (stepping) path the scan was left because j+1 == len or because
            # data[j+1] is not greater than the pivot (an index bounds check states j+1 < len too, so the loop test is
            # identified by its negation at the exit)
            nxt = ("bin", "Add", j_t, mk_int(1))

            def bound_false(f):
                if not (f[0] == "eq" and f[2] == 0 and isinstance(f[1], tuple) and f[1][0] == "bin" and f[1][1] == "Lt"):
                    return False
                if _sm(_cc(f[1])) == _sm(_cc(("bin", "Lt", nxt, LEN))):
                    return True
                return j_t[0] != "phi" and f[1][2] == ("bin", "Add", kphi, mk_int(1)) and isinstance(f[1][3], tuple) and f[1][3][0] == "len" and any(x[0] == "slicefrom" and x[1] == datap and util.lin_equal(x[2], i_el) for x in subterms(f[1][3]))

            exit_ok = any(bound_false(f) for f in st.facts) or less(st.facts, i_t, nxt, neg=True)
            step_ok = step_ok and exit_ok
            ok_scan = scan_from_i and step_ok
            v_scan.append(bool(ok_scan))
            if not ok_scan:
                why.append("the partner scan must start at i and advance while j+1 < len && data[j+1] > data[i-1] (strictly)")
        else:
            # accepted alternative: rposition from the right with a strict comparison against the pivot
            rp = [e for e in evs if e.extra.get("name") == "rposition"]
            ok_scan = False
            v_scan.append(bool(ok_scan))
            why.append("the swap partner %s is not found by the forward scan `while j+1 < len && data[j+1] > data[i-1]`: with repeated elements a different choice (e.g. the leftmost of equal candidates) leaves the tail unsorted and skips arrangements" % tstr(j_t)[:120])
    ok_swap, ok_scan, ok_outer = (bool(v) and all(v) for v in (v_swap, v_scan, v_outer))
    key = "%s|anatomy" % fk(b)
    if ok_outer:
        col.ok("I7", b.loc(), key + "|outer", "i over (1..len).rev(): rightmost ascent first")
    else:
        col.violation("I7", key + "|outer", b.loc(), "next_permutation must look for the rightmost i with data[i-1] < data[i] ((1..len).rev())")
    if ok_swap:
        col.ok("I7", b.loc(), key + "|swap-reverse", "swap(i-1, j); data[i..].reverse(); true")
    else:
        col.violation("I7", key + "|swap-reverse", b.loc(), "; ".join(why[:2]) or "swap/reverse shape not recognised")
    if ok_scan:
        col.ok("I7", b.loc(), key + "|partner", "j = last index of the tail with data[j] > data[i-1] (forward scan from i, strict >)")
    else:
        col.violation("I7", key + "|partner", b.loc(), "; ".join(w for w in why if "partner" in w) or "partner scan not recognised")
    if ok_wrap:
        col.ok("I7", b.loc(), key + "|wrap", "no ascent: reverse everything, return false")
    else:
        col.violation("I7", key + "|wrap", b.loc(), "the last arrangement must wrap to sorted order (reverse the whole slice) and return false")
