"""E3 — forward abstract interpretation of a MIR body over a domain of symbolic *terms* with
trace partitioning.

* Values are hash-consable tuples (terms) over parameters, loads, call results and constants.
* One abstract state per control-flow trace through loop-free code (trace partitioning, Rival &
  Mauborgne); each state carries the branch facts known on that trace, the memory version and the
  ordered list of call/store events seen so far.
* At a loop head every local the loop may assign is replaced by a phi-symbol and the memory version
  by a loop symbol (classic havoc abstraction); states arriving over a back edge are collected
  separately and not propagated, so a loop body is analysed once, for an arbitrary iteration.
* Cleanup blocks / unwind edges are not followed.

No path is handed to a solver; questions about a state are answered by term equality and by the
difference-bound closure in zones.py.
"""
from . import cfg as cfgmod
from . import effects

import re as _re

_ARR_RE = _re.compile(r"^&(?:mut )?\[[^;\]]+; (\d+)\]$")
_PROMOTED_RE = _re.compile(r"^_1 = (.*?); _0 = &_1; $")
def _float_of_bits(v, ty):
    import struct

    try:
        if ty == "f64":
            return struct.unpack("<d", struct.pack("<Q", v & 0xFFFFFFFFFFFFFFFF))[0]
        return struct.unpack("<f", struct.pack("<I", v & 0xFFFFFFFF))[0]
    except Exception:
        return v


def _promoted_value(text, ty):
    """value of a promoted constant from the text of its MIR (`_1 = const 0_u8; _2 = &_1; _0 = &_2;`)"""
    defs = {}
    for part in text.split(";"):
        part = part.strip()
        if " = " in part:
            l, r = part.split(" = ", 1)
            defs[l.strip()] = r.strip()
    cur = defs.get("_0")
    depth = 0
    while cur is not None and cur.startswith("&"):
        inner = cur[1:].strip()
        if inner.startswith("mut "):
            inner = inner[4:].strip()
        m2_ = _re.match(r"^\(\*(_\d+)\)$", inner)
        if m2_:
            # a reborrow &(*_n): same referent as _n's
            cur = defs.get(m2_.group(1))
            if cur is None or not cur.startswith("&"):
                return None
            continue
        depth += 1
        cur = defs.get(inner)
        if depth > 4:
            return None
    if cur is None or depth == 0:
        return None
    m_ = _re.match(r"^const (-?\d+)_[iu](?:8|16|32|64|128|size)$", cur)
    if m_:
        v = mk_int(int(m_.group(1)))
    elif cur.startswith("const "):
        v = ("cst", cur[len("const "):], ty.lstrip("&"))
    else:
        v = ("cst", cur, ty.lstrip("&"))
    for _ in range(depth):
        v = ("ref", ("constval", v))
    return v


UNIT = ("unit",)
FNAMES = {}  # field place term -> source name of the field (for reports only)
TRUE = ("int", 1)
FALSE = ("int", 0)


class Budget(Exception):
    pass


class Unsupported(Exception):
    pass


def mk_int(v):
    return ("int", int(v))


def is_int(t):
    return t[0] == "int"


def subterms(t, seen=None):
    """all subterms (pre-order), tuples only"""
    st = [t]
    while st:
        x = st.pop()
        if not isinstance(x, tuple) or not x:
            continue
        if not isinstance(x[0], str):
            # a list of terms (call arguments, aggregate fields), not a term
            for y in x:
                if isinstance(y, tuple):
                    st.append(y)
            continue
        if x[0] in _MEM_HEADS:
            continue  # memory versions are not values
        yield x
        for y in (x[2:] if x[0] == "load" else x[1:]):
            if isinstance(y, tuple):
                st.append(y)


_MEM_HEADS = ("mem", "after", "mphi", "store", "m0")


def mentions(t, pred):
    for s in subterms(t):
        if pred(s):
            return True
    return False


CMP_FOLD = {
    "Eq": lambda a, b: a == b,
    "Ne": lambda a, b: a != b,
    "Lt": lambda a, b: a < b,
    "Le": lambda a, b: a <= b,
    "Gt": lambda a, b: a > b,
    "Ge": lambda a, b: a >= b,
}
ARITH_FOLD = {
    "Add": lambda a, b: a + b,
    "Sub": lambda a, b: a - b,
    "Mul": lambda a, b: a * b,
}
NEG_CMP = {"Eq": "Ne", "Ne": "Eq", "Lt": "Ge", "Ge": "Lt", "Gt": "Le", "Le": "Gt"}


def mk_bin(op, a, b, ty=None):
    if op.endswith("Unchecked"):
        op = op[: -len("Unchecked")]
    if is_int(a) and is_int(b):
        if op in CMP_FOLD:
            return mk_int(1 if CMP_FOLD[op](a[1], b[1]) else 0)
        if op in ARITH_FOLD:
            return mk_int(ARITH_FOLD[op](a[1], b[1]))
    if op.endswith("WithOverflow"):
        base = op[: -len("WithOverflow")]
        return ("agg", "tuple", (mk_bin(base, a, b), ("ovf", base, a, b, ty)))
    return ("bin", op, a, b)


def mk_not(a):
    if is_int(a):
        return mk_int(0 if a[1] else 1)
    if a[0] == "bin" and a[1] in NEG_CMP and a[1] not in ():
        # integer comparisons only: callers use floats through ('fbin', ...) so this is exact
        return ("bin", NEG_CMP[a[1]], a[2], a[3])
    if a[0] == "un" and a[1] == "Not":
        return a[2]
    return ("un", "Not", a)


def mk_proj(t, i):
    if i == 0 and t[0] == "down" and t[2] == 1 and t[1][0] == "optref":
        # the payload of Some(&x) obtained by as_ref/as_mut of an Option place is a reference into that place
        return ("ref", ("field", ("down", t[1][1], 1), 0))
    if t[0] == "agg":
        fields = t[2]
        if i < len(fields):
            return fields[i]
    if t[0] == "with":
        if t[2] == i:
            return t[3]
        return mk_proj(t[1], i)
    return ("proj", i, t)


def mk_with(t, i, v):
    if t[0] == "agg":
        f = list(t[2])
        if i < len(f):
            f[i] = v
            return ("agg", t[1], tuple(f))
    return ("with", t, i, v)


def mk_down(t, variant):
    if t[0] == "agg" and isinstance(t[1], tuple) and t[1][0] == "adt":
        if t[1][2] == variant:
            return t
    if t[0] == "rnext" and variant == 1:
        return mk_some(t[1])
    return ("down", t, variant)


def mk_discr(t):
    if t[0] == "agg" and isinstance(t[1], tuple) and t[1][0] == "adt":
        return mk_int(t[1][2])
    if t[0] == "optref":
        return t[2]
    return ("discr", t)


# ---- place terms ---------------------------------------------------------------------------


def place_root(pl):
    while pl[0] in ("field", "index", "down", "cidx", "subslice", "range", "slicefrom"):
        pl = pl[1]
    return pl


def place_is_local(pl):
    return place_root(pl)[0] == "local"


def place_chain(pl):
    ch = []
    while pl[0] in ("field", "index", "down", "cidx", "subslice", "range", "slicefrom"):
        ch.append(pl)
        pl = pl[1]
    ch.append(pl)
    ch.reverse()
    return ch


def is_prefix(p, q):
    """p is a (non-strict) prefix of q"""
    while True:
        if p == q:
            return True
        if q[0] in ("field", "index", "down", "cidx", "subslice", "range", "slicefrom"):
            q = q[1]
        else:
            return False


DOWN_TY = {}


def _note_down(term, e):
    if len(e) > 3 and e[3]:
        ty = e[3] if isinstance(e[3], str) else (e[3].get("s") if isinstance(e[3], dict) else None)
        if ty:
            DOWN_TY.setdefault(term, set()).add(ty)


def _mk_down_pl(base, pl):
    r = mk_down(base, pl[2])
    ty = DOWN_TY.get(pl)
    if ty is not None and r[0] == "down":
        DOWN_TY.setdefault(r, set()).update(ty)
    return r


def _down_adt_ok(down, path):
    """The eta rule only holds inside one enum: Touch(p) rebuilt as Some(p) is not the scrutinee."""
    tys = DOWN_TY.get(down)
    if not tys:
        return True
    for ty in tys:
        ty = ty.lstrip("&").replace("mut ", "")
        if ty == path or ty.startswith(path + "<") or ty.split("<")[0].split("::")[-1] == path.split("::")[-1]:
            return True
    return False


def places_disjoint(p, q):
    """provably non-overlapping places (syntactic)"""
    cp, cq = place_chain(p), place_chain(q)
    if cp[0] != cq[0]:
        # different roots: two distinct locals are disjoint, and so is a local from anything behind a
        # pointer (derefs of references to locals are resolved to the local itself by place_term);
        # two different pointers may alias
        if cp[0][0] in ("local", "constval", "cell") or cq[0][0] in ("local", "constval", "cell"):
            return True
        # referents of two distinct reference parameters: a &mut parameter is noalias, and through
        # two shared references nothing is written
        if cp[0][0] == "deref" and cq[0][0] == "deref" and cp[0][1][0] == "param" and cq[0][1][0] == "param" and cp[0][1][1] != cq[0][1][1]:
            return True
        # Box ownership: the heap allocation owned by a Box value is disjoint from the object that holds the
        # Box (and from anything else reached without going through that Box)
        bp = cp[0][0] == "deref" and isinstance(cp[0][1], tuple) and cp[0][1][0] == "boxptr"
        bq = cq[0][0] == "deref" and isinstance(cq[0][1], tuple) and cq[0][1][0] == "boxptr"
        if bp != bq:
            other = cq if bp else cp
            if other[0][0] == "deref" and isinstance(other[0][1], tuple) and other[0][1][0] in ("param", "upvar"):
                return True
        return False
    for a, b in zip(cp[1:], cq[1:]):
        if a == b:
            continue
        if a[0] == "field" and b[0] == "field" and a[1] == b[1] and a[2] != b[2]:
            return True
        if a[0] == "index" and b[0] == "index" and a[1] == b[1]:
            if is_int(a[2]) and is_int(b[2]) and a[2] != b[2]:
                return True
            return False
        return False
    return False


class Event:
    __slots__ = ("kind", "bb", "idx", "callee", "fn", "args", "res", "place", "val", "state", "extra")

    def __init__(self, kind, bb, idx=None, callee=None, fn=None, args=None, res=None, place=None, val=None, state=None, extra=None):
        self.kind = kind
        self.bb = bb
        self.idx = idx
        self.callee = callee
        self.fn = fn
        self.args = args
        self.res = res
        self.place = place
        self.val = val
        self.state = state
        self.extra = extra

    def __repr__(self):
        if self.kind == "call":
            return "call@bb%d %s(%s)" % (self.bb, self.callee, ", ".join(tstr(a) for a in self.args))
        if self.kind == "store":
            return "store@bb%d %s := %s" % (self.bb, tstr(self.place), tstr(self.val))
        return "%s@bb%s" % (self.kind, self.bb)


class State:
    __slots__ = ("env", "mem", "facts", "events", "path", "active", "nevents")

    def __init__(self, env, mem, facts, events, path, active, nevents=0):
        self.env = env
        self.mem = mem
        self.facts = facts
        self.events = events  # cons list (prev, Event) or None
        self.path = path  # cons list (prev, bb)
        self.active = active  # tuple of loop heads currently inside
        self.nevents = nevents

    def fork(self):
        return State(dict(self.env), self.mem, self.facts, self.events, self.path, self.active, self.nevents)

    def event_list(self):
        out = []
        e = self.events
        while e is not None:
            out.append(e[1])
            e = e[0]
        out.reverse()
        return out

    def path_list(self):
        out = []
        p = self.path
        while p is not None:
            out.append(p[1])
            p = p[0]
        out.reverse()
        return out

    def add_fact(self, f):
        # normalise negations so that the same condition is the same fact
        while f[0] in ("eq", "ne") and isinstance(f[1], tuple) and f[1] and f[1][0] == "un" and f[1][1] == "Not" and f[2] in (0, 1):
            f = (f[0], f[1][2], 1 - f[2])
        self.facts = self.facts | {f}
        # a true conjunction / false disjunction of comparisons says the same of each operand
        # (`(l, r) == (vl, vr)` is `l == vl & r == vr`, `a & b` on two tests)
        t = f[1]
        if f[0] == "eq" and f[2] in (0, 1) and not isinstance(f[2], bool) and isinstance(t, tuple) and len(t) == 4 and t[0] == "bin" and ((t[1] == "BitAnd" and f[2] == 1) or (t[1] == "BitOr" and f[2] == 0)) and _boolish(t[2]) and _boolish(t[3]):
            self.add_fact(("eq", t[2], f[2]))
            self.add_fact(("eq", t[3], f[2]))
        # ... and a false conjunction / true disjunction leaves one operand once the other is known
        # (`!(l == vl & r == vr)` with `r == vr` known by invariant gives `l != vl`)
        elif f[0] == "eq" and f[2] in (0, 1) and not isinstance(f[2], bool) and isinstance(t, tuple) and len(t) == 4 and t[0] == "bin" and ((t[1] == "BitAnd" and f[2] == 0) or (t[1] == "BitOr" and f[2] == 1)) and _boolish(t[2]) and _boolish(t[3]):
            self.facts = self.facts | {("imp", ("eq", t[2], 1 - f[2]), ("eq", t[3], f[2])), ("imp", ("eq", t[3], 1 - f[2]), ("eq", t[2], f[2]))}

    def add_event(self, ev):
        self.events = (self.events, ev)
        self.nevents += 1


def _boolish(t):
    """a term that is a truth value by construction: a comparison, or and / or / not of such"""
    if not isinstance(t, tuple) or not t:
        return False
    if t[0] == "bin" and len(t) == 4:
        if t[1] in ("Eq", "Ne", "Lt", "Le", "Gt", "Ge"):
            return True
        if t[1] in ("BitAnd", "BitOr"):
            return _boolish(t[2]) and _boolish(t[3])
    if t[0] == "un" and t[1] == "Not":
        return _boolish(t[2])
    return False


def tstr(t, depth=0):
    """compact rendering of a term for reports"""
    if not isinstance(t, tuple):
        return str(t)
    if depth > 12:
        return "…"
    if not t:
        return "()"
    if not isinstance(t[0], str):
        return "(%s)" % ", ".join(tstr(a, depth + 1) for a in t)
    k = t[0]
    d = depth + 1
    if k == "int":
        return str(t[1])
    if k == "param":
        return "arg%d" % t[1] if len(t) < 3 or not t[2] else t[2]
    if k == "bin":
        sym = {"Add": "+", "Sub": "-", "Mul": "*", "Div": "/", "Rem": "%", "Eq": "==", "Ne": "!=", "Lt": "<", "Le": "<=", "Gt": ">", "Ge": ">=", "BitAnd": "&", "BitOr": "|", "BitXor": "^", "Shl": "<<", "Shr": ">>"}.get(t[1], t[1])
        return "(%s %s %s)" % (tstr(t[2], d), sym, tstr(t[3], d))
    if k == "un":
        return "%s(%s)" % (t[1], tstr(t[2], d))
    if k == "load":
        return "[%s]" % tstr(t[2], d)
    if k == "local":
        return "_%d" % t[1]
    if k == "deref":
        return "*%s" % tstr(t[1], d)
    if k == "field":
        return "%s.%s" % (tstr(t[1], d), FNAMES.get(t, t[2]))
    if k == "index":
        return "%s[%s]" % (tstr(t[1], d), tstr(t[2], d))
    if k == "ref":
        return "&%s" % tstr(t[1], d)
    if k == "call":
        nm = t[1].split("::")[-1] if isinstance(t[1], str) else str(t[1])
        return "%s(%s)%s" % (nm, ", ".join(tstr(a, d) for a in t[2]), "" if t[3] is None else "@%s" % (t[3],))
    if k == "proj":
        return "%s.%d" % (tstr(t[2], d), t[1])
    if k == "agg":
        if isinstance(t[1], str):
            nm = t[1]
        elif t[1][0] == "adt":
            nm = "%s::%s" % (t[1][1].split("::")[-1], t[1][3])
        else:
            nm = "%s %s" % (t[1][0], str(t[1][1]).split("::", 1)[-1])
        return "%s{%s}" % (nm, ", ".join(tstr(a, d) for a in t[2]))
    if k == "phi":
        return "phi(bb%s,_%s)" % (t[1], t[2])
    if k == "cast":
        return "(%s as %s)" % (tstr(t[3], d), t[2])
    if k == "discr":
        return "discr(%s)" % tstr(t[1], d)
    if k == "boxptr":
        return "box(%s)" % tstr(t[1], d)
    if k == "down":
        return "(%s as v%d)" % (tstr(t[1], d), t[2])
    if k in ("max", "min"):
        return "%s(%s, %s)" % (k, tstr(t[1], d), tstr(t[2], d))
    return "%s(%s)" % (k, ", ".join(tstr(a, d) for a in t[1:]))


# ---- callee classification -------------------------------------------------------------------


def fn_names(fn):
    """(generic path, resolved path or None, trait path or None, method name)"""
    if "indirect" in fn:
        return ("<indirect>", None, None, "<indirect>")
    res = fn.get("resolved")
    return (fn.get("path"), res.get("path") if res else None, fn.get("trait"), fn.get("name"))


PURE_PREFIX = (
    "core::num::",
    "std::cmp::",
    "core::cmp::",
)


class Interp:
    """Abstract interpreter for one body."""

    MAX_STATES = 20000
    MAX_PER_BLOCK = 3000

    def __init__(self, body, program=None, axioms=None, pure=None, param_names=True, inline=None, hooks=None, uid_prefix=(), parent=None, assume=None, features=None):
        self.body = body
        self.program = program
        self.inline = inline or set()
        # opt-in normalisations: 'comb' (Option/bool combinators with closures as case splits), 'fncall' (calls of
        # known closure values), 'opassign' (x op= y on type parameters as x := x op y)
        self.features = frozenset(features or ())
        self.record_index_reads = False
        self._upvar_refs = set()
        self._env_place = None
        if body.is_closure and param_names is not None:
            ut = body.upvar_types()
            self._upvar_refs = {k for k, t in ut.items() if (t or "").startswith("&")}
            nm = body.local_names().get(1) if param_names else None
            self._env_place = ("deref", ("param", 1, nm))
        self._cur_bb = None
        self.hooks = hooks or {}
        self.uid_prefix = uid_prefix
        if parent is None and not uid_prefix:
            DOWN_TY.clear()  # place and value terms are relative to the body being analysed
        self.parent = parent
        self.assume = assume  # callable(I, st): add entry assumptions (type invariants)
        self.cfg = cfgmod.CFG(body)
        self.loops = self.cfg.loops()
        self.tys = {}
        self.block_states = {}  # bb -> list of entry states
        self.final_states = []  # states at `return`
        self.backedge_states = {}  # head -> list of states arriving over a back edge
        self.inl_back = []  # back-edge states of loops inside inlined callees (events include the caller's prefix)
        self.inl_back_groups = []  # the same, grouped: [(unique loop id of that inlined instance, [states])]
        self.array_len = {}  # place of a fixed-size array that was unsized -> its length
        self.discr_names = {}  # discriminant term -> {value: variant name}
        self.loop_entry = {}  # head -> list of environments on entry from outside (before havoc)
        self.diverged = []  # states that ended in a call without target / unreachable
        self.nstates = 0
        self.extra_axioms = axioms or {}
        self.extra_pure = pure or (lambda fn: False)
        self.addr_taken_mut = self._addr_taken_mut()
        self.loop_mod = {h: self._loop_modified(h, blks) for h, blks in self.loops.items()}
        self.names = body.local_names() if param_names else {}
        self.unsupported = []

    # ---- static pre-passes ---------------------------------------------------------------------
    def _addr_taken_mut(self):
        r = set()
        for bb, idx, s in self.body.statements():
            if s["k"] == "assign" and s["rv"]["k"] in ("ref", "rawptr"):
                rv = s["rv"]
                if rv["k"] == "rawptr" or rv["bk"] == "mut":
                    pl = rv["place"]
                    if not any(e[0] == "deref" for e in pl["p"]):
                        r.add(pl["l"])
        return r

    def _loop_modified(self, head, blks):
        locs = set()
        mem = False
        for bb in blks:
            b = self.body.blocks[bb]
            for s in b["stmts"]:
                if s["k"] in ("assign", "set_discr"):
                    pl = s["place"]
                    if any(e[0] == "deref" for e in pl["p"]):
                        mem = True
                    else:
                        locs.add(pl["l"])
            t = b["term"]
            if t["k"] == "call":
                locs.add(t["dest"]["l"])
                if any(e[0] == "deref" for e in t["dest"]["p"]):
                    mem = True
                if t["target"] is not None and not self._static_pure(t):
                    mem = True  # conservatively: a call that is not known pure may write memory
            elif t["k"] == "asm":
                mem = True
                for o in t["operands"]:
                    if o.get("place"):
                        locs.add(o["place"]["l"])
            elif t["k"] == "drop":
                pass
        if mem:
            locs |= self.addr_taken_mut
        return (locs, mem)

    def _loop_frame(self, head, st):
        """places the loop body may write, as place terms in the entry state; None = anything"""
        blks = self.loops[head]
        locs, _ = self.loop_mod[head]
        fr = []

        def first_deref(p):
            for n, e in enumerate(p["p"]):
                if e[0] == "deref":
                    return n
            return None

        def resolve(p, depth=0):
            """MIR place (json) -> place term valid for the whole loop, ('local', n) for function-local
            memory, or None when it cannot be bounded"""
            n = first_deref(p)
            if n is None:
                return ("local", p["l"])
            if depth > 6:
                return None
            base = p["l"]
            pre, rest = p["p"][:n], p["p"][n + 1 :]
            if base not in locs:
                q = {"l": base, "p": []}
                for e in p["p"]:
                    if e[0] == "index" and e[1] in locs:
                        break  # loop-variant index: the whole indexed aggregate
                    q["p"].append(e)
                return self.place_term(st, q)
            if pre:
                return None
            defs = []
            for bb in blks:
                for s_ in self.body.blocks[bb]["stmts"]:
                    if s_["k"] == "assign" and s_["place"]["l"] == base and not s_["place"]["p"]:
                        defs.append(("rv", s_["rv"]))
                tm = self.body.blocks[bb]["term"]
                if tm["k"] == "call" and tm["dest"]["l"] == base and not tm["dest"]["p"]:
                    defs.append(("call", tm))
            if len(defs) != 1:
                return None
            kind, d = defs[0]
            if kind == "call":
                if not self._static_pure(d):
                    return None
                for a in d["args"]:
                    if a["k"] in ("copy", "move"):
                        ty = a["place"].get("ty") or ""
                        if ty.startswith(("&", "*")):
                            return resolve({"l": a["place"]["l"], "p": a["place"]["p"] + [["deref"]]}, depth + 1)
                return None
            rv = d
            if rv["k"] in ("ref", "rawptr"):
                inner = resolve(rv["place"], depth + 1)
                if inner is None or inner[0] == "local":
                    return inner
                return self._extend(inner, {"p": rest}, st, locs)
            if rv["k"] in ("use", "cast") and rv["op"]["k"] in ("copy", "move"):
                q = rv["op"]["place"]
                return resolve({"l": q["l"], "p": q["p"] + [["deref"]] + rest}, depth + 1)
            return None

        for bb in blks:
            blk = self.body.blocks[bb]
            for s_ in blk["stmts"]:
                if s_["k"] in ("assign", "set_discr") and any(e[0] == "deref" for e in s_["place"]["p"]):
                    r = resolve(s_["place"])
                    if r is None:
                        return None
                    if r[0] != "local":
                        fr.append(r)
            tm = blk["term"]
            if tm["k"] == "call" and tm["target"] is not None and not self._static_pure(tm):
                for a in tm["args"]:
                    if a["k"] not in ("copy", "move"):
                        continue
                    ty = a["place"].get("ty") or ""
                    if not (ty.startswith(("&", "*")) or "Box<" in ty or "{closure" in ty or "dyn " in ty):
                        continue
                    r = resolve({"l": a["place"]["l"], "p": a["place"]["p"] + [["deref"]]})
                    if r is None:
                        return None
                    if r[0] != "local":
                        fr.append(r)
                if any(e[0] == "deref" for e in tm["dest"]["p"]):
                    r = resolve(tm["dest"])
                    if r is None:
                        return None
                    if r[0] != "local":
                        fr.append(r)
            elif tm["k"] == "asm":
                return None
        return tuple(fr)

    def _extend(self, base_term, rest, st, locs):
        cur = base_term
        for e in rest["p"]:
            k = e[0]
            if k == "deref":
                return None
            if k == "field":
                cur = ("field", cur, e[1])
            elif k == "index":
                return cur
            elif k == "downcast":
                cur = ("down", cur, e[1])
                _note_down(cur, e)
            else:
                return cur
        return cur

    def uid(self, bb):
        return bb if not self.uid_prefix else self.uid_prefix + (bb,)

    def frame_of(self, args, argtys=None):
        """places a callee can reach (and so possibly write) through its arguments; None = anything.
        References and aggregates of references are followed structurally; an opaque value contributes
        what it points to when its type is a pointer type and nothing otherwise (a value of a generic
        type T returned by another call does not borrow from the caller's places)."""
        fr = []

        def walk(a, ty, depth=0):
            if not isinstance(a, tuple) or not a or depth > 6:
                return True
            h = a[0]
            if h in ("ref", "optref"):
                fr.append(a[1])
                return True
            if h == "agg":
                for x in a[2]:
                    if not walk(x, None, depth + 1):
                        return False
                return True
            if h in ("int", "unit", "cst", "gparam", "fnitem", "bin", "un", "fbin", "fcmp", "wbin", "len", "max", "min", "discr", "rnext", "elem", "rangeiter", "repeat"):
                return True
            ty = ty or self.tys.get(a) or ""
            if ty.startswith(("&", "*")) or ty.startswith(("std::boxed::Box<", "alloc::boxed::Box<")):
                fr.append(("deref", a))
                return True
            if "&mut" in ty or "*mut" in ty or "dyn " in ty:
                return False
            return True

        for n, a in enumerate(args):
            ty = argtys[n] if argtys and n < len(argtys) else None
            if ty and ty.startswith("&") and not ty.startswith("&mut"):
                continue  # nothing is written through a shared reference (no interior mutability assumed)
            if not walk(a, ty):
                return None
        return tuple(fr)

    def _static_pure(self, t):
        """pre-pass approximation of `call` purity (no state available yet)"""
        fn = t["fn"]
        if "indirect" in fn:
            return False
        gpath, rpath, trait, name = fn_names(fn)
        for k in (rpath, gpath, (trait, name) if trait else None):
            if k is not None and (k in AXIOMS or k in self.extra_axioms):
                if k in (("std::iter::Iterator", "next"),):
                    # a range iterator does not touch memory; other iterators are handled by the call itself
                    aty = effects._op_ty(self.body, t["args"][0]) if t["args"] else ""
                    return "Range" in aty
                return name not in ("swap", "replace", "take")
        if self.is_pure(fn):
            return True
        argtys = [effects._op_ty(self.body, a) for a in t["args"]]
        return effects.call_is_pure(fn, argtys, getattr(self.body.crate, "program", None))

    # ---- evaluation ----------------------------------------------------------------------------
    def initial_state(self):
        env = {}
        for i in range(1, self.body.arg_count + 1):
            t = ("param", i, self.names.get(i))
            env[i] = t
            self.tys[t] = self.body.locals[i]["ty"]
        return State(env, ("m0",), frozenset(), None, None, ())

    def read_local(self, st, l):
        v = st.env.get(l)
        if v is None:
            v = ("undef", l)
        return v

    def read_pl(self, st, pl):
        k = pl[0]
        if k == "local":
            return self.read_local(st, pl[1])
        if k == "constval":
            return pl[1]
        if k == "field" and self._upvar_refs and pl[1] == self._env_place and pl[2] in self._upvar_refs:
            return ("upvar", pl[2])  # a captured reference never changes during the closure's execution
        if place_is_local(pl) or place_root(pl)[0] == "constval":
            base = self.read_pl(st, pl[1])
            if k == "field":
                return mk_proj(base, pl[2])
            if k == "down":
                return _mk_down_pl(base, pl)
            if k == "index":
                if base[0] == "agg" and is_int(pl[2]) and pl[2][1] < len(base[2]):
                    return base[2][pl[2][1]]
                return ("idx", base, pl[2])
            return (k, base) + tuple(pl[2:])
        return self.load(st.mem, pl)

    def load(self, mem, pl):
        m = mem
        while True:
            if m[0] == "store":
                if m[2] == pl:
                    return m[3]
                if is_prefix(m[2], pl) and m[2] != pl:
                    # a whole-aggregate store followed by a read of a component
                    v = m[3]
                    ch = place_chain(pl)[len(place_chain(m[2])):]
                    ok = True
                    for c in ch:
                        if c[0] == "field":
                            v = mk_proj(v, c[2])
                        elif c[0] == "down":
                            v = _mk_down_pl(v, c)
                        else:
                            ok = False
                            break
                    if ok:
                        return v
                    break
                if places_disjoint(m[2], pl):
                    m = m[1]
                    continue
                break
            if m[0] == "after" and len(m) > 3 and m[3] is not None:
                # frame rule: a callee can only write what it can reach through its arguments
                if all(places_disjoint(f, pl) for f in m[3]):
                    m = m[1]
                    continue
                break
            if m[0] == "mphi" and len(m) > 3 and m[3] is not None:
                if all(places_disjoint(f, pl) for f in m[3]):
                    m = m[2]
                    continue
                break
            break
        return ("load", m, pl)

    def write_pl(self, st, pl, val, bb=None, idx=None, record=True):
        if place_is_local(pl):
            ch = place_chain(pl)
            root = ch[0][1]
            if len(ch) == 1:
                st.env[root] = val
            else:
                st.env[root] = self._update(self.read_local(st, root), ch[1:], val)
        else:
            before = (st.facts, st.mem, st.path)
            st.mem = ("store", st.mem, pl, val)
            if record:
                st.add_event(Event("store", bb, idx, place=pl, val=val, state=before, extra={"in": self.body.path if self.parent is not None else None}))

    def _update(self, base, chain, val):
        c = chain[0]
        if len(chain) == 1:
            newv = val
        else:
            if c[0] == "field":
                inner = mk_proj(base, c[2])
            elif c[0] == "down":
                inner = mk_down(base, c[2])
            else:
                inner = (c[0], base) + tuple(c[2:])
            newv = self._update(inner, chain[1:], val)
        if c[0] == "field":
            return mk_with(base, c[2], newv)
        if c[0] == "down":
            return newv
        if c[0] == "index":
            return ("upd", base, c[2], newv)
        return ("upd", base, c[0], newv)

    def place_term(self, st, p):
        cur = ("local", p["l"])
        for e in p["p"]:
            k = e[0]
            if k == "deref":
                v = self.read_pl(st, cur)
                if v[0] == "ref":
                    cur = v[1]
                else:
                    cur = ("deref", v)
            elif k == "field":
                cur = ("field", cur, e[1])
                if e[2] is not None:
                    FNAMES[cur] = e[2]
            elif k == "index":
                ix = self.read_local(st, e[1])
                if cur[0] == "slicefrom":
                    cur = ("index", cur[1], mk_bin("Add", cur[2], ix))
                else:
                    cur = ("index", cur, ix)
            elif k == "downcast":
                cur = ("down", cur, e[1])
                _note_down(cur, e)
            elif k == "cidx":
                if not e[3]:
                    if cur[0] == "slicefrom":
                        cur = ("index", cur[1], mk_bin("Add", cur[2], mk_int(e[1])))
                    else:
                        cur = ("index", cur, mk_int(e[1]))
                else:
                    cur = ("cidx", cur, e[1], e[2], e[3])
            elif k == "subslice":
                cur = ("subslice", cur, e[1], e[2], e[3])
            else:
                cur = (k, cur)
        return cur

    def const_term(self, o):
        if "fn" in o:
            fn = o["fn"]
            return ("fnitem", fn["def"], fn.get("path"), tuple(fn.get("args", ())))
        if "deref_val" in o:
            return ("ref", ("constval", mk_int(o["deref_val"])))
        if "val" in o:
            v = o["val"]
            if isinstance(v, str):
                v = int(v)
            if o.get("ty") in ("f32", "f64"):
                return ("fconst", _float_of_bits(v, o["ty"]), o["ty"])
            t = mk_int(v)
            return t
        if "param" in o:
            t = ("gparam", o["param"])
            self.tys[t] = o["ty"]
            return t
        if "uneval" in o and o["uneval"].get("promoted") is not None and o["ty"].startswith("&"):
            pr = self.body.j.get("promoted") or []
            n = o["uneval"]["promoted"]
            if n < len(pr):
                v_ = _promoted_value(pr[n], o["ty"])
                if v_ is not None:
                    return v_
        if "uneval" in o:
            u = o["uneval"]
            v_ = self._const_body_value(u)
            if v_ is not None:
                return v_
            t = ("assoc", u.get("trait") or u["path"], u.get("assoc_name"), tuple(u["args"]), u.get("promoted"))
            self.tys[t] = o["ty"]
            return t
        if o["ty"] == "()":
            return UNIT
        if "static" in o:
            return ("ref", ("static", o["static"]))
        return ("cst", o["text"], o["ty"])

    def _const_body_value(self, u):
        """value of a (generic) constant item of the program from its own body, when the body is one
        straight path of pure arithmetic over literals and the item's own generic parameters"""
        if u.get("promoted") is not None or u.get("trait") or not u.get("def"):
            return None
        import re

        if not all(re.match(r"^[A-Z]\w*$", str(a)) for a in u.get("args", ())):
            return None  # instantiated with concrete arguments: no substitution attempted
        crate = self.body.crate
        cb = crate.by_key.get(u["def"])
        if cb is None:
            prog = getattr(crate, "program", None)
            cb = prog.by_key.get(u["def"]) if prog is not None else None
        if cb is None or "Const" not in str(cb.kind) or cb.key == self.body.key:
            return None
        memo = crate.__dict__.setdefault("_const_values", {})
        if cb.key not in memo:
            memo[cb.key] = None
            try:
                I = Interp(cb, self.program).run()
                if len(I.final_states) == 1:
                    r = I.final_states[0].env.get(0)
                    if r is not None and r[0] in ("int", "bin", "un", "cast", "gparam") and not mentions(r, lambda s_: s_[0] in ("local", "param", "call", "load", "mem", "after", "ref", "agg")):
                        memo[cb.key] = r
            except Exception:  # noqa: BLE001
                memo[cb.key] = None
        return memo[cb.key]

    def operand(self, st, o):
        k = o["k"]
        if k in ("copy", "move"):
            pl = self.place_term(st, o["place"])
            v = self.read_pl(st, pl)
            if self.record_index_reads and not place_is_local(pl):
                for c in place_chain(pl):
                    if c[0] == "index":
                        st.add_event(Event("idxread", self._cur_bb, place=c, val=c[2], state=(st.facts, st.mem, st.path), extra={"in": self.body.path if self.parent is not None else None}))
            ty = o["place"].get("ty")
            if ty and isinstance(v, tuple) and v not in self.tys:
                self.tys[v] = ty
            return v
        if k == "const":
            t = self.const_term(o)
            if t not in self.tys:
                self.tys[t] = o["ty"]
            return t
        return ("opaque", str(o))

    def rvalue(self, st, rv, bb, idx):
        k = rv["k"]
        if k == "use":
            return self.operand(st, rv["op"])
        if k in ("ref", "rawptr"):
            pl = self.place_term(st, rv["place"])
            if self.record_index_reads and not place_is_local(pl) and rv.get("bk") != "fake":
                for c in place_chain(pl):
                    if c[0] == "index":
                        st.add_event(Event("idxread", bb, place=c, val=c[2], state=(st.facts, st.mem, st.path)))
            return ("ref", pl)
        if k == "copy_for_deref":
            return self.read_pl(st, self.place_term(st, rv["place"]))
        if k == "bin":
            a = self.operand(st, rv["a"])
            b = self.operand(st, rv["b"])
            op = rv["op"]
            ty = rv.get("opty", "")
            if ty in ("f32", "f64") and op in CMP_FOLD:
                return ("fcmp", op, a, b)
            if ty in ("f32", "f64"):
                return ("fbin", op, a, b)
            r = mk_bin(op, a, b, ty)
            if ty and isinstance(r, tuple) and r and r[0] == "bin" and r not in self.tys and op not in CMP_FOLD:
                self.tys[r] = ty
            return r
        if k == "un":
            a = self.operand(st, rv["a"])
            if rv["op"] == "Not" and rv.get("opty") == "bool":
                return mk_not(a)
            if rv["op"] == "PtrMetadata":
                # slice length of a reference
                if a[0] == "ref" and a[1] in self.array_len:
                    return mk_int(self.array_len[a[1]])
                if a[0] == "ref":
                    return ("len", self.read_pl(st, a[1]))
                return ("len", a)
            if rv["op"] == "Neg" and is_int(a):
                return mk_int(-a[1])
            return ("un", rv["op"], a)
        if k == "cast":
            a = self.operand(st, rv["op"])
            ck = rv["ck"]
            if ck.startswith("PointerCoercion") or ck in ("PtrToPtr",):
                m_ = _ARR_RE.match(rv.get("from") or "")
                if m_ and isinstance(a, tuple) and a and a[0] == "ref":
                    self.array_len[a[1]] = int(m_.group(1))
                return a  # unsizing and pointer casts keep the referent
            if is_int(a) and ck == "IntToInt":
                return _wrap_int(a[1], rv["ty"])
            if ck == "Transmute" and (rv.get("from") or "").startswith(("std::ptr::NonNull<", "core::ptr::NonNull<")):
                # Box<T> deref as elaborated by MIR: ((b.0: Unique).0: NonNull) as *const T
                if a[0] == "proj" and a[1] == 0 and a[2][0] == "proj" and a[2][1] == 0:
                    return ("boxptr", a[2][2])
            return ("cast", ck, rv["ty"], a, rv.get("from"))
        if k == "discr":
            d = mk_discr(self.read_pl(st, self.place_term(st, rv["place"])))
            if rv.get("variants"):
                self.discr_names[d] = {int(v): n for v, n in rv["variants"]}
            return d
        if k == "agg":
            ak = rv["ak"]
            ops = tuple(self.operand(st, o) for o in rv["ops"])
            if ak["k"] == "adt":
                if ak.get("union_field") is not None:
                    return ("union", ak["path"], ak["union_field"], ops)
                # eta: rebuilding a variant from all the fields of the same variant of X is X itself
                # (Some(b) where b was bound by `Some(b)` matching X)
                if ops and all(isinstance(o, tuple) and len(o) == 3 and o[0] == "proj" and o[1] == i and isinstance(o[2], tuple) and o[2][0] == "down" and o[2][2] == ak["variant"] for i, o in enumerate(ops)) and len({o[2] for o in ops}) == 1 and len(ops) == len(ak["fields"]) and _down_adt_ok(ops[0][2], ak["path"]):
                    return ops[0][2][1]
                return ("agg", ("adt", ak["path"], ak["variant"], ak["variant_name"], tuple(ak["fields"])), ops)
            if ak["k"] == "closure":
                cb = self.body.crate.by_key.get(ak["def"])
                sig = effects.canon(cb) if cb is not None else ak["def"]
                return ("agg", ("closure", ak["def"], sig), ops)
            return ("agg", ak["k"], ops)
        if k == "repeat":
            return ("repeat", self.operand(st, rv["op"]), rv["n"])
        if k == "tlref":
            return ("ref", ("static", rv["def"]))
        return ("opaque", rv.get("text", k), bb, idx)

    # ---- calls ---------------------------------------------------------------------------------
    def is_pure(self, fn):
        if "indirect" in fn:
            return False
        if self.extra_pure(fn):
            return True
        p = fn.get("path") or ""
        rp = (fn.get("resolved") or {}).get("path") or ""
        nm = fn.get("name")
        tr = fn.get("trait") or ""
        if tr in PURE_TRAITS and nm in PURE_TRAITS[tr]:
            return True
        for q in (p, rp):
            if q in PURE_FNS:
                return True
            for pre in PURE_PREFIXES:
                if q.startswith(pre):
                    return True
        return False

    _REF_BLANKET = _re.compile(r"^std::cmp::impls::<impl std::cmp::(PartialOrd|PartialEq)<&(mut )?B> for &(mut )?A>::(\w+)$")

    def _through_ref_blanket(self, st, t):
        """`a <= b` on references goes through std's `impl PartialOrd<&B> for &A`, which forwards to the
        referents' impl: when that impl is a body of the program, the call is presented as the direct
        call `<A as PartialOrd<B>>::le(*a, *b)` (same event, same facts as the method-call spelling)"""
        fn = t["fn"]
        res = fn.get("resolved") or {}
        m = self._REF_BLANKET.match(res.get("path") or "")
        if not m or len(t["args"]) != 2:
            return None
        inner = [str(x) for x in (fn.get("args") or [])]
        if len(inner) != 2 or not all(x.startswith("&") for x in inner):
            return None
        a_ty, b_ty = (x[1:].lstrip() for x in inner)
        a_ty = a_ty[4:] if a_ty.startswith("mut ") else a_ty
        b_ty = b_ty[4:] if b_ty.startswith("mut ") else b_ty
        crate = self.body.crate
        prog = getattr(crate, "program", None)
        target = None
        for c in (prog.crates.values() if prog is not None else [crate]):
            for b in c.bodies:
                if b.name != fn.get("name") or b.is_closure:
                    continue
                imp = c.impl_of(b)
                if imp is not None and imp.get("trait") == fn.get("trait") and imp.get("self_ty") == a_ty and not imp.get("derived"):
                    ta = [str(x) for x in (imp.get("trait_args") or [])]
                    if not ta or ta[-1] == b_ty or len(ta) == 1:
                        target = b
        if target is None:
            return None
        ops = []
        for o in t["args"]:
            v = self.operand(st.fork(), o)
            if not (isinstance(v, tuple) and v and v[0] == "ref" and v[1][0] == "local" and len(v[1]) == 2):
                return None
            n = v[1][1]
            ops.append({"k": "copy", "place": {"l": n, "p": [], "ty": self.body.locals[n]["ty"]}})
        nfn = dict(fn)
        nfn["args"] = [a_ty, b_ty]
        nfn["self_ty"] = a_ty
        nfn["resolved"] = {"def": target.key, "path": target.path, "krate": target.crate.name, "local": True, "kind": "item", "args": [], "is_closure": False}
        nt = dict(t)
        nt["fn"] = nfn
        nt["args"] = ops
        return nt

    def call(self, st, t, bb):
        t = self._through_ref_blanket(st, t) or t
        fn = t["fn"]
        args = tuple(self.operand(st, a) for a in t["args"])
        gpath, rpath, trait, name = fn_names(fn)
        key = rpath or gpath
        uid = self.uid(bb)
        res = None
        handled = False
        mem_before = st.mem
        argtys0 = [effects._op_ty(self.body, a) for a in t["args"]]
        argvals = tuple(self.read_pl(st, a[1]) if (isinstance(a, tuple) and a and a[0] == "ref" and place_is_local(a[1])) else None for a in args)
        comb = None
        if "comb" in self.features:
            comb = COMBINATORS.get(key) or COMBINATORS.get(gpath)
        if comb is None and "fncall" in self.features and trait:
            comb = COMBINATORS.get((trait, name))
        if comb is None and trait:
            comb = ALWAYS_COMB.get((trait, name))   # (`?` on an Option is a plain case split, whatever the features)
        if comb is None:
            comb = ALWAYS_COMB.get(key) or ALWAYS_COMB.get(gpath)
        if comb is not None and key not in self.extra_axioms and gpath not in self.extra_axioms and t["target"] is not None and len(self.uid_prefix) < 3:
            outs = comb(self, st, t, bb, fn, args, key, argtys0)
            if outs is not None:
                return outs
        ax = self.extra_axioms.get(key) or self.extra_axioms.get(gpath) or AXIOMS.get(key) or AXIOMS.get(gpath)
        if ax is None and trait:
            ax = self.extra_axioms.get((trait, name)) or AXIOMS.get((trait, name))
        if ax is None and trait and "opassign" in self.features and trait.split("::")[-1] in _OP_ASSIGN:
            ax = ax_generic_op_assign
        if ax is not None:
            r = ax(self, st, fn, args, bb)
            if r is not NotImplemented:
                res = r
                handled = True
        pure = handled or self.is_pure(fn)
        if not handled and not pure:
            argtys = [effects._op_ty(self.body, a) for a in t["args"]]
            prog = getattr(self.body.crate, "program", None)
            pure = effects.call_is_pure(fn, argtys, prog)
            if pure:
                # higher-order std helpers are only as pure as the closures handed to them
                for a in args:
                    for s_ in subterms(a):
                        if s_[0] == "agg" and isinstance(s_[1], tuple) and s_[1] and s_[1][0] == "closure":
                            cb = self.body.crate.by_key.get(s_[1][1])
                            if cb is None or not effects.purity(cb, prog):
                                pure = False
        if not handled:
            if pure:
                res = self.pure_term(st, key, args)
            else:
                # the result of an impure call is identified by its uid; its argument list is kept for slicing: shared
                # references to caller locals are shown as references to the values they see at the call
                targs = tuple(self._ref_values(st, a) if (argtys0[i] if i < len(argtys0) else "").startswith("&") and not (argtys0[i] if i < len(argtys0) else "").startswith("&mut") else a for i, a in enumerate(args))
                res = ("call", key, targs, uid)
        ev = Event("call", bb, callee=key, fn=fn, args=args, res=res, state=(st.facts, mem_before, st.path), extra={"pure": pure, "handled": handled, "dest": t["dest"], "name": name, "trait": trait, "gpath": gpath, "argvals": argvals, "argtys": argtys0, "in": self.body.path if self.parent is not None else None, "uid": uid})
        st.add_event(ev)
        tdef = (fn.get("resolved") or fn).get("def") if "indirect" not in fn else None
        if not handled and tdef in self.inline and t["target"] is not None:
            callee = self.body.crate.by_key.get(tdef)
            if callee is None:
                prog = getattr(self.body.crate, "program", None)
                callee = prog.by_key.get(tdef) if prog is not None else None
            if callee is not None and len(self.uid_prefix) < self._max_depth():
                # a shared reference to a caller local is passed as a reference to its current value
                # (the callee cannot write through it); &mut references to caller locals are not inlined
                iargs = tuple(self._ref_values(st, a) if (argtys0[i] if i < len(argtys0) else "").startswith("&") and not (argtys0[i] if i < len(argtys0) else "").startswith("&mut") else self._share_captures(st, a) for i, a in enumerate(args))
                cells = []
                if "mutlocal" in self.features:
                    # `helper(&mut local)`: the local is copied into a fresh memory cell for the duration of the call
                    # and copied back afterwards (the callee's frame has its own locals)
                    ia = list(iargs)
                    for i, a in enumerate(ia):
                        if (argtys0[i] if i < len(argtys0) else "").startswith("&mut") and isinstance(a, tuple) and a and a[0] == "ref" and place_is_local(a[1]):
                            cell = ("cell", uid, i)
                            cells.append((cell, a[1]))
                            ia[i] = ("ref", cell)
                    iargs = tuple(ia)
                if not any(_exposes_local(a) for a in iargs):
                    return self._inline(st, t, bb, callee, iargs, ev, cells)
        if not pure:
            # memory and by-&mut locals may change
            argtys = [effects._op_ty(self.body, a) for a in t["args"]]
            st.mem = ("after", st.mem, uid, self.frame_of(args, argtys))
            for a, ao in zip(args, t["args"]):
                self._havoc_mut_refs(st, a, uid, 0)
        dest = self.place_term(st, t["dest"])
        self.write_pl(st, dest, res, bb, None, record=not place_is_local(dest))
        ty = t["dest"].get("ty")
        if ty and res not in self.tys:
            self.tys[res] = ty
        h = self.hooks.get("post_call")
        if h is not None:
            h(self, st, fn, args, bb, res, ev)
        return [st]

    def pure_term(self, st, key, args):
        """the term of a pure call: a function of its arguments and of the memory they can reach"""
        # closures are compared by their canonical signature, not by identity
        cargs = tuple(_canon_closures(self._ref_values(st, a)) for a in args)
        places = [s_[1] for a in args for s_ in subterms(a) if s_[0] in ("ref", "optref")]
        reads_mem = bool(places) or any(mentions(a, lambda s: s[0] in ("load", "deref")) for a in args)
        if not reads_mem:
            return ("call", key, cargs, None)
        return ("call", key, cargs + (("mem", self.reduce_mem(st.mem, places)),), None)

    def _apply_closure(self, st, bb, clos, cargs):
        """run a closure value on argument terms in the caller's state: [(state, result)] or None when the
        closure cannot be followed (not a closure aggregate of this crate, captures caller locals by &mut)"""
        fnitem = isinstance(clos, tuple) and clos and clos[0] == "fnitem" and clos[1] in self.inline
        if not fnitem and not (isinstance(clos, tuple) and clos and clos[0] == "agg" and isinstance(clos[1], tuple) and clos[1] and clos[1][0] == "closure"):
            return None
        cb = self.body.crate.by_key.get(clos[1] if fnitem else clos[1][1])
        if cb is None or len(self.uid_prefix) >= self._max_depth():
            return None
        cv = self._share_captures(st, clos)
        cargs = tuple(self._ref_values(st, a) for a in cargs)
        if any(_exposes_local(a) for a in (cv,) + cargs):
            return None
        if fnitem:
            # a function of the inline set passed by name (`opt.map(Node::leftmost)`): its body on the arguments
            env = {i + 1: a for i, a in enumerate(cargs)}
        else:
            envty = str(cb.locals[1]["ty"]) if len(cb.locals) > 1 else ""
            env = {1: ("ref", ("constval", cv)) if envty.startswith("&") else cv}
            for i, a in enumerate(cargs):
                env[i + 2] = a
        root = self
        while root.parent is not None:
            root = root.parent
        sub = Interp(cb, self.program, axioms=self.extra_axioms, pure=self.extra_pure, inline=self.inline, hooks=self.hooks, uid_prefix=self.uid_prefix + (bb,), parent=self, param_names=None, features=self.features)
        sub.tys = self.tys
        sub.record_index_reads = self.record_index_reads
        st0 = State(env, st.mem, st.facts, st.events, st.path, ())
        st0.nevents = st.nevents
        sub.run(st0)
        root.nstates += sub.nstates
        if root.nstates > self.MAX_STATES:
            raise Budget("%s: more than %d abstract states (with closure inlining)" % (root.body.path, self.MAX_STATES))
        if sub.unsupported:
            return None
        outs = []
        for fs in sub.final_states:
            ns = st.fork()
            ns.mem, ns.facts, ns.events, ns.nevents = fs.mem, fs.facts, fs.events, fs.nevents
            outs.append((ns, fs.env.get(0, UNIT)))
        for ds in sub.diverged:
            self.diverged.append(ds)
        for hd_, l in sub.backedge_states.items():
            self.inl_back.extend(l)
            self.inl_back_groups.append((sub.uid(hd_), list(l)))
        self.inl_back.extend(sub.inl_back)
        self.inl_back_groups.extend(sub.inl_back_groups)
        return outs

    def _finish_comb(self, t, bb, outs):
        """write each (state, result) to the call's destination"""
        res = []
        for ns, r in outs:
            dest = self.place_term(ns, t["dest"])
            self.write_pl(ns, dest, r, bb, None, record=not place_is_local(dest))
            res.append(ns)
        return res

    def _split_on(self, st, d, v):
        """the state refined by d == v, or None when infeasible"""
        if is_int(d):
            return st.fork() if d[1] == v else None
        f = ("eq", d, v)
        if self._contradicts(st.facts, f):
            return None
        ns = st.fork()
        ns.add_fact(f)
        return ns

    def _inline(self, st, t, bb, callee, args, ev, cells=()):
        if cells:
            st = st.fork()
            for cell, pl in cells:
                self.write_pl(st, cell, self.read_pl(st, pl), bb, None, record=False)
        root = self
        while root.parent is not None:
            root = root.parent
        sub = Interp(callee, self.program, axioms=self.extra_axioms, pure=self.extra_pure, inline=self.inline, hooks=self.hooks, uid_prefix=self.uid_prefix + (bb,), parent=self, features=self.features)
        sub.tys = self.tys
        sub.record_index_reads = self.record_index_reads
        env = {}
        for i, a in enumerate(args):
            env[i + 1] = a
        st0 = State(env, st.mem, st.facts, st.events, st.path, ())
        st0.nevents = st.nevents
        sub.run(st0)
        root.nstates += sub.nstates
        if root.nstates > self.MAX_STATES:
            raise Budget("%s: more than %d abstract states (with inlining)" % (root.body.path, self.MAX_STATES))
        ev.extra["inlined"] = True
        outs = []
        for fs in sub.final_states:
            ns = st.fork()
            ns.mem, ns.facts, ns.events, ns.nevents = fs.mem, fs.facts, fs.events, fs.nevents
            for cell, pl in cells:
                self.write_pl(ns, pl, self.load(ns.mem, cell), bb, None, record=False)
            res = fs.env.get(0, UNIT)
            dest = self.place_term(ns, t["dest"])
            self.write_pl(ns, dest, res, bb, None, record=not place_is_local(dest))
            outs.append(ns)
        for ds in sub.diverged:
            self.diverged.append(ds)
        for hd_, l in sub.backedge_states.items():
            self.inl_back.extend(l)
            self.inl_back_groups.append((sub.uid(hd_), list(l)))
        self.inl_back.extend(sub.inl_back)
        self.inl_back_groups.extend(sub.inl_back_groups)
        self.inlined_subs = getattr(self, "inlined_subs", [])
        self.inlined_subs.append(sub)
        return outs

    def _max_depth(self):
        """nesting bound of helper / closure inlining (a guard against blow-up; "deep" for straight-line numeric code)"""
        return 7 if "deep" in self.features else 3

    def _share_captures(self, st, a):
        """a closure value whose captures by shared reference of caller locals are replaced by references to the
        locals' current values (the closure cannot write through them); captures by &mut stay as they are"""
        if not (isinstance(a, tuple) and a and a[0] == "agg" and isinstance(a[1], tuple) and a[1] and a[1][0] == "closure"):
            return a
        cb = self.body.crate.by_key.get(a[1][1])
        ut = cb.upvar_types() if cb is not None else {}
        comps = tuple(self._ref_values(st, c) if str(ut.get(k) or "").startswith("&") and not str(ut.get(k) or "").startswith("&mut") else c for k, c in enumerate(a[2]))
        return ("agg", a[1], comps)

    def _ref_values(self, st, a):
        """references to locals are replaced by references to their current value (for term identity)"""
        if isinstance(a, tuple) and a and a[0] == "ref" and place_is_local(a[1]):
            return ("ref", ("constval", self.read_pl(st, a[1])))
        if isinstance(a, tuple) and a and a[0] == "agg":
            return ("agg", a[1], tuple(self._ref_values(st, x) for x in a[2]))
        return a

    def reduce_mem(self, mem, places):
        """drop the most recent stores that cannot be seen through `places` (ownership axiom:
        what is reachable from one field of an object is disjoint from its other fields)"""
        m = mem
        while m[0] == "store" and places and all(places_disjoint(m[2], p) for p in places):
            m = m[1]
        return m

    def _havoc_mut_refs(self, st, a, uid, depth):
        if not isinstance(a, tuple) or depth > 4:
            return
        if a[0] == "ref":
            pl = a[1]
            if place_is_local(pl):
                root = place_root(pl)[1]
                if root in self.addr_taken_mut:
                    st.env[root] = ("out", uid, root)
            return
        if a[0] == "agg":
            for x in a[2]:
                self._havoc_mut_refs(st, x, uid, depth + 1)

    # ---- driver --------------------------------------------------------------------------------
    def run(self, st0=None):
        if st0 is None:
            st0 = self.initial_state()
            if self.assume is not None:
                self.assume(self, st0)
        work = [(0, st0)]
        while work:
            bb, st = work.pop()
            self.nstates += 1
            if self.nstates > self.MAX_STATES:
                raise Budget("%s: more than %d abstract states" % (self.body.path, self.MAX_STATES))
            # loop bookkeeping
            if st.active:
                act = tuple(h for h in st.active if bb in self.loops[h])
                st.active = act
            if bb in self.loops:
                if bb in st.active:
                    self.backedge_states.setdefault(bb, []).append(st)
                    continue
                locs, mem = self.loop_mod[bb]
                self.loop_entry.setdefault(bb, []).append(dict(st.env))
                frame = self._loop_frame(bb, st) if mem else None
                for l in locs:
                    if l in st.env:
                        if st.env[l][0] == "rangeiter":
                            continue  # abstract value "somewhere in [start, end)" is loop invariant
                        t = ("phi", self.uid(bb), l)
                        ty = self.body.locals[l]["ty"]
                        self.tys[t] = ty
                        st.env[l] = t
                if mem:
                    st.mem = ("mphi", self.uid(bb), st.mem, frame)
                st.active = st.active + (bb,)
                st.add_event(Event("loop", bb, extra={"in": self.body.path if self.parent is not None else None}))
                h = self.hooks.get("loop_head")
                if h is not None:
                    h(self, st, bb)
            lst = self.block_states.setdefault(bb, [])
            if len(lst) >= self.MAX_PER_BLOCK:
                raise Budget("%s: more than %d states at bb%d" % (self.body.path, self.MAX_PER_BLOCK, bb))
            entry = st.fork()
            lst.append(entry)
            st.path = (st.path, bb)
            for nb, ns in self.step_block(bb, st):
                work.append((nb, ns))
        return self

    def exec_stmts(self, bb, st, upto=None):
        """execute statements of bb on st (mutating), up to index `upto` (exclusive)"""
        blk = self.body.blocks[bb]
        for idx, s in enumerate(blk["stmts"]):
            if upto is not None and idx >= upto:
                break
            if s["k"] == "assign":
                v = self.rvalue(st, s["rv"], bb, idx)
                pl = self.place_term(st, s["place"])
                ty = s["place"].get("ty")
                if ty and isinstance(v, tuple) and v not in self.tys:
                    self.tys[v] = ty
                self.write_pl(st, pl, v, bb, idx)
            elif s["k"] == "set_discr":
                pl = self.place_term(st, s["place"])
                self.write_pl(st, pl, ("setdiscr", self.read_pl(st, pl), s["variant"]), bb, idx)

    def step_block(self, bb, st):
        self._cur_bb = bb
        self.exec_stmts(bb, st)
        blk = self.body.blocks[bb]
        t = blk["term"]
        k = t["k"]
        if k == "goto":
            return [(t["t"], st)]
        if k == "return":
            st.add_event(Event("return", bb, res=self.read_local(st, 0)))
            self.final_states.append(st)
            return []
        if k == "call":
            outs = self.call(st, t, bb)
            if t["target"] is None:
                self.diverged.extend(outs)
                return []
            return [(t["target"], o) for o in reversed(outs)]
        if k == "drop":
            if "drops" in self.features:
                # (only for analyses that ask: the order destructors run in, each with the value it is run on)
                try:
                    pl_ = self.place_term(st, t["place"])
                    st.add_event(Event("drop", bb, place=pl_, val=self.read_pl(st, pl_)))
                except Exception:  # noqa: BLE001
                    st.add_event(Event("drop", bb))
            return [(t["target"], st)]
        if k == "assert":
            c = self.operand(st, t["cond"])
            want = 1 if t["expected"] else 0
            if is_int(c):
                if (1 if c[1] else 0) != want:
                    self.diverged.append(st)
                    return []
                return [(t["target"], st)]
            f = ("eq", c, want)
            if self._contradicts(st.facts, f):
                return []
            st.add_fact(f)
            st.add_event(Event("assert", bb, val=c, extra=t["msg"]))
            return [(t["target"], st)]
        if k == "switch":
            d = self.operand(st, t["op"])
            vals = [int(v) if isinstance(v, str) else v for v in t["vals"]]
            if is_int(d):
                for v, tg in zip(vals, t["targets"]):
                    if v == d[1]:
                        return [(tg, st)]
                return [(t["otherwise"], st)]
            out = []
            isbool = t.get("opty") == "bool"
            for v, tg in zip(vals, t["targets"]):
                f = ("eq", d, v)
                if self._contradicts(st.facts, f):
                    continue
                ns = st.fork()
                ns.add_fact(f)
                out.append((tg, ns))
            # otherwise edge
            if self.body.blocks[t["otherwise"]]["term"]["k"] != "unreachable" or self.body.blocks[t["otherwise"]]["stmts"]:
                if isbool and len(vals) == 1:
                    fs = [("eq", d, 1 - vals[0])]
                else:
                    fs = [("ne", d, v) for v in vals]
                # a discriminant takes one of its type's variant values: the otherwise edge of a match that has already
                # ruled every variant out (`(left, Some(x))` after `(None, _)` and `(Some(_), _)`) is not a path
                names_ = self.discr_names.get(d) if isinstance(d, tuple) else None
                ruled = set(vals) | {x[2] for x in st.facts if x[0] == "ne" and x[1] == d}
                exhausted = bool(names_) and not isbool and set(names_) <= ruled
                if not exhausted and not any(self._contradicts(st.facts, f) for f in fs):
                    ns = st.fork()
                    for f in fs:
                        ns.add_fact(f)
                    out.append((t["otherwise"], ns))
            out.reverse()
            return out
        if k == "asm":
            ins = []
            for o in t["operands"]:
                if "op" in o:
                    ins.append(self.operand(st, o["op"]))
            st.add_event(Event("asm", bb, args=tuple(ins), extra=t))
            st.mem = ("after", st.mem, self.uid(bb), None)
            for n, o in enumerate(t["operands"]):
                if o.get("place"):
                    pl = self.place_term(st, o["place"])
                    self.write_pl(st, pl, ("asmout", bb, n), bb, None)
            return [(x, st) for x in t["targets"]]
        if k in ("unreachable", "resume", "terminate"):
            self.diverged.append(st)
            return []
        self.unsupported.append((bb, k))
        return []

    @staticmethod
    def _contradicts(facts, f):
        kind, t, v = f
        while kind in ("eq", "ne") and isinstance(t, tuple) and t and t[0] == "un" and t[1] == "Not" and v in (0, 1):
            t, v = t[2], 1 - v
        facts = [x for x in facts if x[0] in ("eq", "ne")]
        if kind == "eq":
            for (k2, t2, v2) in facts:
                if t2 == t:
                    if k2 == "eq" and v2 != v:
                        return True
                    if k2 == "ne" and v2 == v:
                        return True
        else:
            if ("eq", t, v) in facts:
                return True
        # a comparison and its negation
        if kind == "eq" and isinstance(t, tuple) and t[0] == "bin" and t[1] in NEG_CMP:
            neg = ("bin", NEG_CMP[t[1]], t[2], t[3])
            if ("eq", neg, v) in facts:
                return True
        return False

    # ---- helpers for rules -----------------------------------------------------------------------
    def states_before(self, bb, idx=None):
        """yield fresh states positioned just before statement idx (None = terminator) of bb"""
        n = len(self.body.blocks[bb]["stmts"])
        for e in self.block_states.get(bb, []):
            st = e.fork()
            self.exec_stmts(bb, st, upto=n if idx is None else idx)
            yield st

    def call_events(self, pred=None):
        """all (final-or-diverged state, event) pairs for call events; deduplicated per (bb, args)"""
        seen = set()
        for st in self.final_states + self.diverged + [s for l in self.backedge_states.values() for s in l]:
            for ev in st.event_list():
                if ev.kind != "call":
                    continue
                if pred and not pred(ev):
                    continue
                k = (ev.bb, ev.args, ev.state[0])
                if k in seen:
                    continue
                seen.add(k)
                yield st, ev

    def all_end_states(self):
        return self.final_states + [s for l in self.backedge_states.values() for s in l] + self.inl_back


def strip_mem(t):
    """the same term with memory versions erased (node identity across impure calls)"""
    if not isinstance(t, tuple) or not t:
        return t
    if t[0] == "load":
        return ("load", None, strip_mem(t[2]))
    if t[0] == "int":
        return t
    return tuple(strip_mem(x) if isinstance(x, tuple) else x for x in t)


def _canon_closures(t):
    if not isinstance(t, tuple) or not t:
        return t
    if t[0] == "agg" and isinstance(t[1], tuple) and t[1] and t[1][0] == "closure":
        return ("agg", ("closure", None, t[1][2]), tuple(_canon_closures(x) for x in t[2]))
    if t[0] == "int":
        return t
    return tuple(_canon_closures(x) if isinstance(x, tuple) else x for x in t)


def _wrap_int(v, ty):
    bits = {"u8": 8, "u16": 16, "u32": 32, "u64": 64, "u128": 128, "usize": 64, "i8": 8, "i16": 16, "i32": 32, "i64": 64, "i128": 128, "isize": 64}.get(ty)
    if bits is None:
        return mk_int(v)
    m = v & ((1 << bits) - 1)
    if ty.startswith("i") and m >= (1 << (bits - 1)):
        m -= 1 << bits
    return mk_int(m)


# ---- std axioms ------------------------------------------------------------------------------------
# Each axiom: f(interp, state, fn, args, bb) -> result term (and may update the state), or NotImplemented.


def _ref_place(a):
    if isinstance(a, tuple) and a[0] == "ref":
        return a[1]
    if isinstance(a, tuple):
        return ("deref", a)
    return None


def ax_index(I, st, fn, args, bb):
    base, idx = args[0], args[1]
    pl = _ref_place(base)
    if pl is None:
        return NotImplemented
    ity = (fn.get("args") or ["", ""])[-1]
    if ity in ("usize",) or is_int(idx) or I.tys.get(idx) == "usize":
        if pl[0] == "slicefrom":
            return ("ref", ("index", pl[1], mk_bin("Add", pl[2], idx)))
        return ("ref", ("index", pl, idx))
    return ("ref", ("range", pl, idx))


def mk_slicefrom(pl, off):
    if pl[0] == "slicefrom":
        return mk_slicefrom(pl[1], mk_bin("Add", pl[2], off))
    if off == mk_int(0):
        return pl
    return ("slicefrom", pl, off)


def ax_split_at(I, st, fn, args, bb):
    pl = _ref_place(args[0])
    if pl is None:
        return NotImplemented
    return ("agg", "tuple", (("ref", mk_slicefrom(pl, mk_int(0))), ("ref", mk_slicefrom(pl, args[1]))))


def ax_deref(I, st, fn, args, bb):
    # Vec<T> -> [T], String -> str, Box<T> -> T: same storage in this model
    a = args[0]
    if a[0] == "ref":
        sty = fn.get("self_ty") or (fn.get("args") or [""])[0]
        if sty.startswith(("std::vec::Vec<", "alloc::vec::Vec<", "std::string::String", "std::boxed::Box<", "alloc::boxed::Box<")):
            if sty.startswith(("std::boxed::Box<", "alloc::boxed::Box<")):
                return ("ref", ("deref", I.read_pl(st, a[1])))
            return a
    return NotImplemented


def ax_swap(I, st, fn, args, bb):
    pa, pb = _ref_place(args[0]), _ref_place(args[1])
    va, vb = I.read_pl(st, pa), I.read_pl(st, pb)
    I.write_pl(st, pa, vb, bb, None)
    I.write_pl(st, pb, va, bb, None)
    return UNIT


def ax_replace(I, st, fn, args, bb):
    pa = _ref_place(args[0])
    va = I.read_pl(st, pa)
    I.write_pl(st, pa, args[1], bb, None)
    return va


def ax_mem_take(I, st, fn, args, bb):
    """std::mem::take(&mut x): returns the old value, leaves Default::default()"""
    pa = _ref_place(args[0])
    va = I.read_pl(st, pa)
    targs = (fn.get("resolved") or fn).get("args") or fn.get("args") or []
    dflt = mk_int(0) if targs and str(targs[0]) == "bool" else ("call", "std::default::Default::default", (), None)   # bool::default() is false
    I.write_pl(st, pa, dflt, bb, None)
    return va


def ax_take_option(I, st, fn, args, bb):
    pa = _ref_place(args[0])
    va = I.read_pl(st, pa)
    I.write_pl(st, pa, NONE, bb, None)
    return va


NONE = ("agg", ("adt", "std::option::Option", 0, "None", ()), ())


def mk_some(v):
    return ("agg", ("adt", "std::option::Option", 1, "Some", ("0",)), (v,))


def ax_is_some(I, st, fn, args, bb):
    v = I.read_pl(st, _ref_place(args[0]))
    return mk_bin("Eq", mk_discr(v), mk_int(1))


def ax_is_none(I, st, fn, args, bb):
    v = I.read_pl(st, _ref_place(args[0]))
    return mk_bin("Eq", mk_discr(v), mk_int(0))


def ax_as_ref(I, st, fn, args, bb):
    # Option<T> behind a reference -> Option<&T>: modelled as 'optref' of the place
    pl = _ref_place(args[0])
    return ("optref", pl, mk_discr(I.read_pl(st, pl)))


def ax_unwrap(I, st, fn, args, bb):
    a = args[0]
    if a[0] == "optref":
        return ("ref", ("field", ("down", a[1], 1), 0))
    if a[0] == "agg" and isinstance(a[1], tuple) and a[1][0] == "adt" and a[1][3] == "Some":
        return a[2][0]
    return mk_proj(mk_down(a, 1), 0)


_TRY_FROM_INT = _re.compile(r"^<(\w+) as (?:std|core)::convert::TryFrom<(\w+)>>::try_from$")


def ax_result_unwrap(I, st, fn, args, bb):
    # `T::try_from(x).unwrap()` / `.expect(..)` between primitive integers: the value of x in the type T (the call panics
    # where `x as T` would have wrapped; where it returns, it returns the cast)
    a = args[0]
    if isinstance(a, tuple) and a and a[0] == "call":
        m = _TRY_FROM_INT.match(str(a[1]))
        if m and m.group(1) in INT_TYS and m.group(2) in INT_TYS:
            inner = [y for y in a[2] if not (isinstance(y, tuple) and y and y[0] == "mem")]
            if len(inner) == 1:
                if is_int(inner[0]):
                    return inner[0]
                return ("cast", "IntToInt", m.group(1), inner[0], m.group(2))
    return NotImplemented


def ax_from_int(I, st, fn, args, bb):
    # `i64::from(x)` for a narrower primitive integer: the lossless widening cast
    tys = [str(x) for x in (fn.get("args") or [])]
    if len(tys) == 2 and tys[0] in INT_TYS and tys[1] in INT_TYS and len(args) >= 1:
        if is_int(args[0]):
            return args[0]
        return ("cast", "IntToInt", tys[0], args[0], tys[1])
    return NotImplemented


def ax_clone(I, st, fn, args, bb):
    pl = _ref_place(args[0])
    return I.read_pl(st, pl)


def ax_max(I, st, fn, args, bb):
    return ("max", args[0], args[1])


def ax_min(I, st, fn, args, bb):
    return ("min", args[0], args[1])


def ax_mul_add(I, st, fn, args, bb):
    # a.mul_add(b, c) is a*b + c with one rounding instead of two: the same term for every rule here (none of them
    # reasons about the last bit of a float)
    return ("fbin", "Add", ("fbin", "Mul", args[0], args[1]), args[2])


def ax_len(I, st, fn, args, bb):
    pl = _ref_place(args[0])
    if pl in I.array_len:
        return mk_int(I.array_len[pl])
    return ("len", I.read_pl(st, pl))


def ax_identity(I, st, fn, args, bb):
    return args[0]


def ax_wrapping(op):
    def f(I, st, fn, args, bb):
        return ("wbin", op, args[0], args[1])

    return f


def ax_cmp_trait(op):
    # PartialOrd/PartialEq on references to integers: compare the referents
    def f(I, st, fn, args, bb):
        sty = fn.get("self_ty") or (fn.get("args") or [""])[0]
        base = sty.lstrip("&").replace("mut ", "")
        if base in INT_TYS or base == "bool" or base == "char":
            a = args[0]
            b = args[1]
            va = I.read_pl(st, a[1]) if a[0] == "ref" else ("load", st.mem, ("deref", a))
            vb = I.read_pl(st, b[1]) if b[0] == "ref" else ("load", st.mem, ("deref", b))
            return mk_bin(op, va, vb)
        # == / != on tuples of such values, both operands known component by component: the conjunction of the
        # component equalities (`(l, r) == (vl, vr)`)
        comps = [c_.strip() for c_ in base[1:-1].split(",")] if base.startswith("(") and base.endswith(")") else []
        if op in ("Eq", "Ne") and len(comps) >= 2 and all(c_ in INT_TYS or c_ in ("bool", "char") for c_ in comps):
            vals = []
            for x in args[:2]:
                v = I.read_pl(st, x[1]) if x[0] == "ref" else None
                if not (isinstance(v, tuple) and v and v[0] == "agg" and v[1] == "tuple" and len(v[2]) == len(comps)):
                    return NotImplemented
                vals.append(v[2])
            conj = None
            for x, y in zip(vals[0], vals[1]):
                e_ = mk_bin("Eq", x, y)
                conj = e_ if conj is None else mk_bin("BitAnd", conj, e_)
            return conj if op == "Eq" else ("un", "Not", conj)
        return NotImplemented

    return f


def ax_prim_ref_op(op):
    # `&a >> b`, `a + &b`, `&a & &b` on primitive integers: std's forwarding impls (`impl Shr<usize> for &u64`) compute
    # the operator on the referents.  (By value the operator is a MIR BinaryOp and never gets here.)
    def f(I, st, fn, args, bb):
        tys = [str(x) for x in (fn.get("args") or [])]
        if len(tys) != 2 or len(args) < 2 or not any(x.startswith("&") for x in tys):
            return NotImplemented
        bases = [x.lstrip("&").replace("mut ", "").strip() for x in tys]
        if not all(b_ in INT_TYS for b_ in bases):
            return NotImplemented
        vals = []
        for x, ty in zip(args[:2], tys):
            if ty.startswith("&"):
                vals.append(I.read_pl(st, x[1]) if x[0] == "ref" else ("load", st.mem, ("deref", x)))
            else:
                vals.append(x)
        return mk_bin(op, vals[0], vals[1])

    return f


def _range_of(v):
    """(start, end_exclusive) of a Range / RangeInclusive aggregate term"""
    if v[0] == "agg" and isinstance(v[1], tuple) and v[1][0] == "adt":
        if v[1][1] in ("std::ops::Range", "core::ops::Range") and len(v[2]) == 2:
            return v[2][0], v[2][1]
    if v[0] == "rangeincl":
        return v[1], mk_bin("Add", v[2], mk_int(1))
    return None


def ax_into_iter(I, st, fn, args, bb):
    r = _range_of(args[0])
    if r is not None:
        return ("rangeiter", r[0], r[1], "fwd")
    if args[0][0] == "rangeiter":
        return args[0]
    return NotImplemented


def ax_rev(I, st, fn, args, bb):
    r = _range_of(args[0])
    if r is not None:
        return ("rangeiter", r[0], r[1], "rev")
    if args[0][0] == "rangeiter":
        return ("rangeiter", args[0][1], args[0][2], "rev" if args[0][3] == "fwd" else "fwd")
    return NotImplemented


def ax_range_incl_new(I, st, fn, args, bb):
    return ("rangeincl", args[0], args[1])


def ax_next(I, st, fn, args, bb):
    a = args[0]
    if a[0] == "ref":
        v = I.read_pl(st, a[1])
        if v[0] == "rangeiter":
            # (the loop variable is named after the block of THIS instance of the body: two inlined helpers with a loop at the
            # same block number must not share it - the exit fact of the first would make the second loop look empty)
            return ("rnext", ("elem", I.uid(bb), v[1], v[2]), v[1], v[2], v[3])
    return NotImplemented


INT_TYS = {"u8", "u16", "u32", "u64", "u128", "usize", "i8", "i16", "i32", "i64", "i128", "isize"}

_OP_ASSIGN = {"AddAssign": "Add::add", "SubAssign": "Sub::sub", "MulAssign": "Mul::mul", "DivAssign": "Div::div", "RemAssign": "Rem::rem",
              "BitAndAssign": "BitAnd::bitand", "BitOrAssign": "BitOr::bitor", "BitXorAssign": "BitXor::bitxor", "ShlAssign": "Shl::shl", "ShrAssign": "Shr::shr"}


def ax_generic_op_assign(I, st, fn, args, bb):
    """`x op= y` on a type parameter (the trait call cannot be resolved to an impl): x := x op y, the
    lawful-operator assumption already made for the generic arithmetic of these crates"""
    if "opassign" not in I.features or fn.get("resolved") is not None or len(args) != 2:
        return NotImplemented
    tr = (fn.get("trait") or "").split("::")[-1]
    op = _OP_ASSIGN.get(tr)
    a0 = args[0]
    if op is None or not (isinstance(a0, tuple) and a0 and a0[0] == "ref"):
        return NotImplemented
    pl = a0[1]
    old = I.read_pl(st, pl)
    I.write_pl(st, pl, I.pure_term(st, "std::ops::" + op, (old, args[1])), bb, None, record=not place_is_local(pl))
    return UNIT


def _exposes_local(t):
    """the value gives access to a caller local as a place (a reference, possibly inside an aggregate); a local
    that is merely mentioned inside the identity of an opaque call result is never read through"""
    if not isinstance(t, tuple) or not t:
        return False
    if t[0] in ("ref", "optref"):
        return place_is_local(t[1])
    if t[0] == "agg":
        return any(_exposes_local(x) for x in t[2])
    return False


def _comb_event(I, st, bb, fn, args, key):
    gpath, rpath, trait, name = fn_names(fn)
    st.add_event(Event("call", bb, callee=key, fn=fn, args=args, res=None, state=(st.facts, st.mem, st.path), extra={"pure": True, "handled": True, "inlined": True, "combinator": True, "name": name, "trait": trait, "gpath": gpath, "argvals": (), "argtys": [], "in": I.body.path if I.parent is not None else None, "uid": I.uid(bb)}))


def _payload(I, st, o, bb):
    return ax_unwrap(I, st, None, (o,), bb)


def comb_option(kind):
    """Option::map / and_then / map_or / map_or_else / unwrap_or_else with a closure of the crate: the call is
    the case split on the discriminant with the closure's body run on the payload (what `match` compiles to)"""

    def comb(I, st, t, bb, fn, args, key, argtys):
        o = args[0]
        d = mk_discr(o)
        if kind in ("map", "and_then"):
            f_some, f_none, dflt = args[1], None, None
        elif kind == "map_or":
            dflt, f_some, f_none = args[1], args[2], None
        elif kind == "map_or_else":
            f_none, f_some, dflt = args[1], args[2], None
        else:  # unwrap_or_else
            f_none, f_some, dflt = args[1], None, None
        outs = []
        probe = st.fork()
        _comb_event(I, probe, bb, fn, args, key)
        # None side
        s0 = I._split_on(probe, d, 0)
        if s0 is not None:
            if kind in ("map", "and_then"):
                outs.append((s0, NONE))
            elif kind == "map_or":
                outs.append((s0, dflt))
            else:
                r = I._apply_closure(s0, bb, f_none, ())
                if r is None:
                    return None
                outs.extend(r)
        s1 = I._split_on(probe, d, 1)
        if s1 is not None:
            pay = _payload(I, s1, o, bb)
            if f_some is None:
                outs.append((s1, pay))
            else:
                r = I._apply_closure(s1, bb, f_some, (pay,))
                if r is None:
                    return None
                for ns, v in r:
                    outs.append((ns, mk_some(v) if kind == "map" else v))
        return I._finish_comb(t, bb, outs)

    return comb


def comb_option_filter(I, st, t, bb, fn, args, key, argtys):
    """opt.filter(|x| p(x)): None stays None; Some(x) is kept exactly when the predicate's body says so"""
    o, f = args[0], args[1]
    d = mk_discr(o)
    outs = []
    probe = st.fork()
    _comb_event(I, probe, bb, fn, args, key)
    s0 = I._split_on(probe, d, 0)
    if s0 is not None:
        outs.append((s0, NONE))
    s1 = I._split_on(probe, d, 1)
    if s1 is not None:
        pay = _payload(I, s1, o, bb)
        r = I._apply_closure(s1, bb, f, (("ref", ("constval", pay)),))
        if r is None:
            return None
        for ns, v in r:
            st_t = I._split_on(ns, v, 1)
            if st_t is not None:
                outs.append((st_t, mk_some(pay)))
            st_f = I._split_on(ns, v, 0)
            if st_f is not None:
                outs.append((st_f, NONE))
    return I._finish_comb(t, bb, outs)


def comb_option_unwrap_or(I, st, t, bb, fn, args, key, argtys):
    """opt.unwrap_or(d) of an Option whose variant is known in this state"""
    o, dflt = args[0], args[1]
    if o == NONE:
        return I._finish_comb(t, bb, [(st.fork(), dflt)])
    if isinstance(o, tuple) and o and o[0] == "agg" and isinstance(o[1], tuple) and o[1][0] == "adt" and len(o[1]) > 3 and o[1][3] == "Some":
        return I._finish_comb(t, bb, [(st.fork(), o[2][0])])
    return None


def comb_bool_then(I, st, t, bb, fn, args, key, argtys):
    c, f = args[0], args[1]
    outs = []
    probe = st.fork()
    _comb_event(I, probe, bb, fn, args, key)
    s0 = I._split_on(probe, c, 0)
    if s0 is not None:
        outs.append((s0, NONE))
    s1 = I._split_on(probe, c, 1)
    if s1 is not None:
        r = I._apply_closure(s1, bb, f, ())
        if r is None:
            return None
        outs.extend((ns, mk_some(v)) for ns, v in r)
    return I._finish_comb(t, bb, outs)


def comb_bool_then_some(I, st, t, bb, fn, args, key, argtys):
    c, v = args[0], args[1]
    outs = []
    probe = st.fork()
    _comb_event(I, probe, bb, fn, args, key)
    s0 = I._split_on(probe, c, 0)
    if s0 is not None:
        outs.append((s0, NONE))
    s1 = I._split_on(probe, c, 1)
    if s1 is not None:
        outs.append((s1, mk_some(v)))
    return I._finish_comb(t, bb, outs)


def _stateless_closure_at_entry(I, v):
    cur = I
    while cur is not None:
        for hd, ens in cur.loop_entry.items():
            for l in ([v[2]] if len(v) > 2 else []):
                if v[0] == "phi" and cur.uid(hd) != v[1]:
                    continue
                vals = {repr(en.get(l)) for en in ens}
                if len(vals) == 1:
                    e0 = ens[0].get(l)
                    # no captures, or only captured references (the closure value itself never changes: whatever state
                    # it updates lives behind those references, i.e. in memory)
                    if isinstance(e0, tuple) and e0 and e0[0] == "agg" and isinstance(e0[1], tuple) and e0[1] and e0[1][0] == "closure" and all(isinstance(c_, tuple) and c_ and c_[0] == "ref" for c_ in e0[2]):
                        return e0
        cur = None if v[0] == "phi" else cur.parent
    return v


def _call_named_trait_method(I, st, t, bb, f, vals):
    """`op(a, b)` where op is a trait method passed by name (`Add::add` handed to a helper as impl FnOnce(Self, Self) -> Self)
    and the crate has exactly one impl of that trait for the first argument's type: the call is presented as the direct,
    pure call of that impl's method (what the monomorphised code does)"""
    crate = I.body.crate
    parts = str(f[2]).split("::")
    if len(parts) < 2:
        return None
    trait_path, meth = "::".join(parts[:-1]), parts[-1]
    # a bit operator of a primitive integer passed by name (`zip_words(rhs, u64::bitand)`): the operator itself
    if len(f) > 3 and isinstance(f[3], tuple) and f[3] and str(f[3][0]) in ("u8", "u16", "u32", "u64", "u128", "usize", "i8", "i16", "i32", "i64", "i128", "isize") \
            and parts[-2] in ("BitAnd", "BitOr", "BitXor") and meth == parts[-2].lower() and len(vals) == 2 and all(str(x) == str(f[3][0]) for x in f[3]):
        ns = st.fork()
        return I._finish_comb(t, bb, [(ns, mk_bin(parts[-2], vals[0], vals[1]))])
    self_ty = None
    m_ = _re.match(r"^([\w:<> ,&']+?)\(", str(f[3])) if len(f) > 3 else None
    if m_:
        self_ty = m_.group(1).strip()
    cands = []
    for imp in crate.impls:
        if str(imp.get("trait") or "").split("<")[0] != trait_path or imp.get("trait_args") and len(imp["trait_args"]) > 1 and str(imp["trait_args"][-1]).startswith("&"):
            continue
        if self_ty is not None and str(imp.get("self_ty")) != self_ty:
            continue
        for it in imp["items"]:
            if it["name"] == meth and it["key"] in crate.by_key:
                cands.append(crate.by_key[it["key"]])
    if len(cands) != 1:
        return None
    tgt = cands[0]
    prog = getattr(crate, "program", None)
    if not effects.purity(tgt, prog):
        return None
    uid = I.uid(bb)
    fn2 = {"def": tgt.key, "path": tgt.path, "name": tgt.name, "krate": crate.name, "local": True, "resolved": {"def": tgt.key, "path": tgt.path, "krate": crate.name, "local": True, "kind": "item", "is_closure": False}}
    ns = st.fork()
    res = I.pure_term(ns, tgt.path, vals)
    ns.add_event(Event("call", bb, callee=tgt.path, fn=fn2, args=vals, res=res, state=(ns.facts, ns.mem, ns.path), extra={"pure": True, "handled": False, "dest": t["dest"], "name": tgt.name, "trait": trait_path, "gpath": tgt.path, "argvals": tuple(None for _ in vals), "argtys": [], "in": I.body.path if I.parent is not None else None, "uid": uid}))
    return I._finish_comb(t, bb, [(ns, res)])


def comb_fn_call(I, st, t, bb, fn, args, key, argtys):
    """`f(x)` where f is a closure value known in this state (a closure handed to an inlined helper):
    the closure's body is run on the arguments"""
    if len(args) != 2:
        return None
    f = args[0]
    if isinstance(f, tuple) and f and f[0] == "ref":
        pl = f[1]
        f = pl[1] if pl[0] == "constval" else I.read_pl(st, pl)
    if isinstance(f, tuple) and f and f[0] in ("phi", "out"):
        # an FnMut closure called through `&mut f` inside a loop is loop-carried state; a closure without captures
        # has no state to carry: it is the value it entered the loop with
        f = _stateless_closure_at_entry(I, f)
    tup = args[1]
    if not (isinstance(tup, tuple) and tup and tup[0] == "agg" and tup[1] == "tuple"):
        return None
    if isinstance(f, tuple) and f and f[0] == "fnitem" and f[1] not in I.inline:
        return _call_named_trait_method(I, st, t, bb, f, tuple(tup[2]))
    if isinstance(f, tuple) and f and f[0] == "fnitem" and f[1] in I.inline:
        probe = st.fork()
        r = I._apply_closure(probe, bb, f, tuple(tup[2]))
        return None if r is None else I._finish_comb(t, bb, r)
    if not (isinstance(f, tuple) and f and f[0] == "agg" and isinstance(f[1], tuple) and f[1] and f[1][0] == "closure"):
        return None
    probe = st.fork()
    r = I._apply_closure(probe, bb, f, tuple(tup[2]))
    if r is None:
        return None
    return I._finish_comb(t, bb, r)


def comb_option_try_branch(I, st, t, bb, fn, args, key, argtys):
    """`opt?`: <Option<T> as Try>::branch(opt) is the case split Continue(payload) / Break(None); the residual is handed to
    from_residual, which answers None (axiom below)"""
    sty = str(fn.get("self_ty") or (fn.get("args") or [""])[0])
    if not sty.replace("core::", "std::").startswith("std::option::Option<"):
        return None
    o = args[0]
    d = mk_discr(o)
    outs = []
    probe = st.fork()
    _comb_event(I, probe, bb, fn, args, key)
    s0 = I._split_on(probe, d, 0)
    if s0 is not None:
        outs.append((s0, ("agg", ("adt", "std::ops::ControlFlow", 1, "Break", ("0",)), (NONE,))))
    s1 = I._split_on(probe, d, 1)
    if s1 is not None:
        outs.append((s1, ("agg", ("adt", "std::ops::ControlFlow", 0, "Continue", ("0",)), (_payload(I, s1, o, bb),))))
    return I._finish_comb(t, bb, outs)


def ax_option_from_residual(I, st, fn, args, bb):
    sty = str(fn.get("self_ty") or (fn.get("args") or [""])[0])
    if sty.replace("core::", "std::").startswith("std::option::Option<"):
        return NONE
    return NotImplemented


def comb_slice_get(I, st, t, bb, fn, args, key, argtys):
    """`slice.get(i)` with a usize index: Some(&slice[i]) when i < len, None otherwise"""
    if (fn.get("args") or ["", ""])[-1] != "usize":
        return None
    pl = _ref_place(args[0])
    if pl is None or pl[0] == "slicefrom":
        return None
    ln = ax_len(I, st, fn, (args[0],), bb)
    c = mk_bin("Lt", args[1], ln)
    probe = st.fork()
    _comb_event(I, probe, bb, fn, args, key)
    outs = []
    s0 = I._split_on(probe, c, 0)
    if s0 is not None:
        outs.append((s0, NONE))
    s1 = I._split_on(probe, c, 1)
    if s1 is not None:
        outs.append((s1, mk_some(("ref", ("index", pl, args[1])))))
    return I._finish_comb(t, bb, outs)


def comb_checked(op):
    """`a.checked_sub(b)` etc. on primitive integers: Some(a op b) when the operation does not overflow, None when it does"""
    def f(I, st, t, bb, fn, args, key, argtys):
        if len(args) < 2:
            return None
        m = _re.search(r"<impl (\w+)>::checked_", str(key))
        ty = m.group(1) if m else None
        if ty not in INT_TYS:
            return None
        a, b = args[0], args[1]
        if op == "Sub" and ty.startswith("u"):
            c = mk_bin("Lt", a, b)          # overflow of an unsigned subtraction: a < b
        else:
            c = ("ovf", op, a, b, ty)
        probe = st.fork()
        _comb_event(I, probe, bb, fn, args, key)
        outs = []
        s1 = I._split_on(probe, c, 1)
        if s1 is not None:
            outs.append((s1, NONE))
        s0 = I._split_on(probe, c, 0)
        if s0 is not None:
            outs.append((s0, mk_some(mk_bin(op, a, b))))
        return I._finish_comb(t, bb, outs)

    return f


ALWAYS_COMB = {
    ("std::ops::Try", "branch"): comb_option_try_branch,
    # `s.get(i)` / `s.get_mut(i)` with a usize index: what `s[i]` does, with the failure as a value
    "core::slice::<impl [T]>::get": comb_slice_get,
    "core::slice::<impl [T]>::get_mut": comb_slice_get,
}
for _t in sorted(INT_TYS):
    for _o, _n in (("Sub", "checked_sub"), ("Add", "checked_add"), ("Mul", "checked_mul")):
        ALWAYS_COMB["core::num::<impl %s>::%s" % (_t, _n)] = comb_checked(_o)
        ALWAYS_COMB["std::num::<impl %s>::%s" % (_t, _n)] = comb_checked(_o)

COMBINATORS = {
    ("std::ops::Fn", "call"): comb_fn_call,
    ("std::ops::FnMut", "call_mut"): comb_fn_call,
    ("std::ops::FnOnce", "call_once"): comb_fn_call,
    "core::slice::<impl [T]>::get": comb_slice_get,
    "std::option::Option::<T>::map": comb_option("map"),
    "std::option::Option::<T>::and_then": comb_option("and_then"),
    "std::option::Option::<T>::map_or": comb_option("map_or"),
    "std::option::Option::<T>::map_or_else": comb_option("map_or_else"),
    "std::option::Option::<T>::unwrap_or_else": comb_option("unwrap_or_else"),
    "std::option::Option::<T>::filter": comb_option_filter,
    "std::option::Option::<T>::unwrap_or": comb_option_unwrap_or,
    "core::bool::<impl bool>::then": comb_bool_then,
    "std::bool::<impl bool>::then": comb_bool_then,
    "core::bool::<impl bool>::then_some": comb_bool_then_some,
    "std::bool::<impl bool>::then_some": comb_bool_then_some,
}


AXIOMS = {
    ("std::ops::Index", "index"): ax_index,
    ("std::ops::FromResidual", "from_residual"): ax_option_from_residual,

    ("std::ops::IndexMut", "index_mut"): ax_index,
    ("std::ops::Deref", "deref"): ax_deref,
    ("std::ops::DerefMut", "deref_mut"): ax_deref,
    ("std::iter::IntoIterator", "into_iter"): ax_into_iter,
    ("std::iter::Iterator", "rev"): ax_rev,
    ("std::iter::Iterator", "next"): ax_next,
    "std::ops::RangeInclusive::<Idx>::new": ax_range_incl_new,
    "core::slice::<impl [T]>::split_at_mut": ax_split_at,
    "core::slice::<impl [T]>::split_at": ax_split_at,
    "std::mem::swap": ax_swap,
    "core::mem::swap": ax_swap,
    "std::mem::replace": ax_replace,
    "core::mem::replace": ax_replace,
    "std::mem::take": ax_mem_take,
    "core::mem::take": ax_mem_take,
    "std::option::Option::<T>::take": ax_take_option,
    "std::option::Option::<T>::is_some": ax_is_some,
    "std::option::Option::<T>::is_none": ax_is_none,
    "std::option::Option::<T>::as_ref": ax_as_ref,
    "std::option::Option::<T>::as_mut": ax_as_ref,
    "std::option::Option::<T>::unwrap": ax_unwrap,
    "std::option::Option::<T>::expect": ax_unwrap,
    "std::result::Result::<T, E>::unwrap": ax_result_unwrap,
    "std::result::Result::<T, E>::expect": ax_result_unwrap,
    ("std::convert::From", "from"): ax_from_int,
    ("std::clone::Clone", "clone"): ax_clone,
    ("std::cmp::Ord", "max"): ax_max,
    ("std::cmp::Ord", "min"): ax_min,
    "std::cmp::max": ax_max,
    "std::cmp::min": ax_min,
    "std::f64::<impl f64>::mul_add": ax_mul_add,
    "core::f64::<impl f64>::mul_add": ax_mul_add,
    "std::f32::<impl f32>::mul_add": ax_mul_add,
    "core::f32::<impl f32>::mul_add": ax_mul_add,
    "std::vec::Vec::<T, A>::len": ax_len,
    "core::slice::<impl [T]>::len": ax_len,
    ("std::ops::Shr", "shr"): ax_prim_ref_op("Shr"),
    ("std::ops::Shl", "shl"): ax_prim_ref_op("Shl"),
    ("std::ops::BitAnd", "bitand"): ax_prim_ref_op("BitAnd"),
    ("std::ops::BitOr", "bitor"): ax_prim_ref_op("BitOr"),
    ("std::ops::BitXor", "bitxor"): ax_prim_ref_op("BitXor"),
    ("std::cmp::PartialEq", "eq"): ax_cmp_trait("Eq"),
    ("std::cmp::PartialEq", "ne"): ax_cmp_trait("Ne"),
    ("std::cmp::PartialOrd", "lt"): ax_cmp_trait("Lt"),
    ("std::cmp::PartialOrd", "le"): ax_cmp_trait("Le"),
    ("std::cmp::PartialOrd", "gt"): ax_cmp_trait("Gt"),
    ("std::cmp::PartialOrd", "ge"): ax_cmp_trait("Ge"),
}

PURE_TRAITS = {
    "std::ops::Index": {"index"},
    "std::ops::IndexMut": {"index_mut"},
    "std::ops::Deref": {"deref"},
    "std::ops::DerefMut": {"deref_mut"},
    "std::clone::Clone": {"clone"},
    "std::cmp::PartialEq": {"eq", "ne"},
    "std::cmp::PartialOrd": {"lt", "le", "gt", "ge", "partial_cmp"},
    "std::cmp::Ord": {"cmp", "max", "min"},
    "std::default::Default": {"default"},
    "std::convert::From": {"from"},
    "std::convert::Into": {"into"},
    "std::ops::Add": {"add"},
    "std::ops::Sub": {"sub"},
    "std::ops::Mul": {"mul"},
    "std::ops::Div": {"div"},
    "std::ops::Rem": {"rem"},
    "std::ops::Neg": {"neg"},
    "std::ops::Not": {"not"},
    "std::ops::BitAnd": {"bitand"},
    "std::ops::BitOr": {"bitor"},
    "std::ops::BitXor": {"bitxor"},
    "std::ops::Shl": {"shl"},
    "std::ops::Shr": {"shr"},
    "std::iter::ExactSizeIterator": {"len"},
}
PURE_FNS = {
    "std::vec::Vec::<T, A>::len",
    "std::vec::Vec::<T>::new",
    "std::string::String::new",
    "std::option::Option::<T>::is_some",
    "std::option::Option::<T>::is_none",
    "std::option::Option::<T>::as_ref",
    "std::option::Option::<T>::as_mut",
    "std::option::Option::<T>::unwrap",
    "std::option::Option::<T>::unwrap_or",
    "std::cmp::max",
    "std::cmp::min",
    "core::slice::<impl [T]>::len",
    "core::slice::<impl [T]>::split_at_mut",
    "core::slice::<impl [T]>::iter",
    "std::boxed::Box::<T>::new",
}
PURE_PREFIXES = ("core::num::<impl ", "std::ops::Range", "core::ops::Range", "core::f64::<impl f64>::", "core::f32::<impl f32>::", "std::f64::<impl f64>::", "std::f32::<impl f32>::")


def analyse(body, program=None, record_index_reads=False, **kw):
    I = Interp(body, program, **kw)
    I.record_index_reads = record_index_reads
    return I.run()
