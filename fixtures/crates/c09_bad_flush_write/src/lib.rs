pub mod output_macro;
pub mod reader;
pub mod writer;

pub use output_macro::make_output_macro;
pub use reader::{Readable, Reader};
pub use writer::{Writable, Writer};

#[macro_export]
macro_rules! make_io {
    ($reader:ident, $writer:ident) => {
        let _stdin_ = std::io::stdin();
        #[allow(unused_variables)]
        let mut $reader = rlib_io::reader::Reader::new(Box::new(_stdin_.lock()));
        let _stdout_ = std::io::stdout();
        #[allow(unused_variables)]
        let mut $writer = rlib_io::writer::Writer::new(Box::new(_stdout_.lock()));

        rlib_io::output_macro::make_output_macro!($reader, $writer);
    };
}
