#!/bin/bash
# run every armed quick (or $1=thorough) check in parallel and summarise; exit 1 when any fails
cd /verif
TIER=${1:-quick}
ids=$(python3 -c "import json;print(' '.join(c['property_id'] for c in json.load(open('MANIFEST.json'))['checks']))")
rc=0
for id in $ids; do ( bin/vcheck $id --tier $TIER > /tmp/regress.$id.log 2>&1; echo "$? $id $(tail -1 /tmp/regress.$id.log)" ) & done | sort -k2 | while read code rest; do echo "$code $rest"; done
wait
grep -l "^VIOLATION" /tmp/regress.C*.log >/dev/null 2>&1 && rc=1
rm -f /tmp/regress.C*.log
exit $rc
