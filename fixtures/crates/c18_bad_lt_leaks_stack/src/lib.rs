// Mostly was made by Hegdahl (https://github.com/Hegdahl)

// Make sure to call f80_init() in the beginning of fn main(),
// it enables f80 on windows (for example, on codeforces)

// A lot of https://doc.rust-lang.org/std/primitive.f64.html is yet to be implemented

use core::ops::{Add, AddAssign, Div, DivAssign, Mul, MulAssign, Neg, Sub, SubAssign};
use std::cmp::Ordering;

use rlib_num_traits::ZeroOne;
use rlib_show::{Show, ShowSettings};

#[derive(Clone, Copy)]
#[repr(align(16))]
#[allow(non_camel_case_types)]
pub struct f80([u8; 10]);

pub fn f80_init() {
    #[cfg(target_family = "windows")]
    unsafe {
        core::arch::asm! {
            "finit"
        }
    }
}

macro_rules! define_f80_binary_op {
    ($trait:ident, $fun:ident, $asm:literal) => {
        impl $trait for f80 {
            type Output = f80;
            fn $fun(self, rhs: Self) -> Self::Output {
                let mut res = core::mem::MaybeUninit::<f80>::uninit();
                unsafe {
                    core::arch::asm! {
                        "fld     TBYTE PTR [{0}]",
                        "fld     TBYTE PTR [{1}]",
                        $asm,
                        "fstp    TBYTE PTR [{2}]",
                        in(reg) self.0.as_ptr(),
                        in(reg) rhs.0.as_ptr(),
                        in(reg) res.as_mut_ptr(),
                        options(nostack)
                    }
                    res.assume_init()
                }
            }
        }
    };
}

macro_rules! define_f80_unary_op {
    ($trait:ident, $fun:ident, $asm:literal) => {
        impl $trait for f80 {
            type Output = f80;
            fn $fun(self) -> Self::Output {
                let mut res = core::mem::MaybeUninit::<f80>::uninit();
                unsafe {
                    core::arch::asm! {
                        "fld     TBYTE PTR [{0}]",
                        $asm,
                        "fstp    TBYTE PTR [{1}]",
                        in(reg) self.0.as_ptr(),
                        in(reg) res.as_mut_ptr(),
                        options(nostack)
                    }
                    res.assume_init()
                }
            }
        }
    };
}

macro_rules! define_f80_assign_op {
    ($trait:ident, $fun:ident, $no_assign_fun:ident) => {
        impl $trait for f80 {
            fn $fun(&mut self, rhs: f80) {
                *self = self.$no_assign_fun(rhs);
            }
        }
    };
}

define_f80_binary_op!(Add, add, "faddp   st(1), st");
define_f80_binary_op!(Sub, sub, "fsubp   st(1), st");
define_f80_binary_op!(Mul, mul, "fmulp   st(1), st");
define_f80_binary_op!(Div, div, "fdivp   st(1), st");

define_f80_assign_op!(AddAssign, add_assign, add);
define_f80_assign_op!(SubAssign, sub_assign, sub);
define_f80_assign_op!(MulAssign, mul_assign, mul);
define_f80_assign_op!(DivAssign, div_assign, div);

define_f80_unary_op!(Neg, neg, "fchs");

impl PartialEq for f80 {
    fn eq(&self, rhs: &f80) -> bool {
        self.le(rhs) && rhs.le(self)
    }
}

impl PartialOrd<f80> for f80 {
    fn lt(&self, rhs: &f80) -> bool {
        let mut res = std::mem::MaybeUninit::<u32>::uninit();
        unsafe {
            let e: u32;
            core::arch::asm! {
                "fld     TBYTE PTR [{0}]",
                "fld     TBYTE PTR [{1}]",
                "fcomip  st, st(1)",
                "seta    al",
                in(reg) self.0.as_ptr(),
                in(reg) rhs.0.as_ptr(),
                out("eax") e,
                options(nostack)
            }
            *res.as_mut_ptr() = e;
            (res.assume_init() & 1) > 0
        }
    }

    fn gt(&self, rhs: &f80) -> bool {
        rhs.lt(self)
    }

    fn le(&self, rhs: &f80) -> bool {
        let mut res = std::mem::MaybeUninit::<u32>::uninit();
        unsafe {
            let e: u32;
            core::arch::asm! {
                "fld     TBYTE PTR [{0}]",
                "fld     TBYTE PTR [{1}]",
                "fcomip  st, st(1)",
                "fstp    st(0)",
                "setae   al",
                in(reg) self.0.as_ptr(),
                in(reg) rhs.0.as_ptr(),
                out("eax") e,
                options(nostack)
            }
            *res.as_mut_ptr() = e;
            (res.assume_init() & 1) > 0
        }
    }

    fn ge(&self, rhs: &f80) -> bool {
        rhs.le(self)
    }

    fn partial_cmp(&self, rhs: &f80) -> Option<Ordering> {
        // same as f64
        match (*self <= *rhs, *self >= *rhs) {
            (false, false) => None,
            (false, true) => Some(Ordering::Greater),
            (true, false) => Some(Ordering::Less),
            (true, true) => Some(Ordering::Equal),
        }
    }
}

impl f80 {
    pub fn abs(self) -> f80 {
        if self < f80::from(0.) {
            -self
        } else {
            self
        }
    }

    pub fn min(self, rhs: f80) -> f80 {
        let mut res = core::mem::MaybeUninit::<f80>::uninit();
        unsafe {
            core::arch::asm! {
                "fld     TBYTE PTR [{0}]",
                "fld     TBYTE PTR [{1}]",
                "fucomi  st, st(1)",
                "fcmovnbe st, st(1)",
                "fstp    st(1)",
                "fstp    TBYTE PTR [{2}]",
                in(reg) self.0.as_ptr(),
                in(reg) rhs.0.as_ptr(),
                in(reg) res.as_mut_ptr(),
                options(nostack)
            }
            res.assume_init()
        }
    }

    pub fn max(self, rhs: f80) -> f80 {
        let mut res = core::mem::MaybeUninit::<f80>::uninit();
        unsafe {
            core::arch::asm! {
                "fld     TBYTE PTR [{0}]",
                "fld     TBYTE PTR [{1}]",
                "fucomi  st, st(1)",
                "fcmovbe st, st(1)",
                "fstp    st(1)",
                "fstp    TBYTE PTR [{2}]",
                in(reg) self.0.as_ptr(),
                in(reg) rhs.0.as_ptr(),
                in(reg) res.as_mut_ptr(),
                options(nostack)
            }
            res.assume_init()
        }
    }
}

impl ZeroOne for f80 {
    const ZERO: f80 = f80([0, 0, 0, 0, 0, 0, 0, 0, 0, 0]);
    const ONE: f80 = f80([0, 0, 0, 0, 0, 0, 0, 128, 255, 63]);
}

impl From<f80> for f64 {
    fn from(f: f80) -> Self {
        let mut res = core::mem::MaybeUninit::<f64>::uninit();
        unsafe {
            core::arch::asm! {
                "fld     TBYTE PTR [{0}]",
                "fstp    QWORD PTR [{1}]",
                in(reg) f.0.as_ptr(),
                in(reg) res.as_mut_ptr(),
                options(nostack)
            }
            res.assume_init()
        }
    }
}

impl From<f64> for f80 {
    fn from(f: f64) -> Self {
        let mut res = core::mem::MaybeUninit::<f80>::uninit();
        unsafe {
            core::arch::asm! {
                "fld     QWORD PTR [{0}]",
                "fstp    TBYTE PTR [{1}]",
                in(reg) &f as *const _,
                in(reg) res.as_mut_ptr(),
                options(nostack)
            }
            res.assume_init()
        }
    }
}

impl Default for f80 {
    fn default() -> Self {
        f80::ZERO
    }
}

impl std::fmt::Display for f80 {
    fn fmt(&self, f: &mut std::fmt::Formatter<'_>) -> std::fmt::Result {
        f64::from(*self).fmt(f)
    }
}

impl std::fmt::Debug for f80 {
    fn fmt(&self, f: &mut std::fmt::Formatter<'_>) -> std::fmt::Result {
        f64::from(*self).fmt(f)
    }
}

impl Show for f80 {
    fn show(&self, settings: &ShowSettings) -> String {
        f64::from(*self).show(settings)
    }
}
